#!/usr/bin/env python3
"""Systematic single-token changes to /repo, used to find blind spots of the checks (a development tool:
nothing registered in MANIFEST.json depends on it, and nothing it does is ever committed to /repo).

  tools_mutate.py gen <name> <file> [<file> ...]      -> work/mutants/<name>.jsonl
  tools_mutate.py run <name> --crate <cargo pkg> --checks C19,C05:0,... [--from N] [--to N]
        each check may carry the indices of the ./check steps to run (C01:0 = first engine only)
  tools_mutate.py suite <name>                         -> run /repo's own test suite on the survivors
  tools_mutate.py report <name>

For every mutant: take the /repo lock, patch one token, `cargo check` the crate (skip if it does not compile),
run the listed quick checks until one reports a violation, undo.  Results: work/mutants/<name>.results.jsonl
"""
import fcntl, json, os, re, subprocess, sys, time

ROOT = "/verif"
MUT = f"{ROOT}/work/mutants"
OPS = [
    (r" == ", " != "), (r" != ", " == "),
    (r" < ", " <= "), (r" <= ", " < "), (r" > ", " >= "), (r" >= ", " > "),
    (r" && ", " || "), (r" \|\| ", " && "),
    (r" \+ 1\b", " + 0"), (r" - 1\b", " - 0"), (r" \+= 1\b", " += 0"),
    (r"\btrue\b", "false"), (r"\bfalse\b", "true"),
    (r"\.is_some\(\)", ".is_none()"), (r"\.is_none\(\)", ".is_some()"),
    (r"\.is_ok\(\)", ".is_err()"), (r"\.is_err\(\)", ".is_ok()"),
    (r"\bif !", "if "),
    (r"\bcontinue;", "break;"),
    (r"\.rev\(\)", ""), (r"\.skip\(1\)", ".skip(0)"),
    (r"\.min\(", ".max("), (r"\.max\(", ".min("),
    (r"\.any\(", ".all("), (r"\.all\(", ".any("),
    (r"\.first\(\)", ".last()"), (r"\.last\(\)", ".first()"),
    (r"\.trim_start\(\)", ""), (r"\.trim_end\(\)", ""), (r"\.trim\(\)", ""),
    (r"\.or_else\(", ".and_then("),
    (r"(?<=[\(\s=])!(?=[a-zA-Z_\(])", ""),
    (r"(?<![\w\.])0(?![\w\.])", "1"), (r"(?<![\w\.])1(?![\w\.])", "0"),
    (r"\.unwrap_or_default\(\)\.", None),  # placeholder (never matches usefully)
]
# statement deletion: a whole single-line call statement (no binding, no control flow)
STMT = re.compile(r"^\s+(?!let |return|break|continue|if |for |while |match |use |pub |fn |impl |\}|\)|\]|//|#)[A-Za-z_][\w\.:<>&\*]*(\(|\.|!\().*;\s*$")


def sh(cmd, **kw):
    return subprocess.run(cmd, shell=True, capture_output=True, text=True, **kw)


def in_string(line, pos):
    q = 0
    i = 0
    while i < pos:
        if line[i] == "\\":
            i += 2
            continue
        if line[i] == '"':
            q ^= 1
        i += 1
    return q == 1


def gen(name, files):
    os.makedirs(MUT, exist_ok=True)
    out = []
    for f in files:
        lines = open(f).read().split("\n")
        skip_depth = None
        for ln, line in enumerate(lines):
            st = line.strip()
            if st.startswith("#[cfg(test)]"):
                break  # test modules come last in this code base
            if st.startswith("//") or st.startswith("#[") or st.startswith("use ") or st.startswith("///"):
                continue
            # Display / Debug implementations only shape messages
            if re.search(r"impl.*(Display|Debug) for", line):
                skip_depth = len(line) - len(line.lstrip())
                continue
            if skip_depth is not None:
                if line.startswith(" " * skip_depth + "}") and len(line) - len(line.lstrip()) == skip_depth:
                    skip_depth = None
                continue
            code = line.split(" // ")[0]
            if STMT.match(code) and code.count("(") == code.count(")") and code.count("{") == code.count("}"):
                indent = code[: len(code) - len(code.lstrip())]
                out.append({"file": f, "line": ln + 1, "op": "delete statement", "before": line, "after": indent + "// (deleted) " + code.strip()})
            for pat, rep in OPS:
                if rep is None:
                    continue
                for m in re.finditer(pat, code):
                    if in_string(code, m.start()):
                        continue
                    new = code[: m.start()] + rep + code[m.end():] + line[len(code):]
                    out.append({"file": f, "line": ln + 1, "op": f"{pat} -> {rep}", "before": line, "after": new})
    with open(f"{MUT}/{name}.jsonl", "w") as fh:
        for i, m in enumerate(out):
            m["id"] = i
            fh.write(json.dumps(m) + "\n")
    print(len(out), "mutants ->", f"{MUT}/{name}.jsonl")


def load(name):
    return [json.loads(l) for l in open(f"{MUT}/{name}.jsonl")]


def apply(m):
    lines = open(m["file"]).read().split("\n")
    assert lines[m["line"] - 1] == m["before"], "source drifted"
    lines[m["line"] - 1] = m["after"]
    open(m["file"], "w").write("\n".join(lines))


def undo():
    sh("git -C /repo checkout -- . ")


def run(name, crate, checks, lo, hi):
    ms = load(name)
    resf = f"{MUT}/{name}.results.jsonl"
    done = set()
    if os.path.exists(resf):
        done = {json.loads(l)["id"] for l in open(resf)}
    lock = open(f"{ROOT}/work/.repo.lock", "w")
    env = dict(os.environ, VERIF_LOCK_HELD="1", CARGO_NET_OFFLINE="true")
    for m in ms:
        if m["id"] in done or m["id"] < lo or m["id"] >= hi:
            continue
        fcntl.flock(lock, fcntl.LOCK_EX)
        try:
            if sh("git -C /repo status --porcelain --untracked-files=no").stdout.strip():
                print("/repo dirty, abort")
                sys.exit(2)
            t0 = time.time()
            apply(m)
            res = {"id": m["id"], "file": m["file"], "line": m["line"], "op": m["op"], "after": m["after"].strip()}
            c = subprocess.run(f"cargo check --offline -q -p {crate} {os.environ.get('MUT_CHECK_FLAGS', '')}", shell=True, cwd="/repo", capture_output=True, text=True, env=dict(env, CARGO_TARGET_DIR=f"{ROOT}/target/mutcheck"))
            if c.returncode != 0:
                res["status"] = "uncompilable"
            else:
                res["status"] = "survived"
                for chk in checks:
                    pid, _, steps = chk.partition(":")
                    e = dict(env)
                    if steps:
                        e["VERIF_ONLY_STEPS"] = steps.replace("+", ",")
                    try:
                        o = subprocess.run(f"./check {pid} --tier quick", shell=True, cwd=ROOT, capture_output=True, text=True, env=e, timeout=1500)
                        code, out = o.returncode, o.stdout + o.stderr
                    except subprocess.TimeoutExpired:
                        code, out = 1, "key: TIMEOUT"
                    if code == 1:
                        res["status"] = "killed"
                        res["by"] = chk
                        res["first"] = next((l.strip()[:300] for l in out.splitlines() if l.strip().startswith("key:")), "")
                        break
                    if code != 0:
                        res["status"] = "machinery"
                        res["by"] = chk
                        res["first"] = out[-400:]
                        break
            res["wall_s"] = round(time.time() - t0, 1)
            with open(resf, "a") as fh:
                fh.write(json.dumps(res) + "\n")
            print(res["id"], res["status"], res.get("by", ""), f'{m["file"].split("/")[-1]}:{m["line"]}', m["op"], res["wall_s"], flush=True)
        finally:
            undo()
            fcntl.flock(lock, fcntl.LOCK_UN)


def suite(name):
    """run /repo's own tests on the survivors: a survivor the suite kills is not interesting"""
    ms = {m["id"]: m for m in load(name)}
    resf = f"{MUT}/{name}.results.jsonl"
    rs = [json.loads(l) for l in open(resf)]
    lock = open(f"{ROOT}/work/.repo.lock", "w")
    out = []
    for r in rs:
        if r["status"] == "survived" and "suite" not in r:
            fcntl.flock(lock, fcntl.LOCK_EX)
            try:
                apply(ms[r["id"]])
                c = subprocess.run("cargo test --workspace --no-fail-fast --offline -q", shell=True, cwd="/repo", capture_output=True, text=True, env=dict(os.environ, CARGO_TARGET_DIR=f"{ROOT}/target/repo_suite", CARGO_NET_OFFLINE="true"))
                r["suite"] = "pass" if c.returncode == 0 else "fail"
                print(r["id"], r["suite"], f'{r["file"].split("/")[-1]}:{r["line"]}', r["after"][:120], flush=True)
            finally:
                undo()
                fcntl.flock(lock, fcntl.LOCK_UN)
        out.append(r)
    with open(resf, "w") as fh:
        for r in out:
            fh.write(json.dumps(r) + "\n")


def report(name):
    rs = [json.loads(l) for l in open(f"{MUT}/{name}.results.jsonl")]
    from collections import Counter
    print(Counter(r["status"] for r in rs))
    print("killed by:", Counter(r.get("by") for r in rs if r["status"] == "killed"))
    for r in rs:
        if r["status"] in ("survived", "machinery") and r.get("suite") != "fail":
            print(r["id"], r["status"], r.get("suite", "?"), f'{r["file"].replace("/repo/", "")}:{r["line"]}', "|", r["after"][:150])


if __name__ == "__main__":
    cmd = sys.argv[1]
    if cmd == "gen":
        gen(sys.argv[2], sys.argv[3:])
    elif cmd == "run":
        a = sys.argv[3:]
        crate = a[a.index("--crate") + 1]
        checks = a[a.index("--checks") + 1].split(",")
        lo = int(a[a.index("--from") + 1]) if "--from" in a else 0
        hi = int(a[a.index("--to") + 1]) if "--to" in a else 10 ** 9
        run(sys.argv[2], crate, checks, lo, hi)
    elif cmd == "suite":
        suite(sys.argv[2])
    elif cmd == "report":
        report(sys.argv[2])
