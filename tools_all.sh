#!/bin/bash
# tools_all.sh [quick|thorough|both] : run every check on the current tree, one summary line each
cd "$(dirname "$0")"
tiers="${1:-both}"; [ "$tiers" = both ] && tiers="quick thorough"
for tier in $tiers; do
  for id in C01 C02 C03 C04 C05 C06 C07 C08 C09 C10 C11 C12 C13 C14 C15 C16 C17 C18 C19 C20; do
    s=$(date +%s); ./check $id --tier $tier >/tmp/all_${tier}_$id.log 2>&1; c=$?; e=$(date +%s)
    echo "$tier $id exit=$c $((e-s))s viol=$(grep -c '^VIOLATION' /tmp/all_${tier}_$id.log) known=$(grep -c '^KNOWN-FINDING' /tmp/all_${tier}_$id.log)"
  done
done
