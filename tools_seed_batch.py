#!/usr/bin/env python3
"""tools_seed_batch.py <worktree-prefix> <Cnn> [...] : for each worktree <prefix><Cnn> left by a sub-agent
(SEED/patch.diff, SEED/demo): confirm (suite with the change, demo with / without), print a summary.
Does not save or detect: that stays a deliberate step (tools_seed_save.py / tools_seed_detect.py)."""
import os, subprocess, sys
from concurrent.futures import ThreadPoolExecutor

prefix, ids = sys.argv[1], sys.argv[2:]


def demo_cmd(wt):
    for d in ("demo", "demo_parser"):
        dd = f"{wt}/SEED/{d}"
        if not os.path.isdir(dd):
            continue
        is_test = os.path.isdir(f"{dd}/tests")
        for f in ("src/lib.rs", "src/main.rs"):
            p = f"{dd}/{f}"
            if os.path.exists(p) and ("#[test]" in open(p).read()):
                is_test = True
        if is_test:
            return f"cd {dd} && cargo test --offline"
        if os.path.exists(f"{dd}/src/main.rs"):
            return f"cd {dd} && cargo run --offline"
    return None


def confirm(i):
    wt = f"{prefix}{i}"
    cmd = demo_cmd(wt)
    if not cmd:
        return i, None, "no demo found"
    r = subprocess.run(["/verif/tools_seed.sh", "confirm", wt, cmd], capture_output=True, text=True)
    out = r.stdout + r.stderr
    open(f"/tmp/confirm_{os.path.basename(wt)}.log", "w").write(out)
    lines = [l for l in out.splitlines() if l.startswith("==") or l.startswith("exit=") or "FAILED" in l or "failed;" in l and " 0 failed" not in l or "cannot" in l]
    return i, cmd, "\n   ".join(lines)


with ThreadPoolExecutor(max_workers=3) as ex:
    for i, cmd, summary in ex.map(confirm, ids):
        print(f"##### {i}: {cmd}\n   {summary}")
