#!/bin/sh
# Build (warm) every harness binary from files on disk only. Offline.
set -e
cd "$(dirname "$0")"
export CARGO_NET_OFFLINE=true
export CARGO_TARGET_DIR="$(pwd)/target"
./check --setup
