#!/usr/bin/env python3
"""tools_seed_save.py <seed-id> <worktree> <property> <needs> <demo-cmd> : copy a confirmed seeded change into /verif/seeded/<seed-id>/"""
import json, os, shutil, subprocess, sys
sid, wt, prop, needs, demo_cmd = sys.argv[1:6]
dst = f"/verif/seeded/{sid}"
shutil.rmtree(dst, ignore_errors=True)
os.makedirs(dst)
shutil.copy(f"{wt}/SEED/patch.diff", f"{dst}/patch.diff")
for f in ("NOTES.md", "RUN.txt"):
    if os.path.exists(f"{wt}/SEED/{f}"):
        shutil.copy(f"{wt}/SEED/{f}", f"{dst}/{f}")
if os.path.isdir(f"{wt}/SEED/demo"):
    shutil.copytree(f"{wt}/SEED/demo", f"{dst}/demo", ignore=shutil.ignore_patterns("target", "target_*"))
base = subprocess.run(["git", "-C", wt, "rev-parse", "--short", "HEAD"], capture_output=True, text=True).stdout.strip()
meta = {
    "seed_id": sid, "property": prop, "base_commit": base,
    "needs_to_manifest": needs,
    "confirmed": {
        "suite_with_change": "cargo test --workspace --no-fail-fast --offline in the scratch worktree: all 85 tests pass",
        "demo_with_change": open(f"{wt}/SEED/demo_with.log").read()[-600:],
        "demo_without_change": [l for l in open(f"{wt}/SEED/demo_without.log").read().splitlines() if "test result" in l or "holds" in l][:3],
        "demo_cmd": demo_cmd,
    },
    "detection": {},
}
json.dump(meta, open(f"{dst}/meta.json", "w"), indent=1)
print("saved", dst)
