#!/usr/bin/env python3
"""tools_seed_detect.py [seed-id ...] : apply each seeded change to /repo, run the property's checks
(quick tier; thorough too when quick misses), record what happened in seeded/<id>/meta.json, undo."""
import json, os, subprocess, sys, time
ROOT = "/verif"
def sh(cmd, **kw):
    try:
        return subprocess.run(cmd, shell=True, capture_output=True, text=True, **kw)
    except subprocess.TimeoutExpired as e:
        # (a check that hangs under a seeded change: the process group is left to the caller to clean)
        return subprocess.CompletedProcess(cmd, 124, stdout=(e.stdout or b"").decode() if isinstance(e.stdout, bytes) else (e.stdout or ""), stderr="TIMEOUT")
TIERS = tuple(os.environ.get("VERIF_DETECT_TIERS", "quick,thorough").split(","))
ids = sys.argv[1:] or sorted(os.listdir(f"{ROOT}/seeded"))
import fcntl
os.makedirs(f"{ROOT}/work", exist_ok=True)
_lock = open(f"{ROOT}/work/.repo.lock", "w")
os.environ["VERIF_LOCK_HELD"] = "1"
for sid in ids:
  fcntl.flock(_lock, fcntl.LOCK_EX)
  try:
      d = f"{ROOT}/seeded/{sid}"
      meta = json.load(open(f"{d}/meta.json"))
      if sh("git -C /repo status --porcelain --untracked-files=no").stdout.strip():
          print("/repo dirty, abort"); sys.exit(2)
      r = sh(f"git -C /repo apply {d}/patch.diff")
      if r.returncode != 0:
          r = sh(f"git -C /repo apply --3way {d}/patch.diff")
      if r.returncode != 0:
          print(sid, "PATCH DOES NOT APPLY", r.stderr[:300]); sh("git -C /repo reset -q --hard HEAD"); continue
      checks = meta.get("checks", [meta["property"]])
      det = {}
      for c in checks:
          for tier in TIERS:
              t0 = time.time()
              o = sh(f"cd {ROOT} && exec ./check {c} --tier {tier}", timeout=1500)
              out = o.stdout + o.stderr
              nviol = out.count("\nVIOLATION ") + (1 if out.startswith("VIOLATION ") else 0)
              first = next((l.strip() for l in out.splitlines() if l.strip().startswith("key:")), "")
              det[f"{c}/{tier}"] = {"exit": o.returncode, "violation_lines": nviol, "first": first[:400], "wall_s": round(time.time() - t0, 1)}
              print(sid, c, tier, "exit", o.returncode, "violations", nviol, first[:160])
              if o.returncode == 1:
                  break
      meta["detection"] = det
      meta["detected_by"] = [k for k, v in det.items() if v["exit"] == 1]
      json.dump(meta, open(f"{d}/meta.json", "w"), indent=1)
      sh("git -C /repo reset -q --hard HEAD")
  finally:
    sh("git -C /repo reset -q --hard HEAD")
    fcntl.flock(_lock, fcntl.LOCK_UN)
print(sh("git -C /repo status --short").stdout)
