//! C09 (L1 part): loading never panics / hangs / slices inside a character, whatever the files hold.
//! Oracle: outcome is Ok or Err with a non-empty message. Panics are caught (message + location
//! recorded), hangs by a watchdog, stack overflows by running the depth cases in a subprocess.

use crate::obs::*;
use leptos_i18n_parser::parse_locales::{parsed_value::ParsedValue, ForeignKeysPaths};
use leptos_i18n_parser::utils::{Key, KeyPath};
use serde_json::json;
use std::collections::BTreeMap;
use std::sync::atomic::{AtomicU64, Ordering};
use std::sync::Mutex;
use std::time::{Duration, Instant};
use vmodel::ast::*;
use vmodel::adversarial::*;
use vmodel::par::{n_threads, par_for_chunked};
use vmodel::{Reporter, Tier};

struct Watch {
    started: Vec<AtomicU64>, // millis since t0 when the worker began its current case (0 = idle)
    t0: Instant,
}

impl Watch {
    fn new() -> Watch {
        Watch { started: (0..n_threads() + 1).map(|_| AtomicU64::new(0)).collect(), t0: Instant::now() }
    }
    fn begin(&self, w: usize) {
        self.started[w].store(self.t0.elapsed().as_millis() as u64 + 1, Ordering::Relaxed);
    }
    fn end(&self, w: usize) {
        self.started[w].store(0, Ordering::Relaxed);
    }
    fn longest_running_ms(&self) -> u64 {
        let now = self.t0.elapsed().as_millis() as u64 + 1;
        self.started.iter().map(|s| s.load(Ordering::Relaxed)).filter(|s| *s != 0).map(|s| now.saturating_sub(s)).max().unwrap_or(0)
    }
}

fn direct_new(s: &str) -> Result<bool, String> {
    // returns Ok(accepted?) or Err(panic message)
    let s2 = s.to_string();
    std::panic::catch_unwind(move || {
        let kp = KeyPath::new(None);
        let loc = Key::new("en").unwrap();
        let fkp = ForeignKeysPaths::new();
        match ParsedValue::new(&s2, &kp, &loc, &fkp) {
            Ok(mut v) => {
                if fkp.into_inner().is_empty() {
                    v.reduce();
                }
                true
            }
            Err(e) => {
                let m = e.to_string();
                assert!(!m.trim().is_empty(), "empty error message");
                false
            }
        }
    })
    .map_err(vmodel::par::take_panic_message)
}

fn file_project(value_json: &str) -> Project {
    let mut p = Project::new(Config::simple("en", &["en"]));
    p.set_file(
        None,
        "en",
        vec![
            ("k".into(), Val::RawJson(value_json.to_string())),
            ("a".into(), st("[a]{{x}}")),
            ("b".into(), s(vec![fk("a")])),
            ("count".into(), st("[count]")),
            ("p_one".into(), st("one")),
            ("p_other".into(), s(vec![text("other"), var("count")])),
            ("e".into(), st("")),
            ("c".into(), s(vec![comp("b", vec![var("x")])])),
        ],
    );
    p
}

fn judge(rep: &Reporter, part: &str, input: &str, o: &Outcome, classes: &Mutex<BTreeMap<String, u64>>) {
    let class = match o {
        Outcome::Ok(_) => "ok".to_string(),
        Outcome::Err { kind, msg } => {
            if msg.trim().is_empty() {
                rep.violation(format!("C09/{part}: error with empty message for {input}"), json!({"input": input}));
            }
            format!("err:{kind}")
        }
        Outcome::Panic(m) => {
            rep.violation(format!("C09/{part}: PANIC {} :: input {input}", m.replace('\n', " ")), json!({"input": input, "panic": m}));
            "panic".to_string()
        }
    };
    *classes.lock().unwrap().entry(format!("{part}/{class}")).or_insert(0) += 1;
}

pub fn deep_cases() -> Vec<(String, String)> {
    let mut v = vec![];
    for n in [1usize, 10, 100, 500, 1000, 2000] {
        let q = |s: String| json_string(&s, false);
        v.push((format!("nested-tags-{n}"), q(format!("{}x{}", "<b>".repeat(n), "</b>".repeat(n)))));
        v.push((format!("unclosed-tags-{n}"), q("<b>".repeat(n))));
        v.push((format!("sequential-vars-{n}"), q("{{x}} ".repeat(n))));
        v.push((format!("sequential-tags-{n}"), q("<b>x</b>".repeat(n))));
        v.push((format!("open-braces-{n}"), q("{{".repeat(n))));
        v.push((format!("fk-sequence-{n}"), q("$t(a) ".repeat(n))));
        v.push((format!("fk-open-{n}"), q("$t(".repeat(n))));
        v.push((format!("fk-arg-nesting-{n}"), q(format!("$t(a, {}\"x\"{})", "{\"x\":".repeat(n.min(100)), "}".repeat(n.min(100))))));
        v.push((format!("nested-subkeys-{n}"), format!("{}1{}", "{\"a\":".repeat(n), "}".repeat(n))));
        v.push((format!("nested-arrays-{n}"), format!("{}{}", "[".repeat(n), "]".repeat(n))));
        v.push((format!("long-range-{n}"), format!("[{}[\"fb\"]]", (0..n).map(|i| format!("[\"v{i}\", {i}],")).collect::<String>())));
        v.push((format!("many-alternatives-{n}"), format!("[[\"v\", \"{}\"], [\"fb\"]]", (0..n).map(|i| i.to_string()).collect::<Vec<_>>().join("|"))));
    }
    v
}

/// subprocess entry: run one deep case on a thread with an 8 MiB stack (what a default thread has)
pub fn deep_child(name: &str) -> i32 {
    let Some((_, value)) = deep_cases().into_iter().find(|(n, _)| n == name) else { return 2 };
    let scratch = Scratch::new("c09deep");
    let dir = scratch.worker(0);
    let is_chain = false;
    let _ = is_chain;
    let h = std::thread::Builder::new().stack_size(8 << 20).spawn(move || run_project(&file_project(&value), &dir, default_opts())).unwrap();
    match h.join() {
        Ok(o) => {
            println!("{}", o.short());
            matches!(o, Outcome::Panic(_)) as i32
        }
        Err(_) => 1,
    }
}

pub fn chain_child(n: usize) -> i32 {
    // a0 -> a1 -> ... -> a(n-1) -> leaf ; resolution recursion depth n
    let scratch = Scratch::new("c09chain");
    let dir = scratch.worker(0);
    let mut e: Vec<(String, Val)> = (0..n).map(|i| (format!("a{i}"), s(vec![text("."), fk(&format!("a{}", i + 1))]))).collect();
    e.push((format!("a{n}"), st("leaf")));
    let mut p = Project::new(Config::simple("en", &["en"]));
    p.set_file(None, "en", e);
    let h = std::thread::Builder::new().stack_size(8 << 20).spawn(move || run_project(&p, &dir, default_opts())).unwrap();
    match h.join() {
        Ok(o) => {
            println!("{}", o.short());
            matches!(o, Outcome::Panic(_)) as i32
        }
        Err(_) => 1,
    }
}

pub fn run(tier: Tier) -> i32 {
    let rep = Reporter::new("C09", &engine_name("L1"), tier);
    let scratch = Scratch::new("c09");
    let classes = Mutex::new(BTreeMap::<String, u64>::new());
    let watch = Watch::new();
    let done = std::sync::atomic::AtomicBool::new(false);
    let hang = Mutex::new(None::<String>);
    let current: Vec<Mutex<String>> = (0..n_threads() + 1).map(|_| Mutex::new(String::new())).collect();

    std::thread::scope(|sc| {
        // watchdog: a single case may not run longer than 20 s
        sc.spawn(|| {
            while !done.load(Ordering::Relaxed) {
                std::thread::sleep(Duration::from_millis(250));
                if watch.longest_running_ms() > 20_000 {
                    let stuck: Vec<String> = current.iter().map(|c| c.lock().unwrap().clone()).filter(|s| !s.is_empty()).collect();
                    *hang.lock().unwrap() = Some(stuck.join(" || "));
                    println!("VIOLATION property=C09 replay=/verif/replays/C09/hang.txt");
                    let _ = std::fs::create_dir_all("/verif/replays/C09");
                    let _ = std::fs::write("/verif/replays/C09/hang.txt", stuck.join("\n"));
                    eprintln!("C09: a case did not terminate within 20 s: {stuck:?}");
                    std::process::exit(1);
                }
            }
        });

        // ---- (1) token strings straight into ParsedValue::new (+ reduce) ----------------------
        let max_len = tier.pick(5, 6);
        for len in 0..=max_len {
            let n = TOKENS.len().pow(len as u32);
            let local_classes = Mutex::new([0u64; 3]);
            par_for_chunked(n, 4096, |w, i| {
                let s = token_string(&nth(i, len));
                if i % 4096 == 0 {
                    *current[w].lock().unwrap() = format!("ParsedValue::new({s:?})");
                    watch.begin(w);
                }
                match direct_new(&s) {
                    Ok(acc) => local_classes.lock().unwrap()[acc as usize] += 1,
                    Err(m) => {
                        local_classes.lock().unwrap()[2] += 1;
                        rep.violation(format!("C09/direct: PANIC {} :: ParsedValue::new({s:?})", m.replace('\n', " ")), json!({"input": s, "panic": m}));
                    }
                }
                if i % 4096 == 4095 || i + 1 == n {
                    watch.end(w);
                }
            });
            let lc = local_classes.lock().unwrap();
            rep.eval(n as u64);
            let mut c = classes.lock().unwrap();
            *c.entry("direct/rejected".into()).or_insert(0) += lc[0];
            *c.entry("direct/accepted".into()).or_insert(0) += lc[1];
            *c.entry("direct/panic".into()).or_insert(0) += lc[2];
        }
        rep.count("direct_max_len", max_len as u64);

        // ---- (2) token strings through real files and the whole loader ------------------------------
        let inputs = file_values(tier);
        let n_inputs = inputs.len();
        rep.count("file_pipeline_inputs", n_inputs as u64);
        par_for_chunked(n_inputs, 16, |w, i| {
            let (part, value) = &inputs[i];
            *current[w].lock().unwrap() = format!("k = {value}");
            watch.begin(w);
            let mut p = file_project(value);
            if part == "fk-count" {
                p.files.get_mut(&(None, "en".to_string())).unwrap().push(("r".into(), Val::RawJson("[\"i8\", [\"zero\", 0], [\"pos\", \"1..\"]]".into())));
            }
            let o = run_project(&p, &scratch.worker(w), default_opts());
            watch.end(w);
            judge(&rep, part, value, &o, &classes);
            rep.eval(1);
        });

        // ---- (2b) the same values in every POSITION a string can stand in ---------------------------------------------
        // (plural forms incl. `_other`, ordinal forms, range branch / fallback, nested subkey, another locale, an
        // argument of a foreign key): each position is resolved by its own code
        {
            const POSITIONS: [&str; 9] = ["plural-one", "plural-other", "ordinal-other", "plural-few-of-three", "range-branch", "range-fallback", "subkey", "other-locale", "fk-argument"];
            let raws: Vec<String> = inputs
                .iter()
                .filter(|(part, v)| (part == "fk-forms" || (part == "tokens" && v.chars().count() <= tier.pick(10, 14))) && v.starts_with('"'))
                .filter_map(|(_, v)| serde_json::from_str::<String>(v).ok())
                .collect();
            rep.count("positioned_values", raws.len() as u64);
            // .. in a project without namespaces, and in one with two namespaces (values as written, and with the
            // references addressed as `one:<key>`)
            let mut cases: Vec<(String, bool)> = raws.iter().map(|r| (r.clone(), false)).collect();
            for r in &raws {
                cases.push((r.clone(), true));
                if r.contains("$t(") {
                    cases.push((r.replace("$t(", "$t(one:"), true));
                }
            }
            par_for_chunked(cases.len() * POSITIONS.len(), 16, |w, i| {
                let (raw, namespaced) = &cases[i / POSITIONS.len()];
                let pos = POSITIONS[i % POSITIONS.len()];
                let q = json_string(raw, false);
                let mut p = file_project("\"plain\"");
                let mut extra: Vec<(String, Val)> = vec![];
                let rj = |t: String| Val::RawJson(t);
                match pos {
                    "plural-one" => extra.extend([("q_one".to_string(), rj(q.clone())), ("q_other".to_string(), st("o{{count}}"))]),
                    "plural-other" => extra.extend([("q_one".to_string(), st("one")), ("q_other".to_string(), rj(q.clone()))]),
                    "ordinal-other" => extra.extend([("q_ordinal_one".to_string(), st("{{count}}st")), ("q_ordinal_other".to_string(), rj(q.clone()))]),
                    "plural-few-of-three" => extra.extend([("q_one".to_string(), st("one")), ("q_few".to_string(), rj(q.clone())), ("q_other".to_string(), st("o"))]),
                    "range-branch" => extra.push(("q".to_string(), rj(format!("[\"u8\", [{q}, 0], [\"fb\"]]")))),
                    "range-fallback" => extra.push(("q".to_string(), rj(format!("[\"u8\", [\"z\", 0], [{q}]]")))),
                    "subkey" => extra.push(("q".to_string(), rj(format!("{{\"s\": {{\"t\": {q}}}}}")))),
                    "other-locale" => {
                        let mut cfg = Config::simple("en", &["en", "fr"]);
                        cfg.inherits = vec![];
                        let en = p.files.get(&(None, "en".to_string())).unwrap().clone();
                        let mut fr: Vec<(String, Val)> = en.iter().map(|(k, _)| (k.clone(), Val::Null)).collect();
                        fr[0].1 = rj(q.clone());
                        p = Project::new(cfg);
                        p.set_file(None, "en", en);
                        p.set_file(None, "fr", fr);
                    }
                    _ => {
                        let outer = format!("$t(a, {{\"x\": {q}}})");
                        extra.push(("q".to_string(), rj(json_string(&outer, false))));
                    }
                }
                p.files.get_mut(&(None, "en".to_string())).unwrap().extend(extra);
                if *namespaced {
                    let mut cfg = p.cfg.clone();
                    cfg.namespaces = Some(vec!["one".to_string(), "two".to_string()]);
                    let mut q2 = Project::new(cfg);
                    for ((_, loc), e) in &p.files {
                        // (the base project's own reference must name its namespace, or every load ends on it)
                        let e: Vec<(String, Val)> = e.iter().map(|(k, v)| if k == "b" { (k.clone(), s(vec![fk("one:a")])) } else { (k.clone(), v.clone()) }).collect();
                        q2.set_file(Some("one"), loc, e.clone());
                        q2.set_file(Some("two"), loc, vec![("z".to_string(), st("[z]")), ("zp_one".to_string(), st("one")), ("zp_other".to_string(), s(vec![fk("one:a")]))]);
                    }
                    p = q2;
                }
                *current[w].lock().unwrap() = format!("{pos}{}: {q}", if *namespaced { " (namespaced)" } else { "" });
                watch.begin(w);
                let o = run_project(&p, &scratch.worker(w), default_opts());
                watch.end(w);
                judge(&rep, &format!("position/{pos}"), &q, &o, &classes);
                rep.eval(1);
            });
        }

        // ---- (5b) inheritance loops x a reference to a null / absent target ------------------------------------
        {
            let locs = ["en", "fr", "de", "it"];
            let maps = vmodel::gen::inherits_maps(&locs);
            let pats = vmodel::enumerate::tuples(3, 3);
            par_for_chunked(maps.len() * pats.len(), 8, |w, i| {
                let m = &maps[i / pats.len()];
                let pat = &pats[i % pats.len()];
                let mut cfg = Config::simple("en", &locs);
                cfg.inherits = m.clone();
                let mut p = Project::new(cfg);
                for (li, loc) in locs.iter().enumerate() {
                    let mut e = vec![("a".to_string(), s(vec![fk("b")])), ("c".to_string(), s(vec![fk_args("b", vec![("x", FkArg::Str(vec![fk("a")]))])]))];
                    match if li == 0 { 0 } else { pat[li - 1] } {
                        0 => e.push(("b".to_string(), s(vec![text("[b]"), var("x")]))),
                        1 => e.push(("b".to_string(), Val::Null)),
                        _ => {}
                    }
                    p.set_file(None, loc, e);
                }
                *current[w].lock().unwrap() = p.describe();
                watch.begin(w);
                let o = run_project(&p, &scratch.worker(w), default_opts());
                watch.end(w);
                judge(&rep, "inherits-loop-fk", &format!("inherits {m:?} presence {pat:?}"), &o, &classes);
                rep.eval(1);
            });
        }

        // ---- (6) whole-file contents ----------------------------------------------------------------------------------
        let files: Vec<(&str, Vec<u8>)> = vec![
            ("empty", vec![]),
            ("whitespace", b"  \n\t ".to_vec()),
            ("bom+object", [b"\xef\xbb\xbf".to_vec(), b"{\"k\": \"v\"}".to_vec()].concat()),
            ("null", b"null".to_vec()),
            ("array", b"[]".to_vec()),
            ("string", b"\"x\"".to_vec()),
            ("number", b"42".to_vec()),
            ("truncated", b"{\"k\": \"v".to_vec()),
            ("trailing-comma", b"{\"k\": \"v\",}".to_vec()),
            ("duplicate-keys", b"{\"k\": \"v\", \"k\": \"w\", \"k\": {\"a\": \"b\"}}".to_vec()),
            // a key written twice: what the first occurrence registered (references, plural forms) is gone with it
            ("duplicate-key-subkeys-with-fk-then-string", b"{\"a\": {\"sub\": \"$t(b)\"}, \"a\": \"text\", \"b\": \"x\"}".to_vec()),
            ("duplicate-key-string-then-subkeys-with-fk", b"{\"a\": \"text\", \"a\": {\"sub\": \"$t(b)\"}, \"b\": \"x\"}".to_vec()),
            ("duplicate-key-fk-then-string", b"{\"a\": \"$t(b)\", \"a\": \"text\", \"b\": \"x\"}".to_vec()),
            ("duplicate-key-fk-in-range-then-null", b"{\"a\": [[\"$t(b)\", 0], [\"y\"]], \"a\": null, \"b\": \"x\"}".to_vec()),
            ("duplicate-plural-form-with-fk", b"{\"p_one\": \"$t(b)\", \"p_one\": \"one\", \"p_other\": \"o\", \"b\": \"x\"}".to_vec()),
            ("duplicate-nested-group-with-fk", b"{\"g\": {\"h\": {\"k\": \"$t(b)\"}}, \"g\": {\"h\": 1}, \"b\": \"x\"}".to_vec()),
            ("invalid-utf8", b"{\"k\": \"\xff\xfe\"}".to_vec()),
            ("invalid-utf8-key", b"{\"\xc3\x28\": \"v\"}".to_vec()),
            ("lone-surrogate-escape", b"{\"k\": \"\\ud800\"}".to_vec()),
            ("nul-byte", b"{\"k\": \"a\x00b\"}".to_vec()),
            ("key-not-ident", b"{\"1 bad key!\": \"v\", \"\": \"w\", \"fn\": \"x\", \"a-b\": \"y\", \"a.b\": \"z\"}".to_vec()),
            ("key-unicode", "{\"clé\": \"v\", \"🎉\": \"w\", \"　\": \"x\"}".as_bytes().to_vec()),
            ("only-plural-other", b"{\"_other\": \"v\", \"x_ordinal_other\": \"w\", \"_ordinal_one\": \"z\"}".to_vec()),
            ("huge-number", format!("{{\"k\": {}}}", "9".repeat(400)).into_bytes()),
            ("yaml-ish", b"k: v\nother: [1, 2]\n".to_vec()),
            ("binary", (0u8..=255).collect()),
        ];
        let more: Vec<(&str, Vec<u8>)> = whole_files().into_iter().map(|(n, t)| (n, t.into_bytes())).collect();
        for (name, bytes) in files.iter().chain(more.iter()) {
            let dir = scratch.worker(0);
            let p = Project::new(Config::simple("en", &["en"]));
            let _ = p.materialise(&dir, default_opts());
            std::fs::create_dir_all(dir.join("locales")).unwrap();
            std::fs::write(dir.join("locales").join(format!("en.{}", build_format().ext())), bytes).unwrap();
            *current[0].lock().unwrap() = format!("file {name}");
            watch.begin(0);
            let o = parse_dir(&dir);
            watch.end(0);
            judge(&rep, "whole-file", name, &o, &classes);
            rep.eval(1);
        }
        // missing pieces
        for what in ["no-manifest", "no-locales-dir", "no-file", "dir-instead-of-file", "manifest-without-table", "manifest-invalid-toml", "manifest-binary", "header-quoted-after-multibyte-text", "header-quoted-after-multibyte-text-no-table", "header-quoted-in-multiline-string", "header-after-bom"] {
            let dir = scratch.worker(0);
            let p = file_project("\"v\"");
            let _ = p.materialise(&dir, default_opts());
            let f = dir.join("locales").join(format!("en.{}", build_format().ext()));
            match what {
                "no-manifest" => std::fs::remove_file(dir.join("Cargo.toml")).unwrap(),
                "no-locales-dir" => std::fs::remove_dir_all(dir.join("locales")).unwrap(),
                "no-file" => std::fs::remove_file(&f).unwrap(),
                "dir-instead-of-file" => {
                    std::fs::remove_file(&f).unwrap();
                    std::fs::create_dir_all(&f).unwrap();
                }
                "manifest-without-table" => std::fs::write(dir.join("Cargo.toml"), "[package]\nname=\"x\"\n").unwrap(),
                "header-quoted-after-multibyte-text" => {
                    let m = std::fs::read_to_string(dir.join("Cargo.toml")).unwrap();
                    let (a, b) = m.split_once("[package.metadata.leptos-i18n]").unwrap();
                    std::fs::write(dir.join("Cargo.toml"), format!("{a}# \u{8a2d}\u{5b9a}\u{306f} [package.metadata.leptos-i18n] \u{306b}\u{66f8}\u{304f}\n# \u{43a}\u{43e}\u{43d}\u{444}\u{438}\u{433} \u{1f600}\u{e9}\u{e9}\u{e9} [package.metadata.leptos-i18n]\n[package.metadata.leptos-i18n]{b}")).unwrap()
                }
                "header-quoted-after-multibyte-text-no-table" => std::fs::write(dir.join("Cargo.toml"), "[package]\nname=\"x\"\n# \u{8a2d}\u{5b9a}\u{306f} [package.metadata.leptos-i18n] \u{306b}\u{66f8}\u{304f}\n# \u{e9}\u{e9}\u{e9} [package.metadata.leptos-i18n]\n").unwrap(),
                "header-quoted-in-multiline-string" => {
                    let m = std::fs::read_to_string(dir.join("Cargo.toml")).unwrap();
                    std::fs::write(dir.join("Cargo.toml"), m.replace("[package.metadata.leptos-i18n]", "description = \"\"\"\n\u{1f600}\u{1f600} [package.metadata.leptos-i18n] \u{1f600}\n\"\"\"\n\n[package.metadata.leptos-i18n]")).unwrap()
                }
                "header-after-bom" => {
                    let m = std::fs::read_to_string(dir.join("Cargo.toml")).unwrap();
                    std::fs::write(dir.join("Cargo.toml"), format!("\u{feff}{m}")).unwrap()
                }
                "manifest-invalid-toml" => std::fs::write(dir.join("Cargo.toml"), "[package.metadata.leptos-i18n]\ndefault = [[[\n").unwrap(),
                _ => std::fs::write(dir.join("Cargo.toml"), (0u8..=255).collect::<Vec<u8>>()).unwrap(),
            }
            let o = parse_dir(&dir);
            judge(&rep, "missing-pieces", what, &o, &classes);
            rep.eval(1);
        }

        // ---- (7) depth / length: each case in a subprocess with a default-size stack ------------------------------------------
        let exe = std::env::current_exe().expect("exe");
        let mut deep: Vec<(String, Vec<String>)> = deep_cases().into_iter().map(|(n, _)| (n.clone(), vec!["c09deep".to_string(), n])).collect();
        for n in [10usize, 100, 500, 1000, 2000] {
            deep.push((format!("fk-chain-{n}"), vec!["c09chain".to_string(), n.to_string()]));
        }
        let results = Mutex::new(vec![]);
        par_for_chunked(deep.len(), 1, |_, i| {
            let (name, args) = &deep[i];
            let t = Instant::now();
            let mut child = std::process::Command::new(&exe).args(args).stdout(std::process::Stdio::piped()).stderr(std::process::Stdio::null()).spawn().expect("spawn");
            let status = loop {
                match child.try_wait().expect("wait") {
                    Some(s) => break Some(s),
                    None if t.elapsed() > Duration::from_secs(60) => {
                        let _ = child.kill();
                        break None;
                    }
                    None => std::thread::sleep(Duration::from_millis(20)),
                }
            };
            let mut out = String::new();
            if let Some(mut so) = child.stdout.take() {
                use std::io::Read;
                let _ = so.read_to_string(&mut out);
            }
            results.lock().unwrap().push((name.clone(), status, out.trim().to_string(), t.elapsed().as_secs_f64()));
        });
        for (name, status, out, secs) in results.lock().unwrap().iter() {
            rep.eval(1);
            match status {
                None => rep.violation(format!("C09/deep: {name} did not terminate within 60 s"), json!({})),
                Some(s) if s.code() == Some(0) => {
                    *classes.lock().unwrap().entry(format!("deep/{}", out.split('(').next().unwrap_or("?"))).or_insert(0) += 1;
                    if *secs > 20.0 {
                        rep.violation(format!("C09/deep: {name} needed {secs:.0} s"), json!({}));
                    }
                }
                Some(s) => rep.violation(format!("C09/deep: {name} crashed the process ({s}) {}", vmodel::report::truncate(out, 200)), json!({"case": name, "status": format!("{s}"), "output": out})),
            }
        }
        done.store(true, Ordering::Relaxed);
    });

    rep.nontriv(classes.lock().unwrap().len() as u64 * 10);
    rep.sample(json!({"direct": token_string(&nth(123456, 5))}));
    rep.sample(json!({"file_value": "[\"f32\", [\"x{{count}}\", \"NaN..=inf\"], [\"y\"]]"}));
    rep.sample(json!({"file_value": "\"pre $t(a, {\\\"x\\\": \\\"$t(k)\\\"}) post\""}));
    let mut cov = serde_json::Map::new();
    cov.insert("rule".into(), json!(format!("(1) every string of <= {} tokens over {:?} through ParsedValue::new (+reduce when no foreign key is left); (2) every such string of <= {} tokens as a value in a real file through parse_locales (project also holds a, b=$t(a), count, p_one/p_other so references can resolve); (2b) the foreign-key forms of (5) and the short token strings again in 9 positions (plural `_one` / `_other` / a middle form, ordinal `_other`, range branch and fallback, nested subkey, a non-default locale, an argument of a foreign key), each in a project without namespaces and in one with two namespaces (references as written and addressed as `one:<key>`); (2c) one string per character-class edge (C0 / DEL / C1 controls, separators, marks, BMP and astral edges) alone, doubled, inside text, before a quote, after a backslash; (3) every range count of <= {} tokens over 13 spec tokens for i8,u8,f32,u64 and every JSON number class as count and as literal foreign-key count; (4) all small JSON values of depth <= {} in value position; (5) 13 targets x 13 argument texts x 4 positions of $t; (6) 26 whole-file contents (incl. keys written twice whose first value held references) and 11 missing/garbled project pieces (incl. the table header quoted after multi-byte text in comments and strings); (7) nesting / length 1..2000 of 12 constructs and foreign-key chains, each in a subprocess on an 8 MiB stack; oracle: Ok or Err with non-empty message, no panic, no crash, every case within 20 s (deep: 60 s)", tier.pick(5, 6), TOKENS, tier.pick(3, 4), tier.pick(3, 4), tier.pick(2, 3))));
    cov.insert("exhaustive".into(), json!(true));
    cov.insert("outcome_classes".into(), json!(*classes.lock().unwrap()));
    cov.insert("front_end".into(), json!(build_format().name()));
    rep.finish(cov, &["depth/length bound 2000: unbounded nesting can always exhaust a finite stack", "code generation on accepted input and the build-script API are decided by the L2 / vbuild engines of this check"])
}
