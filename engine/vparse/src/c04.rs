//! C04 (L1 half): range declarations x counts.
//! Observations compared with the model's own spec parser + comparison semantics:
//!  (1) the parsed `Range<T>` structures, evaluated for every count of the count set,
//!  (2) the loader's parse-time selection `$t(r, {"count": n})` for every count of the count set,
//!  (3) `{{ count }}` inside the chosen branch.

use crate::cmp::*;
use crate::obs::*;
use serde_json::json;
use std::sync::Mutex;
use vmodel::ast::*;
use vmodel::model::*;
use vmodel::par::par_for;
use vmodel::{Reporter, Tier};

fn num_spec(ty: NumTy, v: i128) -> CountSpec {
    if ty.is_float() {
        CountSpec::Float(format!("{v}.0"))
    } else if v < 0 {
        CountSpec::Int(v as i64)
    } else if v > i64::MAX as i128 && build_format() == Format::Json5 {
        // the JSON5 front-end reads integers as i64: larger bounds are written in their string form
        CountSpec::Str(format!("{v}"))
    } else {
        CountSpec::UInt(v as u64)
    }
}

/// bound values used in specs for a type
pub fn bound_values(ty: NumTy, small: bool) -> Vec<i128> {
    let (lo, hi) = ty.min_max();
    let mut v: Vec<i128> = if small { vec![lo, -1, 0, 1, 2, hi] } else { vec![lo, lo + 1, -1, 0, 1, 2, hi - 1, hi] };
    v.retain(|x| *x >= lo && *x <= hi);
    v.sort();
    v.dedup();
    v
}

/// one-branch count lists over the bound values
pub fn spec_alphabet(ty: NumTy, b: &[i128], with_alternatives: bool) -> Vec<Vec<CountSpec>> {
    let mut out: Vec<Vec<CountSpec>> = vec![];
    let s = |t: String| CountSpec::Str(t);
    for &x in b {
        out.push(vec![num_spec(ty, x)]);
        out.push(vec![s(format!("{x}"))]);
        out.push(vec![s(format!("..{x}"))]);
        out.push(vec![s(format!("..={x}"))]);
        out.push(vec![s(format!("{x}.."))]);
        for &y in b {
            out.push(vec![s(format!("{x}..{y}"))]);
            out.push(vec![s(format!("{x}..={y}"))]);
        }
    }
    if with_alternatives {
        let k = b.len();
        for i in 0..k {
            let (x, y, z) = (b[i], b[(i + 1) % k], b[(i + 2) % k]);
            out.push(vec![s(format!("{x} | {y}"))]);
            out.push(vec![s(format!("{x}|{y}..={z}"))]);
            out.push(vec![num_spec(ty, x), num_spec(ty, z)]);
            out.push(vec![num_spec(ty, x), s(format!("{y}..{z}"))]);
            out.push(vec![s(format!(" {x} ..= {z} "))]);
            out.push(vec![s(format!("{x}.. ={z}"))]);
            // lists whose entries are themselves `a | b` alternatives, in first / middle / last position
            out.push(vec![s(format!("{x} | {y}")), num_spec(ty, z)]);
            out.push(vec![num_spec(ty, z), s(format!("{x} | {y}"))]);
            out.push(vec![s(format!("{x}|{y}")), s(format!("{z}..")), num_spec(ty, x)]);
            out.push(vec![num_spec(ty, x), s(format!("{y} | {z}")), s(format!("..{x}"))]);
        }
    }
    out
}

fn float_alphabet() -> Vec<Vec<CountSpec>> {
    let vals = ["-1.5", "0", "0.5", "1", "2.25"];
    let s = |t: String| CountSpec::Str(t);
    let mut out = vec![];
    for x in vals {
        out.push(vec![s(x.to_string())]);
        out.push(vec![s(format!("..{x}"))]);
        out.push(vec![s(format!("..={x}"))]);
        out.push(vec![s(format!("{x}.."))]);
        if x.contains('.') {
            out.push(vec![CountSpec::Float(x.to_string())]);
        } else {
            out.push(vec![CountSpec::UInt(x.parse().unwrap())]);
        }
        for y in vals {
            out.push(vec![s(format!("{x}..{y}"))]);
            out.push(vec![s(format!("{x}..={y}"))]);
        }
    }
    // values no f32 holds exactly, as exact values and as span ends (a count fixed in the file must meet them with the
    // precision of the range's own type)
    out.push(vec![CountSpec::Float("0.1".into())]);
    out.push(vec![s("..0.1".to_string())]);
    out.push(vec![s("0.1..=0.3".to_string())]);
    out.push(vec![s("0.3..".to_string())]);
    // whole numbers written as JSON integers - negative ones too - for a float range (and next to their positive twin)
    out.push(vec![CountSpec::Int(-2)]);
    out.push(vec![CountSpec::Int(-2), CountSpec::UInt(2)]);
    out.push(vec![CountSpec::UInt(2), CountSpec::Int(-1)]);
    out.push(vec![s("0.5 | 2.25..".into())]);
    out.push(vec![s("0.5 | 1".into()), CountSpec::Float("2.25".into())]);
    out.push(vec![CountSpec::Float("2.25".into()), s("-1.5 | 0.5".into())]);
    out.push(vec![CountSpec::Float("0.5".into()), s("1..=2.25".into())]);
    out
}

fn branch(tag: &str, counts: Vec<CountSpec>, map_form: bool, value_first: bool) -> Branch {
    Branch { value: Box::new(s(vec![text(&format!("[{tag}]")), var("count")])), counts, map_form, value_first }
}

#[derive(Clone, Copy, PartialEq, Eq, Debug)]
pub enum Fb {
    Absent,
    Implicit,
    Underscore,
    DotDot,
}

pub fn decl(ty: Option<NumTy>, tag: &str, branches: &[Vec<CountSpec>], fb: Fb, syntax: usize) -> RangeDecl {
    let mut bs = vec![];
    for (i, c) in branches.iter().enumerate() {
        let map_form = (syntax >> i) & 1 == 1;
        bs.push(branch(&format!("{tag}.{i}"), c.clone(), map_form, (syntax >> (i + 3)) & 1 == 1));
    }
    let fbn = branches.len();
    match fb {
        Fb::Absent => {}
        Fb::Implicit => bs.push(branch(&format!("{tag}.fb"), vec![], (syntax >> fbn) & 1 == 1, false)),
        Fb::Underscore => bs.push(branch(&format!("{tag}.fb"), vec![CountSpec::Str("_".into())], (syntax >> fbn) & 1 == 1, true)),
        Fb::DotDot => bs.push(branch(&format!("{tag}.fb"), vec![CountSpec::Str("..".into())], false, false)),
    }
    RangeDecl { ty: ty.map(|t| t.name().to_string()), branches: bs }
}

/// does some branch contain n (model semantics)?
fn covered(ty: NumTy, d: &RangeDecl, n: Num) -> Option<bool> {
    for b in &d.branches {
        match branch_contains(ty, &b.counts, n) {
            Ok(true) => return Some(true),
            Ok(false) => {}
            Err(_) => return None,
        }
    }
    Some(false)
}

fn count_arg(ty: NumTy, n: Num) -> FkArg {
    match n {
        Num::I(i) if i < 0 => FkArg::Int(i as i64),
        Num::I(i) => FkArg::UInt(i as u64),
        Num::F(f) => {
            let mut l = if ty == NumTy::F32 { (f as f32).to_string() } else { f.to_string() };
            if !l.contains('.') && !l.contains('e') {
                l.push_str(".0");
            }
            FkArg::Float(l)
        }
    }
}

pub struct Job {
    pub project: Project,
    pub counts: Vec<Num>,
    pub n_decls: u64,
    pub n_cases: u64,
    pub part: &'static str,
}

/// Pack declarations of one type into a project: each declaration gets its key `r<i>` and one
/// `$t(r<i>, {"count": n})` key per covered count n of `fk_counts`.
fn pack(ty: Option<NumTy>, decls: Vec<RangeDecl>, render_counts: &[Num], fk_counts: &[Num], part: &'static str, out: &mut Vec<Job>, uncovered: &mut Vec<Project>) {
    let tyv = ty.unwrap_or(NumTy::I32);
    let mut entries: Vec<(String, Val)> = vec![];
    let mut n_cases = 0;
    let n_decls = decls.len() as u64;
    for (i, d) in decls.into_iter().enumerate() {
        let status = range_decl_status(&d);
        if status != DeclStatus::Accept {
            // rejected / unspecified declarations are judged alone
            let mut p = Project::new(Config::simple("en", &["en"]));
            p.set_file(None, "en", vec![("r".into(), Val::Range(d))]);
            uncovered.push(p);
            continue;
        }
        let name = format!("r{i}");
        let mut first_uncovered = None;
        for n in fk_counts {
            match covered(tyv, &d, *n) {
                Some(true) => {
                    let k = format!("{name}c{}", entries.len());
                    entries.push((k, s(vec![fk_args(&name, vec![("count", count_arg(tyv, *n))])])));
                    n_cases += 1;
                }
                Some(false) => {
                    if first_uncovered.is_none() {
                        first_uncovered = Some(*n);
                    }
                }
                None => {}
            }
        }
        if let Some(n) = first_uncovered {
            // a literal count that no branch contains must be an error, not a panic, not a wrong branch
            let mut p = Project::new(Config::simple("en", &["en"]));
            p.set_file(None, "en", vec![("r".into(), Val::Range(d.clone())), ("a".into(), s(vec![fk_args("r", vec![("count", count_arg(tyv, n))])]))]);
            uncovered.push(p);
        }
        n_cases += render_counts.len() as u64;
        entries.push((name, Val::Range(d)));
    }
    if entries.is_empty() {
        return;
    }
    let mut p = Project::new(Config::simple("en", &["en"]));
    p.set_file(None, "en", entries);
    out.push(Job { project: p, counts: render_counts.to_vec(), n_decls, n_cases, part });
}

pub fn run(tier: Tier) -> i32 {
    let rep = Reporter::new("C04", &engine_name("L1"), tier);
    let scratch = Scratch::new("c04");
    let keys_total = Mutex::new(0u64);
    let mut jobs: Vec<Job> = vec![];
    let mut singles: Vec<Project> = vec![];
    let fbs = [Fb::Absent, Fb::Implicit, Fb::Underscore, Fb::DotDot];

    // ---- i8 / u8: every count of the type -------------------------------------------------
    for ty in [NumTy::I8, NumTy::U8] {
        let (lo, hi) = ty.min_max();
        let all: Vec<Num> = (lo..=hi).map(Num::I).collect();
        let b = bound_values(ty, tier == Tier::Quick);
        let alpha = spec_alphabet(ty, &b, true);
        rep.count(&format!("spec_alphabet_{}", ty.name()), alpha.len() as u64);
        // 1 branch x fallback variants x both syntaxes
        let mut decls = vec![];
        for (i, a) in alpha.iter().enumerate() {
            for fb in fbs {
                for syntax in [0usize, 0b1111, 0b1001] {
                    decls.push(decl(Some(ty), &format!("{}a{i}", ty.name()), &[a.clone()], fb, syntax));
                }
            }
        }
        for c in decls.chunks(40) {
            pack(Some(ty), c.to_vec(), &all, &all, "one-branch", &mut jobs, &mut singles);
        }
        // 2 branches: every ordered pair, fallback variants rotate, syntax rotates
        let alpha2 = spec_alphabet(ty, &b, false);
        let mut decls = vec![];
        let mut k = 0usize;
        for (i, a) in alpha2.iter().enumerate() {
            for (j, c) in alpha2.iter().enumerate() {
                let fb = fbs[k % 4];
                decls.push(decl(Some(ty), &format!("{}b{i}_{j}", ty.name()), &[a.clone(), c.clone()], fb, k % 8));
                k += 1;
            }
        }
        // parse-time selection for 2-branch declarations: boundary neighbourhood only (the tree
        // evaluation still covers all 256 counts)
        let mut nb: Vec<Num> = vec![];
        for &x in &b {
            for d in [-1i128, 0, 1] {
                if x + d >= lo && x + d <= hi {
                    nb.push(Num::I(x + d));
                }
            }
        }
        nb.sort_by(|a, b| a.partial_cmp(b).unwrap());
        nb.dedup();
        for c in decls.chunks(60) {
            pack(Some(ty), c.to_vec(), &all, &nb, "two-branch", &mut jobs, &mut singles);
        }
        if tier == Tier::Thorough {
            // 3 branches over a reduced alphabet
            let small = spec_alphabet(ty, &[-1i128.max(lo), 0, 2], false);
            let mut decls = vec![];
            let mut k = 0;
            for a in &small {
                for c in &small {
                    for e in &small {
                        decls.push(decl(Some(ty), &format!("{}c{k}", ty.name()), &[a.clone(), c.clone(), e.clone()], fbs[k % 4], k % 16));
                        k += 1;
                    }
                }
            }
            for c in decls.chunks(60) {
                pack(Some(ty), c.to_vec(), &all, &nb, "three-branch", &mut jobs, &mut singles);
            }
        }
    }

    // ---- counts outside the count type, written as numbers and as strings: rejected, never wrapped into the type
    {
        let mut n_out = 0u64;
        for ty in [NumTy::I8, NumTy::U8, NumTy::I16, NumTy::U16, NumTy::I32, NumTy::U32, NumTy::I64] {
            let (lo, hi) = ty.min_max();
            let mut outs: Vec<CountSpec> = vec![];
            for v in [hi + 1, hi + 45, 2 * hi + 1, 2 * (hi + 1)] {
                if v <= u64::MAX as i128 && !(v > i64::MAX as i128 && build_format() == Format::Json5) {
                    outs.push(CountSpec::UInt(v as u64));
                }
                outs.push(CountSpec::Str(v.to_string()));
            }
            for v in [lo - 1, lo - 45] {
                if v >= i64::MIN as i128 {
                    outs.push(CountSpec::Int(v as i64));
                }
                outs.push(CountSpec::Str(v.to_string()));
            }
            let mut decls = vec![];
            for (i, o) in outs.iter().enumerate() {
                decls.push(decl(Some(ty), &format!("{}out{i}", ty.name()), &[vec![o.clone()]], Fb::Implicit, i % 4));
                decls.push(decl(Some(ty), &format!("{}out{i}b", ty.name()), &[vec![num_spec(ty, 0)], vec![o.clone(), num_spec(ty, 1)]], Fb::Underscore, i % 8));
                n_out += 2;
            }
            let counts: Vec<Num> = vec![Num::I(0), Num::I(1), Num::I((-1i128).max(lo))];
            pack(Some(ty), decls, &counts, &counts, "out-of-type", &mut jobs, &mut singles);
        }
        rep.count("out_of_type_declarations", n_out);
    }

    // ---- branches that carry the SAME value (text): which branch a count takes is decided by the declaration, not by
    // what the branches say - identical values are not a reason to look at a later branch first
    for ty in [NumTy::I8, NumTy::U8] {
        let (lo, hi) = ty.min_max();
        let all: Vec<Num> = (lo..=hi).map(Num::I).collect();
        let small = spec_alphabet(ty, &[(-1i128).max(lo), 0, 2], false);
        let mut decls = vec![];
        let mut k = 0usize;
        for (i, a) in small.iter().enumerate() {
            for (j, c) in small.iter().enumerate() {
                for (l, e) in small.iter().enumerate() {
                    k += 1;
                    if tier == Tier::Quick && (i + 2 * j + 3 * l) % 4 != 0 {
                        continue;
                    }
                    for (x, y) in [(0usize, 2usize), (0, 1), (1, 2)] {
                        if (k + x + y) % 3 != 0 {
                            continue;
                        }
                        let mut d = decl(Some(ty), &format!("{}s{k}", ty.name()), &[a.clone(), c.clone(), e.clone()], fbs[1 + k % 3], k % 16);
                        let v = d.branches[x].value.clone();
                        d.branches[y].value = v;
                        decls.push(d);
                    }
                }
            }
        }
        let nb: Vec<Num> = [lo, -1, 0, 1, 2, 3, hi].into_iter().filter(|x| *x >= lo && *x <= hi).map(Num::I).collect();
        for c in decls.chunks(60) {
            pack(Some(ty), c.to_vec(), &all, &nb, "same-value-branches", &mut jobs, &mut singles);
        }
    }

    // ---- wider integer types (+ implicit i32): boundary neighbourhoods and extremes ------------
    let wide: Vec<Option<NumTy>> = vec![None, Some(NumTy::I16), Some(NumTy::I32), Some(NumTy::I64), Some(NumTy::U16), Some(NumTy::U32), Some(NumTy::U64)];
    for ty in wide {
        let tyv = ty.unwrap_or(NumTy::I32);
        let (lo, hi) = tyv.min_max();
        let b = bound_values(tyv, tier == Tier::Quick);
        let mut cs: Vec<i128> = vec![];
        for &x in &b {
            for d in -2i128..=2 {
                let v = x + d;
                if v >= lo && v <= hi {
                    cs.push(v);
                }
            }
        }
        cs.sort();
        cs.dedup();
        let counts: Vec<Num> = cs.into_iter().map(Num::I).collect();
        let alpha = spec_alphabet(tyv, &b, true);
        let mut decls = vec![];
        for (i, a) in alpha.iter().enumerate() {
            for fb in fbs {
                decls.push(decl(ty, &format!("{}a{i}", tyv.name()), &[a.clone()], fb, i % 4));
            }
        }
        let alpha2 = spec_alphabet(tyv, &bound_values(tyv, true), false);
        let mut k = 0;
        for a in &alpha2 {
            for c in &alpha2 {
                if tier == Tier::Quick && k % 5 != 0 {
                    k += 1;
                    continue;
                }
                decls.push(decl(ty, &format!("{}b{k}", tyv.name()), &[a.clone(), c.clone()], fbs[k % 4], k % 8));
                k += 1;
            }
        }
        for c in decls.chunks(60) {
            pack(ty, c.to_vec(), &counts, &counts, "wide-int", &mut jobs, &mut singles);
        }
    }

    // ---- floats ----------------------------------------------------------------------------------
    for ty in [NumTy::F32, NumTy::F64] {
        let base = [-1.5f64, 0.0, 0.5, 1.0, 2.25];
        let mut counts: Vec<Num> = vec![];
        for x in base {
            if ty == NumTy::F32 {
                let f = x as f32;
                counts.extend([f.next_down() as f64, f as f64, f.next_up() as f64].map(Num::F));
            } else {
                counts.extend([x.next_down(), x, x.next_up()].map(Num::F));
            }
        }
        counts.push(Num::F(if ty == NumTy::F32 { f32::MAX as f64 } else { f64::MAX }));
        counts.push(Num::F(if ty == NumTy::F32 { f32::MIN as f64 } else { f64::MIN }));
        counts.push(Num::F(3.0));
        counts.extend([Num::F(-2.0), Num::F(2.0), Num::F(-1.0), Num::F(0.1), Num::F(0.3), Num::F(0.7)]);
        let alpha = float_alphabet();
        let mut decls = vec![];
        for (i, a) in alpha.iter().enumerate() {
            for fb in fbs {
                decls.push(decl(Some(ty), &format!("{}a{i}", ty.name()), &[a.clone()], fb, i % 4));
            }
        }
        let mut k = 0;
        for a in &alpha {
            for c in &alpha {
                if tier == Tier::Quick && k % 3 != 0 {
                    k += 1;
                    continue;
                }
                decls.push(decl(Some(ty), &format!("{}b{k}", ty.name()), &[a.clone(), c.clone()], fbs[1 + k % 3], k % 8));
                k += 1;
            }
        }
        // parse-time counts: only values whose shortest lexeme round-trips through JSON
        let fk: Vec<Num> = base.iter().map(|x| Num::F(*x)).chain([Num::F(3.0), Num::F(-7.75), Num::F(-2.0), Num::F(2.0), Num::F(0.1), Num::F(0.3), Num::F(0.7)]).collect();
        for c in decls.chunks(60) {
            pack(Some(ty), c.to_vec(), &counts, &fk, "float", &mut jobs, &mut singles);
        }
    }

    // ---- misplaced / repeated fallbacks: the fallback is the LAST branch, and there is one --------------
    {
        let mut n_misplaced = 0u64;
        for ty in [Some(NumTy::I8), Some(NumTy::U8), None, Some(NumTy::F32)] {
            let tyv = ty.unwrap_or(NumTy::I32);
            let exact = |x: i128| if tyv.is_float() { vec![CountSpec::Float(format!("{x}.0"))] } else { vec![num_spec(tyv, x)] };
            let span = vec![CountSpec::Str("1..=2".into())];
            let mut decls = vec![];
            for (fi, fbspec) in [vec![], vec![CountSpec::Str("_".into())]].into_iter().enumerate() {
                for (ai, a) in [exact(0), span.clone()].into_iter().enumerate() {
                    for (vi, (branches, fb)) in [
                        (vec![fbspec.clone(), a.clone()], Fb::Absent),
                        (vec![fbspec.clone(), a.clone()], Fb::Implicit),
                        (vec![a.clone(), fbspec.clone(), exact(5)], Fb::Absent),
                        (vec![a.clone(), fbspec.clone(), exact(5)], Fb::Underscore),
                        (vec![a.clone(), fbspec.clone()], Fb::Implicit),
                        (vec![a.clone(), fbspec.clone()], Fb::Underscore),
                        (vec![fbspec.clone()], Fb::Implicit),
                    ]
                    .into_iter()
                    .enumerate()
                    {
                        for syntax in [0usize, 0b111] {
                            decls.push(decl(ty, &format!("{}mf{fi}{ai}{vi}", tyv.name()), &branches, fb, syntax));
                            n_misplaced += 1;
                        }
                    }
                }
            }
            let counts: Vec<Num> = if tyv.is_float() { vec![Num::F(0.0), Num::F(1.5), Num::F(7.0)] } else { vec![Num::I(0), Num::I(1), Num::I(7)] };
            pack(ty, decls, &counts, &counts, "misplaced-fallback", &mut jobs, &mut singles);
        }
        rep.count("misplaced_fallback_declarations", n_misplaced);
    }

    // ---- chains that rename the count and pass an unrelated `count` on top -------------------------------------------
    // r: a range on `count`; b renames it to `n` and has a plain variable of its own called `count`; the c_* keys pass
    // arguments to b: only the variable of that name is replaced - the range keeps following `n`
    let mut chain_projects: Vec<Project> = vec![];
    for ty in [Some(NumTy::U8), None, Some(NumTy::F32), Some(NumTy::I64)] {
        let tyv = ty.unwrap_or(NumTy::I32);
        let lit = |x: u64| if tyv.is_float() { FkArg::Float(format!("{x}.0")) } else { FkArg::UInt(x) };
        let r = decl(ty, "r", &[vec![num_spec(tyv, 0)], vec![CountSpec::Str(if tyv.is_float() { "1.0..=2.0".into() } else { "1..=2".into() })]], Fb::Implicit, 0);
        let rename = |to: &str| fk_args("r", vec![("count", FkArg::Str(vec![var(to)]))]);
        let e: Vec<(String, Val)> = vec![
            ("r".into(), Val::Range(r)),
            ("b".into(), s(vec![var("n"), text(" of "), var("count"), text(": "), rename("n")])),
            ("c_lit".into(), s(vec![fk_args("b", vec![("count", FkArg::UInt(10))])])),
            ("c_lit0".into(), s(vec![fk_args("b", vec![("count", FkArg::UInt(0))])])),
            ("c_str".into(), s(vec![fk_args("b", vec![("count", FkArg::Str(vec![text("ten")]))])])),
            ("c_var".into(), s(vec![fk_args("b", vec![("count", FkArg::Str(vec![var("m")]))])])),
            ("c_both".into(), s(vec![fk_args("b", vec![("count", FkArg::Str(vec![var("m")])), ("n", FkArg::Str(vec![var("k")]))])])),
            ("c_n_lit".into(), s(vec![fk_args("b", vec![("n", lit(1))])])),
            ("c_n_lit_count".into(), s(vec![fk_args("b", vec![("n", lit(2)), ("count", FkArg::Str(vec![text("X")]))])])),
            ("d".into(), s(vec![text("d: "), fk_args("c_var", vec![("m", FkArg::Str(vec![var("z")]))])])),
            ("d_n".into(), s(vec![text("d: "), fk_args("c_var", vec![("n", FkArg::Str(vec![var("z")]))])])),
            // the same with the names the other way round: the range keeps `count`, b's own variable is `n`
            ("b2".into(), s(vec![var("n"), text(" / "), fk("r")])),
            ("c2".into(), s(vec![fk_args("b2", vec![("n", lit(0))])])),
            ("c2v".into(), s(vec![fk_args("b2", vec![("n", FkArg::Str(vec![var("count")]))])])),
        ];
        let mut p = Project::new(Config::simple("en", &["en"]));
        p.set_file(None, "en", e);
        chain_projects.push(p);
    }
    rep.count("renamed_count_chain_projects", chain_projects.len() as u64);

    // ---- run ---------------------------------------------------------------------------------------
    let n_packed = jobs.len();
    par_for(jobs.len(), |w, i| {
        let j = &jobs[i];
        let co = CheckOpts { counts: Some(&j.counts), write: default_opts() };
        let (e, _) = check_project_opts(&rep, "C04", j.part, &j.project, &scratch.worker(w), &keys_total, co);
        if e != Expect::Accept {
            vmodel::report::machinery_fail(&format!("C04 packed project not acceptable to the model: {e:?}"));
        }
        rep.eval(j.n_cases);
        rep.nontriv(j.n_decls);
    });
    par_for(chain_projects.len(), |w, i| {
        let (e, _) = check_project(&rep, "C04", "renamed-count-chain", &chain_projects[i], &scratch.worker(w), &keys_total);
        if e != Expect::Accept {
            vmodel::report::machinery_fail(&format!("C04 renamed-count chain project not acceptable to the model: {e:?}"));
        }
        rep.eval(14);
    });
    let n_rej = Mutex::new((0u64, 0u64, 0u64));
    par_for(singles.len(), |w, i| {
        let p = &singles[i];
        let (e, _) = check_project(&rep, "C04", "single", p, &scratch.worker(w), &keys_total);
        let mut g = n_rej.lock().unwrap();
        match e {
            Expect::Accept => g.0 += 1,
            Expect::Reject(_) => g.1 += 1,
            Expect::Open(_) => g.2 += 1,
        }
        rep.eval(1);
    });
    let g = n_rej.lock().unwrap();
    rep.count("single_projects_accept", g.0);
    rep.count("single_projects_expected_reject", g.1);
    rep.count("single_projects_unspecified", g.2);
    rep.count("packed_projects", n_packed as u64);
    for j in [0usize, n_packed / 2, n_packed.saturating_sub(1)] {
        if let Some(job) = jobs.get(j) {
            let f = job.project.files.values().next().unwrap();
            if let Some((k, v)) = f.iter().rev().find(|(_, v)| matches!(v, Val::Range(_))) {
                rep.sample(json!({"part": job.part, "key": k, "declaration": val_json(v), "counts_rendered": job.counts.len()}));
            }
        }
    }
    if let Some(p) = singles.first() {
        rep.sample(json!({"single": p.describe()}));
    }
    let mut cov = serde_json::Map::new();
    cov.insert("rule".into(), json!("i8/u8: every 1-branch declaration over the spec alphabet (exact number/string, a..b, a..=b, ..b, ..=b, a.., alternatives with |, list alternatives, whitespace) x 4 fallback forms x 3 syntaxes, every ordered 2-branch pair (thorough: 3-branch over a reduced alphabet); each accepted declaration is (1) evaluated from the parsed Range<T> structures for ALL 256 counts, (2) selected at parse time through one `$t(r,{count:n})` key per covered count (all 256 for 1-branch, boundary neighbourhood for 2/3-branch), (3) `{{ count }}` shown; wider ints (+implicit i32) and floats: same alphabets, counts = every value within +-2 (next_up/next_down for floats) of a bound plus type extremes; declarations with the fallback before the last branch or written twice (implicit and `_` forms, 4 types); declarations with a count just outside the count type (hi+1, hi+45, 2hi+1, 2(hi+1), lo-1, lo-45; as JSON numbers and as strings; alone and inside a list) which must be rejected; 3-branch declarations over a reduced alphabet in which two branches (adjacent or not) carry the same value; three- and four-level reference chains over a range (u8, implicit i32, f32, i64) in which the middle key renames the count to `n` and has a plain variable of its own called `count`, and the outer keys pass `count` / `n` / both as literals, text or other variables (only the variable of that name is replaced; the range keeps following its renamed count); declarations the model rejects / leaves open and literal counts no branch contains are judged alone (must be Err, never panic); evaluations = (declaration, count) pairs + single projects; distinct_nontrivial = distinct declarations"));
    cov.insert("exhaustive".into(), json!(true));
    cov.insert("key_locale_comparisons".into(), json!(*keys_total.lock().unwrap()));
    rep.finish(cov, &["Rust's str::parse::<T> and PartialOrd define what bounds mean", "empty or inverted ranges and fallbacks hidden inside count lists may be rejected or accepted (statement silent)"])
}
