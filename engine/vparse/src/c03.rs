//! C03 (L1 half): every `inherits` map over the locale set x every presence pattern
//! (defined / null / absent) of every value kind, incl. whole subkey groups.

use crate::cmp::*;
use crate::obs::*;
use serde_json::json;
use std::sync::Mutex;
use vmodel::ast::*;
use vmodel::enumerate::*;
pub use vmodel::gen::{build_project, group_states, inherits_maps, GroupState, Presence, KINDS as C03_KINDS, PRES};
use vmodel::par::par_for;
use vmodel::{Reporter, Tier};

pub fn run(tier: Tier) -> i32 {
    let rep = Reporter::new("C03", &engine_name("L1"), tier);
    let scratch = Scratch::new("c03");
    let keys_total = Mutex::new(0u64);
    let locale_sets: Vec<Vec<&str>> = match tier {
        // four locales are needed for a chain of two undefined locales ending on a non-default definer
        Tier::Quick => vec![vec!["en", "fr", "de"], vec!["en", "fr", "de", "it"]],
        Tier::Thorough => vec![vec!["en", "fr", "de"], vec!["en", "fr", "de", "it"], vec!["it", "de", "fr", "en"], vec!["en", "es", "pt", "pt-BR", "fr"]],
    };
    let mut jobs: Vec<(Project, u64, bool)> = vec![];
    for ls in &locale_sets {
        for m in inherits_maps(ls) {
            let nontrivial = m.iter().any(|(_, v)| *v != ls[0]);
            let (mut p, n) = build_project(ls, &m);
            // the declared order of the locales is not part of the data: rotate through every permutation (the
            // default first, in the middle, last)
            let perms = permutations(ls.len());
            let perm = &perms[jobs.len() % perms.len()];
            p.cfg.locales = Some(perm.iter().map(|k| ls[*k].to_string()).collect());
            jobs.push((p, n, nontrivial));
        }
    }
    par_for(jobs.len(), |w, i| {
        let (p, n, nt) = &jobs[i];
        let (e, _) = check_project(&rep, "C03", "inherits", p, &scratch.worker(w), &keys_total);
        if e != Expect::Accept {
            vmodel::report::machinery_fail(&format!("generator produced a project the model does not accept: {e:?}"));
        }
        rep.eval(*n * p.cfg.effective_locales().len() as u64);
        if *nt {
            rep.nontriv(*n);
        }
    });
    // ---- a key written twice in one map (the later occurrence is the key's value): value then null = not defined,
    // null then value = defined, value then value = the second; for plain values, interpolations, whole groups and
    // inside a group; every inherits map over three locales
    {
        let ls = ["en", "fr", "de"];
        let maps = inherits_maps(&ls);
        par_for(maps.len(), |w, i| {
            let mut cfg = Config::simple("en", &ls);
            cfg.inherits = maps[i].clone();
            let mut p = Project::new(cfg);
            let grp = |l: &str, k: &str, n: u8| Val::Sub(vec![("x".into(), st(&format!("[{l}.{k}.x.{n}]"))), ("y".into(), s(vec![text(&format!("[{l}.{k}.y.{n}]")), var("v")]))]);
            p.set_file(
                None,
                "en",
                vec![
                    ("a".into(), st("[en.a]")),
                    ("b".into(), st("[en.b]")),
                    ("c".into(), st("[en.c]")),
                    ("d".into(), s(vec![text("[en.d]"), var("v")])),
                    ("g".into(), grp("en", "g", 1)),
                    ("h".into(), grp("en", "h", 1)),
                    ("j".into(), grp("en", "j", 1)),
                ],
            );
            for (li, l) in ["fr", "de"].iter().enumerate() {
                let val_then_null = |k: &str, v: Val| vec![(k.to_string(), v), (k.to_string(), Val::Null)];
                let null_then_val = |k: &str, v: Val| vec![(k.to_string(), Val::Null), (k.to_string(), v)];
                let mut e: Vec<(String, Val)> = vec![];
                // (the second non-default locale mirrors the first)
                let flip = li == 1;
                let pick = |first: bool, k: &str, v: Val| if first != flip { val_then_null(k, v) } else { null_then_val(k, v) };
                e.extend(pick(true, "a", st(&format!("[{l}.a]"))));
                e.extend(pick(false, "b", st(&format!("[{l}.b]"))));
                e.push(("c".into(), st(&format!("[{l}.c.1]"))));
                e.extend(pick(true, "d", s(vec![text(&format!("[{l}.d]")), var("v")])));
                e.extend(pick(true, "g", grp(l, "g", 1)));
                e.extend(pick(false, "h", grp(l, "h", 1)));
                // inside a group: x twice (value, null / null, value), y once
                let xs = pick(true, "x", st(&format!("[{l}.j.x]")));
                let mut inner = xs;
                inner.push(("y".into(), s(vec![text(&format!("[{l}.j.y]")), var("v")])));
                e.push(("j".into(), Val::Sub(inner)));
                e.push(("c".into(), st(&format!("[{l}.c.2]"))));
                p.set_file(None, l, e);
            }
            let (e, _) = check_project(&rep, "C03", "twice-written-keys", &p, &scratch.worker(w), &keys_total);
            if e != Expect::Accept {
                vmodel::report::machinery_fail(&format!("generator produced a project the model does not accept: {e:?}"));
            }
            rep.eval(10 * 3);
        });
        rep.count("inherits_maps_with_twice_written_keys", maps.len() as u64);
    }
    rep.count("inherits_maps", jobs.len() as u64);
    for j in [1usize, jobs.len() / 2, jobs.len() - 1] {
        if let Some((p, _, _)) = jobs.get(j) {
            rep.sample(json!({"inherits": p.cfg.inherits, "locales": p.cfg.locales, "project_head": vmodel::report::truncate(&p.describe(), 260)}));
        }
    }
    let mut cov = serde_json::Map::new();
    cov.insert("rule".into(), json!("for each locale set (declared in every order, rotating with the map index: the default first, in the middle, last), every map non-default locale -> {none | any locale incl. itself and the default}; one project per map holding one key per (value kind in str/interp/range/plural) x (presence pattern defined/null/absent per non-default locale), one subkey group per combination of 11 group states per locale (absent, null, sub with each subkey defined/null/absent), and a depth-3 group; every key is compared in every locale: DefaultedLocales::compute() vs the chain walk, and the rendered text (self-identifying tags); plus, for every map over three locales, a project whose non-default files write keys twice (value then null, null then value, value then value; plain, interpolation, whole group, inside a group): the later occurrence is the key's value; evaluations = key x locale pairs; distinct_nontrivial = keys of maps with a non-default target"));
    cov.insert("exhaustive".into(), json!(true));
    cov.insert("bound".into(), json!({"locale_sets": locale_sets}));
    cov.insert("key_locale_comparisons".into(), json!(*keys_total.lock().unwrap()));
    rep.finish(cov, &["a key written twice in one map: the later occurrence is the key's value (the semantics of serde maps and of the loader's insert)", "plural categories at run time use the rendered locale (generated code passes the locale field)"])
}
