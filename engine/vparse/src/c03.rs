//! C03 (L1 half): every `inherits` map over the locale set x every presence pattern
//! (defined / null / absent) of every value kind, incl. whole subkey groups.

use crate::cmp::*;
use crate::obs::*;
use serde_json::json;
use std::sync::Mutex;
use vmodel::ast::*;
use vmodel::enumerate::*;
use vmodel::par::par_for;
use vmodel::{Reporter, Tier};

#[derive(Clone, Copy, PartialEq, Eq, Debug)]
pub enum Presence {
    Defined,
    Null,
    Absent,
}
pub const PRES: [Presence; 3] = [Presence::Defined, Presence::Null, Presence::Absent];

/// group state in a non-default locale
#[derive(Clone, Copy, PartialEq, Eq, Debug)]
pub enum GroupState {
    Absent,
    Null,
    Sub(Presence, Presence),
}

pub fn group_states() -> Vec<GroupState> {
    let mut v = vec![GroupState::Absent, GroupState::Null];
    for a in PRES {
        for b in PRES {
            v.push(GroupState::Sub(a, b));
        }
    }
    v
}

pub const KINDS: [&str; 4] = ["str", "interp", "range", "plural"];

fn value_of_kind(kind: &str, tag: &str) -> Vec<(String, Val)> {
    // returns the entries to add for key base name "K" (plural adds two)
    match kind {
        "str" => vec![("K".into(), st(&format!("[{tag}]")))],
        "interp" => vec![("K".into(), s(vec![text(&format!("[{tag}]")), var("x"), comp("b", vec![var("y")])]))],
        "range" => vec![(
            "K".into(),
            Val::Range(RangeDecl {
                ty: None,
                branches: vec![
                    Branch { value: Box::new(st(&format!("[{tag}.zero]"))), counts: vec![CountSpec::Int(0)], map_form: false, value_first: false },
                    Branch { value: Box::new(s(vec![text(&format!("[{tag}.many]")), var("count")])), counts: vec![], map_form: false, value_first: false },
                ],
            }),
        )],
        "plural" => vec![
            ("K_one".into(), st(&format!("[{tag}.one]"))),
            ("K_other".into(), s(vec![text(&format!("[{tag}.other]")), var("count")])),
        ],
        _ => unreachable!(),
    }
}

pub fn build_project(locales: &[&str], inherits: &[(String, String)]) -> (Project, u64) {
    let default = locales[0];
    let others = &locales[1..];
    let mut cfg = Config::simple(default, locales);
    cfg.inherits = inherits.to_vec();
    let mut files: Vec<Vec<(String, Val)>> = vec![vec![]; locales.len()];
    let mut n_keys = 0u64;
    // value kinds x presence patterns
    for kind in KINDS {
        for (pi, pat) in tuples(3, others.len()).iter().enumerate() {
            let name = format!("{kind}{pi}");
            n_keys += 1;
            for (li, loc) in locales.iter().enumerate() {
                let pres = if li == 0 { Presence::Defined } else { PRES[pat[li - 1]] };
                match pres {
                    Presence::Defined => {
                        for (k, v) in value_of_kind(kind, &format!("{loc}.{name}")) {
                            files[li].push((k.replace('K', &name), v));
                        }
                    }
                    Presence::Null => files[li].push((name.clone(), Val::Null)),
                    Presence::Absent => {}
                }
            }
        }
    }
    // groups
    let gs = group_states();
    for (gi, pat) in tuples(gs.len(), others.len()).iter().enumerate() {
        let name = format!("g{gi}");
        n_keys += 2;
        for (li, loc) in locales.iter().enumerate() {
            let st_ = if li == 0 { GroupState::Sub(Presence::Defined, Presence::Defined) } else { gs[pat[li - 1]] };
            match st_ {
                GroupState::Absent => {}
                GroupState::Null => files[li].push((name.clone(), Val::Null)),
                GroupState::Sub(a, b) => {
                    let mut sub = vec![];
                    for (sk, p) in [("x", a), ("y", b)] {
                        match p {
                            Presence::Defined => sub.push((sk.to_string(), st(&format!("[{loc}.{name}.{sk}]")))),
                            Presence::Null => sub.push((sk.to_string(), Val::Null)),
                            Presence::Absent => {}
                        }
                    }
                    files[li].push((name.clone(), Val::Sub(sub)));
                }
            }
        }
    }
    // one nested group (depth 3) whose middle level is null / absent / partial per locale (rotating)
    for (li, loc) in locales.iter().enumerate() {
        let leaf = |k: &str| (k.to_string(), st(&format!("[{loc}.deep.{k}]")));
        let v = match li % 4 {
            0 => Val::Sub(vec![("m".into(), Val::Sub(vec![leaf("p"), leaf("q")])), leaf("r")]),
            1 => Val::Sub(vec![("m".into(), Val::Null), leaf("r")]),
            2 => Val::Sub(vec![("m".into(), Val::Sub(vec![leaf("q")]))]),
            _ => Val::Sub(vec![leaf("r")]),
        };
        files[li].push(("deep".into(), v));
    }
    n_keys += 3;
    let mut p = Project::new(cfg);
    for (li, loc) in locales.iter().enumerate() {
        p.set_file(None, loc, std::mem::take(&mut files[li]));
    }
    (p, n_keys)
}

pub fn inherits_maps(locales: &[&str]) -> Vec<Vec<(String, String)>> {
    let others = &locales[1..];
    let mut out = vec![];
    // each non-default locale -> none or any locale (incl. itself and the default)
    for t in tuples(locales.len() + 1, others.len()) {
        let mut m = vec![];
        for (i, o) in others.iter().enumerate() {
            if t[i] > 0 {
                m.push((o.to_string(), locales[t[i] - 1].to_string()));
            }
        }
        out.push(m);
    }
    out
}

pub fn run(tier: Tier) -> i32 {
    let rep = Reporter::new("C03", &engine_name("L1"), tier);
    let scratch = Scratch::new("c03");
    let keys_total = Mutex::new(0u64);
    let locale_sets: Vec<Vec<&str>> = match tier {
        Tier::Quick => vec![vec!["en", "fr", "de"], vec!["de", "en", "fr"]],
        Tier::Thorough => vec![vec!["en", "fr", "de"], vec!["en", "fr", "de", "it"], vec!["it", "de", "fr", "en"]],
    };
    let mut jobs: Vec<(Project, u64, bool)> = vec![];
    for ls in &locale_sets {
        for m in inherits_maps(ls) {
            let nontrivial = m.iter().any(|(_, v)| *v != ls[0]);
            let (p, n) = build_project(ls, &m);
            jobs.push((p, n, nontrivial));
        }
    }
    par_for(jobs.len(), |w, i| {
        let (p, n, nt) = &jobs[i];
        let (e, _) = check_project(&rep, "C03", "inherits", p, &scratch.worker(w), &keys_total);
        if e != Expect::Accept {
            vmodel::report::machinery_fail(&format!("generator produced a project the model does not accept: {e:?}"));
        }
        rep.eval(*n * p.cfg.effective_locales().len() as u64);
        if *nt {
            rep.nontriv(*n);
        }
    });
    rep.count("inherits_maps", jobs.len() as u64);
    for j in [1usize, jobs.len() / 2, jobs.len() - 1] {
        if let Some((p, _, _)) = jobs.get(j) {
            rep.sample(json!({"inherits": p.cfg.inherits, "locales": p.cfg.locales, "project_head": vmodel::report::truncate(&p.describe(), 260)}));
        }
    }
    let mut cov = serde_json::Map::new();
    cov.insert("rule".into(), json!("for each locale set, every map non-default locale -> {none | any locale incl. itself and the default}; one project per map holding one key per (value kind in str/interp/range/plural) x (presence pattern defined/null/absent per non-default locale), one subkey group per combination of 11 group states per locale (absent, null, sub with each subkey defined/null/absent), and a depth-3 group; every key is compared in every locale: DefaultedLocales::compute() vs the chain walk, and the rendered text (self-identifying tags); evaluations = key x locale pairs; distinct_nontrivial = keys of maps with a non-default target"));
    cov.insert("exhaustive".into(), json!(true));
    cov.insert("bound".into(), json!({"locale_sets": locale_sets}));
    cov.insert("key_locale_comparisons".into(), json!(*keys_total.lock().unwrap()));
    rep.finish(cov, &["plural categories at run time use the rendered locale (generated code passes the locale field)"])
}
