//! C06 (L1): foreign keys are pure substitution. All reference chains up to a depth over the
//! referencing/target alphabets, in every assignment of key names (resolution order is the
//! BTreeSet order of (locale, path)); all small digraphs incl. cycles; locale and namespace variants.

use crate::cmp::*;
use crate::obs::*;
use serde_json::json;
use std::collections::BTreeMap;
use std::sync::Mutex;
use vmodel::ast::*;
use vmodel::enumerate::*;
pub use vmodel::gen::{chain_entries, leaf_entries, rbranch, ref_entries, Leaf, Refk, LEAVES, NAMES, REFS};
use vmodel::par::par_for;
use vmodel::{Reporter, Tier};

fn single_locale_project(entries: Vec<(usize, Vec<(String, Val)>)>) -> Project {
    let mut p = Project::new(Config::simple("en", &["en"]));
    let mut all = vec![("g".to_string(), Val::Sub(vec![("s".to_string(), s(vec![text("[gs]"), var("x")]))]))];
    for (_, e) in entries {
        all.extend(e);
    }
    p.set_file(None, "en", all);
    p
}

pub fn run(tier: Tier) -> i32 {
    let rep = Reporter::new("C06", &engine_name("L1"), tier);
    let scratch = Scratch::new("c06");
    let keys_total = Mutex::new(0u64);
    let max_depth = tier.pick(2, 3);
    let mut jobs: Vec<(&'static str, Project)> = vec![];
    let no_ns = |_: usize| -> Option<&'static str> { None };

    // ---- chains, single locale, every name assignment ------------------------------------------
    for depth in 1..=max_depth {
        let perms = permutations(depth + 1);
        for rt in tuples(REFS.len(), depth) {
            let refs: Vec<Refk> = rt.iter().map(|i| REFS[*i]).collect();
            for leaf in LEAVES {
                // thorough depth 3: all name assignments for a third of the space, identity + reverse for the rest
                for (pi, perm) in perms.iter().enumerate() {
                    if depth == 3 && pi != 0 && pi != perms.len() - 1 && (rt[0] + rt[1] + rt[2]) % 3 != 0 {
                        continue;
                    }
                    jobs.push(("chain", single_locale_project(chain_entries(&refs, leaf, perm, "en", &no_ns))));
                }
            }
        }
    }
    let n_chain = jobs.len();

    // ---- special targets: subkey path, subkey group, missing, self ---------------------------------
    for r in REFS {
        for (t, part) in [("g.s", "subkey-path"), ("g", "to-group"), ("nokey", "missing"), ("a", "self"), ("g.nokey", "missing"), ("b.s", "path-through-value"),
            // a dangling segment in the middle of a path whose last segment exists one level up
            ("ns:b", "namespace-prefix-in-a-flat-project"), ("ns:g.s", "namespace-prefix-in-a-flat-project"), ("nogroup.b", "dangling-segment"), ("g.nogroup.s", "dangling-segment"), ("b.b", "dangling-segment"), ("g.s.s", "dangling-segment")] {
            let mut e = ref_entries("a", r, t, "b", "en.a");
            e.extend(leaf_entries("b", Leaf::Interp, "en.b"));
            e.push(("g".to_string(), Val::Sub(vec![("s".to_string(), s(vec![text("[gs]"), var("x")]))])));
            let mut p = Project::new(Config::simple("en", &["en"]));
            p.set_file(None, "en", e);
            jobs.push((part, p));
        }
    }

    // ---- all digraphs on <= 3 nodes: each node is text, `$t(j)` or `$t(j, {x: "$t(k)"})` -------------
    for n in 1..=3usize {
        let opts = 1 + n + n * n;
        for t in tuples(opts, n) {
            let mut e = vec![];
            for (i, o) in t.iter().enumerate() {
                let name = NAMES[i];
                let v = if *o == 0 {
                    s(vec![text(&format!("[{name}]")), var("x")])
                } else if *o <= n {
                    s(vec![text(&format!("[{name}>]")), fk(NAMES[*o - 1])])
                } else {
                    let j = (*o - 1 - n) / n;
                    let k = (*o - 1 - n) % n;
                    s(vec![text(&format!("[{name}>]")), fk_args(NAMES[j], vec![("x", FkArg::Str(vec![fk(NAMES[k])]))])])
                };
                e.push((name.to_string(), v));
            }
            let mut p = Project::new(Config::simple("en", &["en"]));
            p.set_file(None, "en", e);
            jobs.push(("digraph", p));
        }
    }

    // ---- locales: plain second locale, target null (explicit default), inheriting locale ------------
    // en (default), fr (own values), de (target null), fr-CA inherits fr (target null)
    // depth 2 also in the quick tier: a chain through a null target needs it
    let loc_depth = 2;
    for depth in 1..=loc_depth {
        for rt in tuples(REFS.len(), depth) {
            let refs: Vec<Refk> = rt.iter().map(|i| REFS[*i]).collect();
            for leaf in LEAVES {
                let perm: Vec<usize> = (0..=depth).collect();
                for null_at in 1..=depth {
                    let mut cfg = Config::simple("en", &["en", "fr", "de", "fr-CA"]);
                    cfg.inherits = vec![("fr-CA".into(), "fr".into())];
                    let mut p = Project::new(cfg);
                    for loc in ["en", "fr", "de", "fr-CA"] {
                        let mut all = vec![];
                        for (i, e) in chain_entries(&refs, leaf, &perm, loc, &no_ns) {
                            if (loc == "de" || loc == "fr-CA") && i == null_at {
                                // the node's merged key is null in this locale
                                all.push((NAMES[perm[i]].to_string(), Val::Null));
                            } else {
                                all.extend(e);
                            }
                        }
                        p.set_file(None, loc, all);
                    }
                    jobs.push(("locales", p));
                }
            }
        }
    }

    // ---- every inherits map x every presence pattern of the target: `a = $t(b)` in every locale ---------
    // (loops that do not pass through the referencing locale, self-loops, chains to the default ..)
    {
        let locs = ["en", "fr", "de", "it"];
        for m in inherits_maps_local(&locs) {
            for pat in tuples(3, 3) {
                // presence of b in fr, de, it: 0 defined, 1 null, 2 absent
                // the referencing key a in fr, de, it: 0 `$t(b)`, 1 plain text, 2 null, 3 absent (quick: 0 / 1)
                let a_states = tier.pick(2, 4);
                for apat in tuples(a_states, 3) {
                    let mut cfg = Config::simple("en", &locs);
                    cfg.inherits = m.clone();
                    let mut p = Project::new(cfg);
                    for (li, loc) in locs.iter().enumerate() {
                        let mut e = vec![];
                        match if li == 0 { 0 } else { apat[li - 1] } {
                            0 => e.push(("a".to_string(), s(vec![text(&format!("[{loc}.a<]")), fk("b")]))),
                            1 => e.push(("a".to_string(), st(&format!("[{loc}.a.plain]")))),
                            2 => e.push(("a".to_string(), Val::Null)),
                            _ => {}
                        }
                        match if li == 0 { 0 } else { pat[li - 1] } {
                            0 => e.push(("b".to_string(), s(vec![text(&format!("[{loc}.b]")), var("x")]))),
                            1 => e.push(("b".to_string(), Val::Null)),
                            _ => {}
                        }
                        p.set_file(None, loc, e);
                    }
                    jobs.push(("inherits-x-null-target", p));
                }
            }
        }
    }

    // ---- a literal count fixes the plural form with the rules of the locale being rendered, regional variants
    // included (pt: one for 0 and 1; pt-PT: one for 1 only), cardinal and ordinal, as default and as second locale
    for locs in [vec!["pt-PT"], vec!["pt"], vec!["en", "pt-PT", "pt"], vec!["pt", "pt-PT", "en-GB", "fr-CA"]] {
        let mut p = Project::new(Config::simple(locs[0], &locs));
        for l in &locs {
            let mut e = vec![
                ("p_one".to_string(), s(vec![text(&format!("[{l}.p.one]")), var("count")])),
                ("p_other".to_string(), s(vec![text(&format!("[{l}.p.other]")), var("count")])),
                ("o_ordinal_one".to_string(), s(vec![text(&format!("[{l}.o.one]")), var("count")])),
                ("o_ordinal_two".to_string(), s(vec![text(&format!("[{l}.o.two]")), var("count")])),
                ("o_ordinal_few".to_string(), s(vec![text(&format!("[{l}.o.few]")), var("count")])),
                ("o_ordinal_other".to_string(), s(vec![text(&format!("[{l}.o.other]")), var("count")])),
            ];
            for n in 0u64..=4 {
                e.push((format!("pc{n}"), s(vec![text("<"), fk_args("p", vec![("count", FkArg::UInt(n))]), text(">")])));
                e.push((format!("oc{n}"), s(vec![fk_args("o", vec![("count", FkArg::UInt(n))])])));
            }
            for (i, f) in ["0.5", "1.0", "1.5"].iter().enumerate() {
                e.push((format!("pf{i}"), s(vec![fk_args("p", vec![("count", FkArg::Float(f.to_string()))])])));
            }
            p.set_file(None, l, e);
        }
        jobs.push(("literal-count-regional", p));
    }
    // ---- string arguments that bring markup of their own - a component alone, next to text, around a variable, inside
    // another one - into a plain target, a target that wraps the argument in a component, and through two hops: the
    // referencing key is what writing the substituted value by hand would give
    {
        let mut p = Project::new(Config::simple("en", &["en", "fr"]));
        for l in ["en", "fr"] {
            let args: Vec<(&str, Vec<Seg>)> = vec![
                ("only", vec![comp("b", vec![text("hello")])]),
                ("text", vec![text("dear "), comp("b", vec![text("hello")]), text(" you")]),
                ("var", vec![comp("b", vec![var("name")])]),
                ("nested", vec![comp("b", vec![comp("i", vec![text("deep")])])]),
                ("selfclosed", vec![text("a"), comp("br", vec![]), text("b")]),
                ("plain", vec![text("plain words")]),
            ];
            let mut e = vec![
                ("target".to_string(), s(vec![text(&format!("[{l}] say ")), var("what"), text(" now")])),
                ("wrapped".to_string(), s(vec![text(&format!("[{l}] ")), comp("u", vec![var("what")]), text(" end")])),
                ("hop".to_string(), s(vec![text("<"), fk_args("target", vec![("what", FkArg::Str(vec![var("inner")]))]), text(">")])),
            ];
            for (n, a) in &args {
                e.push((format!("t_{n}"), s(vec![fk_args("target", vec![("what", FkArg::Str(a.clone()))])])));
                e.push((format!("w_{n}"), s(vec![text("x "), fk_args("wrapped", vec![("what", FkArg::Str(a.clone()))])])));
                e.push((format!("h_{n}"), s(vec![fk_args("hop", vec![("inner", FkArg::Str(a.clone()))])])));
            }
            p.set_file(None, l, e);
        }
        jobs.push(("markup-arguments", p));
    }
    // ---- literal float counts written as whole numbers (2.0, 0.0, -3.0, 1e2) and not (2.5, 0.1) fix the branch of an
    // f32 and of an f64 range, on exact values and on span bounds
    {
        let mut p = Project::new(Config::simple("en", &["en", "fr"]));
        for l in ["en", "fr"] {
            let mut e = vec![];
            for ty in ["f32", "f64"] {
                e.push((
                    format!("r{ty}"),
                    Val::Range(RangeDecl {
                        ty: Some(ty.into()),
                        branches: vec![
                            rbranch(st(&format!("[{l}.{ty}.neg]")), vec![CountSpec::Str("..0.0".into())]),
                            rbranch(st(&format!("[{l}.{ty}.tenth]")), vec![CountSpec::Float("0.1".into())]),
                            rbranch(st(&format!("[{l}.{ty}.two]")), vec![CountSpec::Float("2.0".into())]),
                            rbranch(s(vec![text(&format!("[{l}.{ty}.0-0.3] ")), var("count")]), vec![CountSpec::Str("0.0..=0.3".into())]),
                            rbranch(s(vec![text(&format!("[{l}.{ty}.fb] ")), var("count")]), vec![]),
                        ],
                    }),
                ));
                for (i, c) in ["2.0", "0.0", "-3.0", "1e2", "2.5", "0.1", "0.3", "0.7"].iter().enumerate() {
                    e.push((format!("c{ty}n{i}"), s(vec![text("<"), fk_args(&format!("r{ty}"), vec![("count", FkArg::Float(c.to_string()))]), text(">")])));
                }
            }
            p.set_file(None, l, e);
        }
        jobs.push(("float-literal-counts", p));
    }

    // ---- namespaces: referencing key and target in the same / another namespace ------------------------
    for rt in tuples(REFS.len(), 2) {
        let refs: Vec<Refk> = rt.iter().map(|i| REFS[*i]).collect();
        for leaf in [Leaf::Interp, Leaf::Plural, Leaf::Range] {
            for layout in 0..4usize {
                // node i lives in namespace layout-bit i
                let ns_of = move |i: usize| -> Option<&'static str> { Some(if (layout >> (i % 2)) & 1 == 0 { "one" } else { "two" }) };
                let mut files: BTreeMap<&str, Vec<(String, Val)>> = BTreeMap::new();
                files.insert("one", vec![("pad1".into(), st("[pad1]"))]);
                files.insert("two", vec![("pad2".into(), st("[pad2]"))]);
                for (i, e) in chain_entries(&refs, leaf, &[0, 1, 2], "en", &ns_of) {
                    files.get_mut(ns_of(i).unwrap()).unwrap().extend(e);
                }
                let mut p = Project::new(Config::simple("en", &["en"]).with_namespaces(&["one", "two"]));
                for (ns, e) in files {
                    p.set_file(Some(ns), "en", e);
                }
                jobs.push(("namespaces", p));
            }
        }
    }
    // without the namespace prefix while namespaces are configured: must be rejected
    {
        let mut p = Project::new(Config::simple("en", &["en"]).with_namespaces(&["one"]));
        p.set_file(Some("one"), "en", vec![("a".into(), s(vec![fk("b")])), ("b".into(), st("[b]"))]);
        jobs.push(("namespaces", p));
    }

    let classes = Mutex::new(BTreeMap::<String, u64>::new());
    par_for(jobs.len(), |w, i| {
        let (part, p) = &jobs[i];
        let (e, o) = check_project(&rep, "C06", part, p, &scratch.worker(w), &keys_total);
        rep.eval(1);
        let class = match (&e, &o) {
            (Expect::Accept, _) => "accept".to_string(),
            (Expect::Open(w), _) => format!("open: {w}"),
            (Expect::Reject(why), Outcome::Err { msg, .. }) => {
                // "rejected with an error naming the key": some key path of the project is quoted
                let names: Vec<String> = p.files.values().flat_map(|f| f.iter().map(|(k, _)| k.clone())).collect();
                let quoted: Vec<&str> = msg.split('"').skip(1).step_by(2).collect();
                let ok = quoted.iter().any(|q| {
                    let q = q.rsplit("::").next().unwrap_or(q);
                    let first = q.split('.').next().unwrap_or(q);
                    names.iter().any(|n| n == first || n.strip_suffix("_one") == Some(first) || n.strip_suffix("_other") == Some(first)) || q.contains("nokey")
                });
                if !ok {
                    rep.violation(format!("C06/{part}: error does not name a key of the project: {msg} :: {}", p.describe()), json!({"message": msg}));
                }
                format!("reject: {}", why.split('{').next().unwrap_or(why).trim())
            }
            (Expect::Reject(why), _) => format!("reject(not observed): {}", why.split('{').next().unwrap_or(why).trim()),
        };
        *classes.lock().unwrap().entry(format!("{part}/{class}")).or_insert(0) += 1;
    });
    rep.nontriv(jobs.len() as u64);
    rep.count("chain_projects", n_chain as u64);
    for j in [3usize, n_chain / 2, n_chain + 7, jobs.len() - 2] {
        if let Some((part, p)) = jobs.get(j) {
            rep.sample(json!({"part": part, "project": vmodel::report::truncate(&p.describe(), 400)}));
        }
    }
    let mut cov = serde_json::Map::new();
    cov.insert("rule".into(), json!(format!("chains k0 -> .. -> leaf of depth <= {max_depth}: every tuple over 18 referencing forms (whole range branch / plural form, literal float count, whole value, mid text, inside component, string/number/bool/renaming/nested-$t argument, literal count 1 and 0, renamed count, unknown argument, inside range branch, inside plural form, two references) x 10 target kinds (text, interpolation, component, range, plural, number, plain `{{{{count}}}}` variable, the empty string, a float range, formatted variables) x every assignment of key names (all permutations for depth<=2); special targets (subkey path, subkey group, missing, self, path through a value, a dangling middle segment whose tail exists one level up, a namespace prefix in a project without namespaces); all digraphs on <=3 nodes where each node is text, $t(j) or $t(j,{{x:$t(k)}}) (cycles included); 4-locale projects (plain, explicit-null target, inheriting locale with null target) for depth <= {loc_depth}; two-namespace layouts for depth 2; literal float counts (whole: 2.0, 0.0, -3.0, 1e2; fractional: 2.5, 0.1, 0.3, 0.7) to an f32 and an f64 range with exact values and span bounds; string arguments holding markup (a component alone, next to text, around a variable, nested, self-closed) into a plain target, a wrapping target and through two hops; literal counts 0..=4 and 0.5 / 1.0 / 1.5 on cardinal and ordinal plurals in pt / pt-PT / en-GB / fr-CA projects (regional rules); every inherits map x target presence x referencing-key state over 4 locales; each accepted project: every key in every locale rendered under boundary counts against the substitution model; each rejected project: Err whose message names a key")));
    cov.insert("exhaustive".into(), json!(true));
    cov.insert("outcome_classes".into(), json!(*classes.lock().unwrap()));
    cov.insert("key_locale_comparisons".into(), json!(*keys_total.lock().unwrap()));
    rep.finish(cov, &["a target absent from the same locale's file (implicit default) cannot be referenced (documented): expected Err", "integer literal for float range, count argument to a non-numeric form: statement silent, any non-panic outcome admitted"])
}

pub fn debug_one() -> i32 {
    let rep = Reporter::new("C06", "debug", Tier::Quick);
    let scratch = Scratch::new("c06dbg");
    let keys_total = Mutex::new(0u64);
    let mut cfg = Config::simple("en", &["en", "fr", "de", "fr-CA"]);
    cfg.inherits = vec![("fr-CA".into(), "fr".into())];
    let mut p = Project::new(cfg);
    for loc in ["en", "fr"] {
        p.set_file(None, loc, vec![("a".into(), s(vec![fk("b")])), ("b".into(), s(vec![comp("i", vec![fk("c"), var("z")])])), ("c".into(), st(&format!("[{loc}.c]")))]);
    }
    for loc in ["de", "fr-CA"] {
        p.set_file(None, loc, vec![("a".into(), s(vec![fk("b")])), ("b".into(), Val::Null), ("c".into(), st(&format!("[{loc}.c]")))]);
    }
    std::env::set_var("VERIF_DEBUG_KF", "1");
    let (e, o) = check_project(&rep, "C06", "debug", &p, &scratch.worker(0), &keys_total);
    eprintln!("expect={e:?} out={}", o.short());
    rep.finish(serde_json::Map::new(), &[])
}

fn inherits_maps_local(locales: &[&str]) -> Vec<Vec<(String, String)>> {
    vmodel::gen::inherits_maps(locales)
}
