//! C18 (L1 part): the loader understands the documented formatter grammar: every name x every
//! argument value (+ omitted, invalid, unknown), whitespace-insensitive.

use crate::obs::*;
use serde_json::json;
use vmodel::ast::*;
use vmodel::fmtspec::*;
use vmodel::{Reporter, Tier};

fn observe_formatter(dir: &std::path::Path, source: &str) -> Result<Vec<String>, String> {
    let mut p = Project::new(Config::simple("en", &["en"]));
    p.set_file(None, "en", vec![("k".into(), Val::RawJson(json_string(source, false)))]);
    match run_project(&p, dir, default_opts()) {
        Outcome::Ok(parsed) => {
            let k = parsed.namespaces[0].keys.get(&vec!["k".to_string()]).ok_or("key k missing")?;
            match &k.sig {
                SigObs::Interpol { vars, .. } => Ok(vars.get("v").map(|(f, _)| f.iter().cloned().collect()).unwrap_or_default()),
                SigObs::Lit(t) => Err(format!("parsed as a plain {t} literal")),
            }
        }
        o => Err(o.short()),
    }
}

pub fn run(tier: Tier) -> i32 {
    let rep = Reporter::new("C18", &engine_name("L1"), tier);
    let scratch = Scratch::new("c18");
    let dir = scratch.worker(0);
    let cases = all_cases();
    let mut distinct = std::collections::BTreeSet::new();
    for c in &cases {
        rep.eval(1);
        distinct.insert(c.debug.clone());
        let src = format!("{{{{ v, {} }}}}", c.text);
        match observe_formatter(&dir, &src) {
            Ok(f) if f == vec![c.debug.clone()] => {}
            Ok(f) => rep.violation(format!("C18/parse: {src:?} is understood as {f:?}, documented meaning {}", c.debug), json!({})),
            Err(e) => rep.violation(format!("C18/parse: {src:?} is rejected: {e}"), json!({})),
        }
    }
    // whitespace at the 8 positions of {{ v , f ( a : x ; b : y ) }}
    for (name, a, b, debug) in [
        ("datetime", ("date_length", "full"), ("time_length", "long"), "DateTime(Full, Long)"),
        ("list", ("list_type", "or"), ("list_style", "narrow"), "List(Or, Narrow)"),
        ("currency", ("width", "narrow"), ("currency_code", "EUR"), "Currency(Narrow, CurrencyCode(\"EUR\"))"),
    ] {
        for src in whitespace_variants(name, a, b) {
            rep.eval(1);
            match observe_formatter(&dir, &src) {
                Ok(f) if f == vec![debug.to_string()] => {}
                Ok(f) => rep.violation(format!("C18/whitespace: {src:?} is understood as {f:?}, expected {debug}"), json!({})),
                Err(e) => rep.violation(format!("C18/whitespace: {src:?} is rejected: {e}"), json!({})),
            }
        }
    }
    // names that are not formatters must be rejected with a descriptive error
    for bad in ["unknown", "Number", "NUMBER", "num", "dates", "", "number()x"] {
        rep.eval(1);
        let src = format!("{{{{ v, {bad} }}}}");
        match observe_formatter(&dir, &src) {
            Err(e) if e.contains("Unknown formatter") || e.starts_with("Err(") => {
                if bad == "number()x" {
                    // trailing text after the closing parenthesis: meaning not documented
                }
            }
            Err(e) => rep.violation(format!("C18/parse: {src:?}: {e}"), json!({})),
            Ok(f) => {
                if bad != "number()x" {
                    rep.violation(format!("C18/parse: {src:?} is accepted as {f:?} although {bad:?} is not a formatter name"), json!({}))
                }
            }
        }
    }
    rep.nontriv(distinct.len() as u64);
    rep.sample(json!({"source": format!("{{{{ v, {} }}}}", cases[17].text), "meaning": cases[17].debug}));
    rep.sample(json!({"source": whitespace_variants("list", ("list_type", "or"), ("list_style", "narrow"))[173]}));
    let mut cov = serde_json::Map::new();
    cov.insert("rule".into(), json!(format!("{} formatter texts = every formatter name x every documented value of every argument + omitted + an invalid value (number also with an unknown argument, datetime also with swapped argument order, currency codes valid/invalid/lower-case); 3 x 256 whitespace variants at the 8 positions of `{{{{ v , f ( a : x ; b : y ) }}}}`; non-formatter names incl. wrong case; oracle: the Formatter value the loader records for the variable == the documented meaning (defaults for omitted / unrecognised arguments); distinct_nontrivial = distinct Formatter values", cases.len())));
    cov.insert("exhaustive".into(), json!(true));
    rep.finish(cov, &["`list_style` is the argument name (rustdoc, tests and code agree; the book says list_length)"])
}
