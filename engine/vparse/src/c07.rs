//! C07 (L1): key sets against the default locale, exact diagnostics multiset.

use crate::cmp::*;
use crate::obs::*;
use serde_json::json;
use std::collections::BTreeMap;
use std::sync::Mutex;
use vmodel::ast::*;
use vmodel::par::par_for_chunked;
use vmodel::{Reporter, Tier};

#[derive(Clone, Copy, PartialEq, Eq, Debug)]
enum P {
    Val,
    Null,
    Absent,
}
const PS: [P; 3] = [P::Val, P::Null, P::Absent];

#[derive(Clone, Copy, PartialEq, Eq, Debug)]
enum H {
    Absent,
    Null,
    Swap,
    Sub(P),
}
#[derive(Clone, Copy, PartialEq, Eq, Debug)]
enum G {
    Absent,
    Null,
    Swap,
    Sub(P, P, H),
}
#[derive(Clone, Copy, PartialEq, Eq, Debug)]
enum Pl {
    Forms,
    Null,
    Absent,
    Partial,
    AsValue,
    /// only `p_other` (what a locale with a single plural category writes): a lone suffixed key stays `p_other`
    OtherOnly,
}
#[derive(Clone, Copy, PartialEq, Eq, Debug)]
enum Surplus {
    None,
    Value,
    Group,
    Plural,
    InsideGroup,
    SwapDefaultValue, // default's value `b` is a group here
    /// a key that merely ends in `_other`
    LoneOther,
    /// a surplus plural with a form the locale's rules never select: two diagnostics for one key
    PluralUnusedForm,
}

#[derive(Clone, Copy, Debug)]
struct Pattern {
    a: P,
    g: G,
    p: Pl,
    s: Surplus,
}

fn all_patterns(full: bool) -> Vec<Pattern> {
    let mut hs = vec![H::Absent, H::Null, H::Swap];
    hs.extend(PS.map(H::Sub));
    let mut gs = vec![G::Absent, G::Null, G::Swap];
    for x in PS {
        for y in PS {
            for h in &hs {
                gs.push(G::Sub(x, y, *h));
            }
        }
    }
    let pls = [Pl::Forms, Pl::Null, Pl::Absent, Pl::Partial, Pl::AsValue, Pl::OtherOnly];
    let ss = [Surplus::None, Surplus::Value, Surplus::Group, Surplus::Plural, Surplus::InsideGroup, Surplus::SwapDefaultValue, Surplus::LoneOther, Surplus::PluralUnusedForm];
    let mut out = vec![];
    for a in PS {
        for g in &gs {
            for p in pls {
                for s in ss {
                    out.push(Pattern { a, g: *g, p, s });
                }
            }
        }
    }
    if !full {
        // reduced set for the third locale
        out = out.into_iter().enumerate().filter(|(i, _)| i % 211 == 0).map(|(_, p)| p).collect();
    }
    out
}

fn default_entries(loc: &str) -> Vec<(String, Val)> {
    let t = |k: &str| st(&format!("[{loc}.{k}]"));
    vec![
        ("a".into(), t("a")),
        ("b".into(), t("b")),
        ("g".into(), Val::Sub(vec![("x".into(), t("g.x")), ("y".into(), t("g.y")), ("h".into(), Val::Sub(vec![("z".into(), t("g.h.z"))]))])),
        ("p_one".into(), s(vec![text(&format!("[{loc}.p.one]")), var("count")])),
        ("p_other".into(), s(vec![text(&format!("[{loc}.p.other]")), var("count")])),
        // an ordinary key whose name happens to end in `_other`
        ("kind_other".into(), t("kind_other")),
    ]
}

fn entries_for(loc: &str, pat: &Pattern) -> Vec<(String, Val)> {
    let t = |k: &str| st(&format!("[{loc}.{k}]"));
    let mut e: Vec<(String, Val)> = vec![];
    let put = |e: &mut Vec<(String, Val)>, k: &str, p: P, tag: &str| match p {
        P::Val => e.push((k.into(), st(&format!("[{loc}.{tag}]")))),
        P::Null => e.push((k.into(), Val::Null)),
        P::Absent => {}
    };
    put(&mut e, "a", pat.a, "a");
    if pat.s == Surplus::SwapDefaultValue {
        e.push(("b".into(), Val::Sub(vec![("q".into(), t("b.q"))])));
    } else {
        e.push(("b".into(), t("b")));
    }
    match pat.g {
        G::Absent => {}
        G::Null => e.push(("g".into(), Val::Null)),
        G::Swap => e.push(("g".into(), t("g-as-value"))),
        G::Sub(x, y, h) => {
            let mut sub = vec![];
            put(&mut sub, "x", x, "g.x");
            put(&mut sub, "y", y, "g.y");
            match h {
                H::Absent => {}
                H::Null => sub.push(("h".into(), Val::Null)),
                H::Swap => sub.push(("h".into(), t("g.h-as-value"))),
                H::Sub(z) => {
                    let mut hs = vec![];
                    put(&mut hs, "z", z, "g.h.z");
                    sub.push(("h".into(), Val::Sub(hs)));
                }
            }
            if pat.s == Surplus::InsideGroup {
                sub.push(("w".into(), t("g.w-surplus")));
            }
            e.push(("g".into(), Val::Sub(sub)));
        }
    }
    match pat.p {
        Pl::Forms => {
            e.push(("p_one".into(), s(vec![text(&format!("[{loc}.p.one]")), var("count")])));
            e.push(("p_other".into(), s(vec![text(&format!("[{loc}.p.other]")), var("count")])));
        }
        Pl::Null => e.push(("p".into(), Val::Null)),
        Pl::Absent => {}
        Pl::Partial => e.push(("p_one".into(), s(vec![text(&format!("[{loc}.p.one-only]")), var("count")]))),
        Pl::AsValue => e.push(("p".into(), s(vec![text(&format!("[{loc}.p-plain]")), var("count")]))),
        Pl::OtherOnly => e.push(("p_other".into(), s(vec![text(&format!("[{loc}.p.other-only]")), var("count")]))),
    }
    match pat.s {
        Surplus::Value => e.push(("s".into(), t("s-surplus"))),
        Surplus::Group => e.push(("sg".into(), Val::Sub(vec![("u".into(), t("sg.u")), ("v".into(), t("sg.v"))]))),
        Surplus::Plural => {
            e.push(("sp_one".into(), t("sp.one")));
            e.push(("sp_other".into(), t("sp.other")));
        }
        Surplus::LoneOther => e.push(("sort_other".into(), t("sort_other-surplus"))),
        Surplus::PluralUnusedForm => {
            e.push(("su_one".into(), t("su.one")));
            e.push(("su_two".into(), t("su.two")));
            e.push(("su_other".into(), t("su.other")));
        }
        _ => {}
    }
    e
}

pub fn run(tier: Tier) -> i32 {
    let rep = Reporter::new("C07", &engine_name("L1"), tier);
    let scratch = Scratch::new("c07");
    let keys_total = Mutex::new(0u64);
    let pats = all_patterns(true);
    let reduced = all_patterns(false);
    rep.count("patterns_per_locale", pats.len() as u64);

    // job descriptors are cheap; projects are built inside the workers
    #[derive(Clone)]
    struct J {
        fr: usize,
        de: Option<usize>,
        inherits: Vec<(String, String)>,
        ns: bool,
    }
    let mut jobs: Vec<J> = vec![];
    // two locales: all patterns x {no inherits, explicit inherits from the default} x {no namespaces, 2 namespaces}
    for i in 0..pats.len() {
        for inh in [vec![], vec![("fr".to_string(), "en".to_string())]] {
            jobs.push(J { fr: i, de: None, inherits: inh.clone(), ns: false });
            if i % 7 == 0 {
                jobs.push(J { fr: i, de: None, inherits: inh, ns: true });
            }
        }
    }
    if tier == Tier::Quick {
        // three locales in the quick tier too (an inheriting locale listed before a non-inheriting one
        // needs three): every 40th pattern for fr x reduced patterns for de x every inherits map
        let locs = ["en", "fr", "de"];
        let maps = crate::c03::inherits_maps(&locs);
        for i in (0..pats.len()).step_by(40) {
            for j in 0..reduced.len() {
                for m in &maps {
                    jobs.push(J { fr: i, de: Some(j), inherits: m.clone(), ns: false });
                }
            }
        }
    }
    if tier == Tier::Thorough {
        // three locales: all patterns for fr x reduced patterns for de x every inherits map
        let locs = ["en", "fr", "de"];
        let maps = crate::c03::inherits_maps(&locs);
        for i in 0..pats.len() {
            for j in 0..reduced.len() {
                for (mi, m) in maps.iter().enumerate() {
                    if (i + j + mi) % 3 != 0 {
                        continue;
                    }
                    jobs.push(J { fr: i, de: Some(j), inherits: m.clone(), ns: false });
                }
            }
        }
    }
    let classes = Mutex::new(BTreeMap::<String, u64>::new());
    let sample_projects = Mutex::new(Vec::<String>::new());
    par_for_chunked(jobs.len(), 64, |w, i| {
        let j = &jobs[i];
        let mut locales = vec!["en", "fr"];
        if j.de.is_some() {
            locales.push("de");
        }
        // the order the locales are declared in is not part of the data: the job index picks one of the n! orders
        // (the default first, in the middle, last)
        let perms = vmodel::enumerate::permutations(locales.len());
        let declared: Vec<&str> = perms[i % perms.len()].iter().map(|k| locales[*k]).collect();
        let mut cfg = Config::simple("en", &declared);
        cfg.inherits = j.inherits.clone();
        if j.ns {
            cfg = cfg.with_namespaces(&["one", "two"]);
        }
        let mut p = Project::new(cfg);
        let nss: Vec<Option<&str>> = if j.ns { vec![Some("one"), Some("two")] } else { vec![None] };
        for (ni, ns) in nss.iter().enumerate() {
            p.set_file(*ns, "en", default_entries("en"));
            // second namespace gets the mirrored pattern so that the two differ
            let fr_pat = &pats[(j.fr + ni * 97) % pats.len()];
            p.set_file(*ns, "fr", entries_for("fr", fr_pat));
            if let Some(d) = j.de {
                p.set_file(*ns, "de", entries_for("de", &reduced[d]));
            }
        }
        let (e, o) = check_project(&rep, "C07", "keysets", &p, &scratch.worker(w), &keys_total);
        rep.eval(1);
        let class = match (&e, &o) {
            (Expect::Accept, _) => "accept".to_string(),
            (Expect::Open(w), _) => format!("open: {w}"),
            (Expect::Reject(why), Outcome::Err { kind, .. }) => {
                if why.starts_with("SubKeyMissmatch") && kind != "SubKeyMissmatch" {
                    rep.violation(format!("C07/keysets: group/value mismatch rejected with {kind} instead of SubKeyMissmatch :: {}", p.describe()), json!({}));
                }
                "reject: SubKeyMissmatch".to_string()
            }
            (Expect::Reject(_), _) => "reject (not observed)".to_string(),
        };
        *classes.lock().unwrap().entry(class).or_insert(0) += 1;
        if i % 4001 == 0 {
            sample_projects.lock().unwrap().push(vmodel::report::truncate(&p.describe(), 500));
        }
    });
    rep.nontriv(jobs.len() as u64);
    for s in sample_projects.lock().unwrap().iter().take(4) {
        rep.sample(json!({"project": s}));
    }
    // ---- subkey GROUPS (and ranges) whose names end like plural forms (`tab_one` / `tab_two` / `tab_other` as maps):
    // only text values are plural forms - the groups stay the keys they are written as, a key missing inside one
    // and a surplus pair of them are reported under their own names; every presence pattern of the inner keys in fr
    {
        let grp = |l: &str, name: &str, with_hint: bool| {
            let mut e = vec![("title".to_string(), st(&format!("[{l}.{name}.title]")))];
            if with_hint {
                e.push(("hint".to_string(), s(vec![text(&format!("[{l}.{name}.hint]")), var("x")])));
            }
            Val::Sub(e)
        };
        let range = |l: &str, name: &str| {
            Val::Range(RangeDecl { ty: None, branches: vec![Branch { value: Box::new(st(&format!("[{l}.{name}.0]"))), counts: vec![CountSpec::UInt(0)], map_form: false, value_first: false }, Branch { value: Box::new(st(&format!("[{l}.{name}.fb]"))), counts: vec![], map_form: false, value_first: false }] })
        };
        let n = 1usize << 5;
        vmodel::par::par_for(n * 2, |w, i| {
            let bits = i % n;
            let namespaced = i / n == 1;
            let mut cfg = Config::simple("en", &["fr", "en"]);
            if namespaced {
                cfg = cfg.with_namespaces(&["two", "one"]);
            }
            let mut p = Project::new(cfg);
            let en = vec![
                ("item".to_string(), st("[en.item]")),
                ("tab_one".to_string(), grp("en", "tab_one", true)),
                ("tab_two".to_string(), grp("en", "tab_two", true)),
                ("tab_other".to_string(), grp("en", "tab_other", true)),
                ("rng_one".to_string(), range("en", "rng_one")),
                ("rng_other".to_string(), range("en", "rng_other")),
                ("title".to_string(), st("[en.title]")),
            ];
            let mut fr = vec![("item".to_string(), st("[fr.item]")), ("title".to_string(), st("[fr.title]"))];
            for (b, name) in ["tab_one", "tab_two", "tab_other"].iter().enumerate() {
                if bits >> b & 1 == 1 {
                    // (with the hint in one of them only: a key missing inside a group named like a form)
                    fr.push((name.to_string(), grp("fr", name, b != 2)));
                }
            }
            if bits >> 3 & 1 == 1 {
                fr.push(("rng_one".to_string(), range("fr", "rng_one")));
                fr.push(("rng_other".to_string(), range("fr", "rng_other")));
            }
            if bits >> 4 & 1 == 1 {
                // surplus groups named like forms
                fr.push(("panel_one".to_string(), grp("fr", "panel_one", false)));
                fr.push(("panel_other".to_string(), grp("fr", "panel_other", true)));
            }
            if namespaced {
                p.set_file(Some("one"), "en", en.clone());
                p.set_file(Some("one"), "fr", fr.clone());
                p.set_file(Some("two"), "en", vec![("a".to_string(), st("[en.two.a]"))]);
                p.set_file(Some("two"), "fr", vec![("a".to_string(), st("[fr.two.a]"))]);
            } else {
                p.set_file(None, "en", en);
                p.set_file(None, "fr", fr);
            }
            let (e, _) = check_project(&rep, "C07", "groups-named-like-forms", &p, &scratch.worker(w), &keys_total);
            if e != Expect::Accept {
                vmodel::report::machinery_fail(&format!("generator produced a project the model does not accept: {e:?}"));
            }
            rep.eval(1);
        });
        rep.count("projects_with_groups_named_like_plural_forms", (n * 2) as u64);
    }
    // ---- plural forms that live only inside subkey groups (one and two levels deep), in files whose top-level keys
    // are no forms at all - in both locales, in one of them only (the other writes the merged key's forms at top
    // level too / nothing plural at top level), with a form more or a form less in fr: merged the same way everywhere
    {
        let forms = |l: &str, k: &str, which: &[&str]| -> Vec<(String, Val)> { which.iter().map(|f| (format!("{k}_{f}"), s(vec![text(&format!("[{l}.{k}.{f}]")), var("count")]))).collect() };
        let variants: Vec<(&[&str], &[&str], bool, bool)> = vec![
            (&["one", "other"], &["one", "other"], false, false),
            (&["one", "other"], &["one", "many", "other"], false, false),
            (&["one", "other"], &["other"], false, false),
            (&["one", "other"], &["one", "other"], true, false),
            (&["one", "other"], &["one", "other"], false, true),
            (&["one", "few", "other"], &["one", "other"], true, true),
        ];
        let nv = variants.len();
        vmodel::par::par_for(nv * 2, |w, i| {
            let (en_forms, fr_forms, en_top, fr_top) = variants[i % nv];
            let deep = i / nv == 1;
            let mut p = Project::new(Config::simple("en", &["en", "fr"]));
            for (l, fs, top) in [("en", en_forms, en_top), ("fr", fr_forms, fr_top)] {
                let mut inner = forms(l, "items", fs);
                inner.push(("label".to_string(), st(&format!("[{l}.cart.label]"))));
                let cart = if deep { Val::Sub(vec![("box".to_string(), Val::Sub(inner)), ("label".to_string(), st(&format!("[{l}.cart.label2]")))]) } else { Val::Sub(inner) };
                let mut e = vec![("title".to_string(), st(&format!("[{l}.title]"))), ("cart".to_string(), cart)];
                // (a top-level plural in both or in none: the key set of the default decides what the other must hold)
                if en_top && fr_top || top && en_top {
                    e.extend(forms(l, "top", &["one", "other"]));
                } else if top {
                    // fr only: a surplus plural at top level
                    e.extend(forms(l, "extra", &["one", "other"]));
                }
                p.set_file(None, l, e);
            }
            let (e, _) = check_project(&rep, "C07", "forms-only-inside-groups", &p, &scratch.worker(w), &keys_total);
            if !matches!(e, Expect::Accept | Expect::Open(_)) {
                vmodel::report::machinery_fail(&format!("generator produced a project the model does not accept: {e:?}"));
            }
            rep.eval(1);
        });
        rep.count("projects_with_plural_forms_only_inside_groups", (nv * 2) as u64);
    }
    let mut cov = serde_json::Map::new();
    cov.insert("rule".into(), json!("default locale en holds {a, b, g.x, g.y, g.h.z, p_one/p_other}; per non-default locale every combination of: a in {value,null,absent}; g in {absent, null, value (swap), group with x,y in {value,null,absent} and h in {absent,null,value (swap), group with z in 3 states}}; p in {forms, null, absent, only p_one, plain value, only p_other}; surplus in {none, value, group, plural pair, inside g, default's value b as a group, a key ending in _other, a plural with a form its locale never selects}; the default locale also holds a plain key `kind_other`; x inherits {none, explicit to default} x declared order of the locales (every permutation, rotating with the job index: the default first / in the middle / last) x {no namespaces, two namespaces with different patterns}; thorough adds a third locale (reduced pattern set) with every inherits map; plus 64 projects whose default holds subkey groups and ranges named like plural forms (tab_one / tab_two / tab_other as maps, rng_one / rng_other as ranges) with every presence pattern of them in fr, a key missing inside one and a surplus pair panel_one / panel_other, flat and namespaced: they stay the keys they are written as; plus 12 projects whose plural forms live only inside subkey groups (one and two levels deep) of files without top-level forms, in both locales or with a top-level plural in one file only; oracle: exact multiset of MissingKey/SurplusKey/UnusedForm diagnostics, accessible key set == default's keys in every locale, SubKeyMissmatch for swaps, and every key rendered in every locale"));
    cov.insert("exhaustive".into(), json!(true));
    cov.insert("outcome_classes".into(), json!(*classes.lock().unwrap()));
    cov.insert("suppress_key_warnings_build".into(), json!(cfg!(feature = "suppress")));
    cov.insert("key_locale_comparisons".into(), json!(*keys_total.lock().unwrap()));
    rep.finish(cov, &[])
}
