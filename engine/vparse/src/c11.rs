//! C11 (L1 part): string tables vs the indices the trees hold, for arbitrary Unicode content.
//! (The index / count invariants are also checked for every project of every other L1 check.)

use crate::cmp::*;
use crate::obs::*;
use serde_json::json;
use std::sync::Mutex;
use vmodel::ast::*;
use vmodel::par::par_for;
use vmodel::{Reporter, Tier};

pub const NASTY: [char; 14] = ['"', '\\', '\u{0}', '\u{1}', '\u{1f}', '\u{7f}', '\u{a0}', '\u{ad}', '\u{200b}', '\u{2028}', '\u{feff}', '\u{301}', '\u{1f600}', 'a'];

pub fn run(tier: Tier) -> i32 {
    let rep = Reporter::new("C11", &engine_name("L1"), tier);
    let scratch = Scratch::new("c11");
    let keys_total = Mutex::new(0u64);
    // every Unicode scalar value (thorough) / every 7th plus all below U+3000 (quick)
    let mut chars: Vec<char> = vec![];
    for u in 0u32..=0x10ffff {
        if let Some(c) = char::from_u32(u) {
            if tier == Tier::Thorough || u < 0x3000 || u % 7 == 0 || (0xd7f0..0xe010).contains(&u) || u >= 0x10fff0 {
                chars.push(c);
            }
        }
    }
    let mut strings: Vec<String> = chars.iter().map(|c| c.to_string()).collect();
    let n_single = strings.len();
    for a in NASTY {
        for b in NASTY {
            strings.push(format!("{a}{b}"));
        }
    }
    for a in NASTY {
        strings.push(format!("x{a}y{a}"));
    }
    let chunk = 3000;
    let chunks: Vec<&[String]> = strings.chunks(chunk).collect();
    let variants: &[(bool, usize)] = &[(false, 0), (true, 1)];
    let mut jobs = vec![];
    for (ci, c) in chunks.iter().enumerate() {
        for (ascii_only, layout) in variants {
            if *ascii_only && build_format() != Format::Json {
                continue;
            }
            jobs.push((ci, *c, *ascii_only, *layout));
        }
    }
    par_for(jobs.len(), |w, i| {
        let (ci, c, ascii_only, layout) = jobs[i];
        let n = c.len();
        let mk = |j: usize| format!("k{j:05}");
        let en: Vec<(String, Val)> = c.iter().enumerate().map(|(j, s)| (mk(j), st(s))).collect();
        // fr: reversed assignment, every 5th key explicit null, every 7th an interpolation holding the string twice
        let fr: Vec<(String, Val)> = (0..n)
            .map(|j| {
                let sv = &c[n - 1 - j];
                let v = if j % 5 == 0 {
                    Val::Null
                } else if j % 7 == 0 {
                    s(vec![text(sv), var("x"), text(sv)])
                } else {
                    st(sv)
                };
                (mk(j), v)
            })
            .collect();
        let p = if layout == 0 {
            let mut p = Project::new(Config::simple("en", &["en", "fr"]));
            p.set_file(None, "en", en);
            p.set_file(None, "fr", fr);
            p
        } else {
            // nested subkeys + namespaces + a foreign key duplicating strings
            let mut p = Project::new(Config::simple("en", &["en", "fr"]).with_namespaces(&["a", "b"]));
            let wrap = |v: Vec<(String, Val)>| vec![("g".to_string(), Val::Sub(vec![("h".to_string(), Val::Sub(v)), ("dup".to_string(), st("dup"))])), ("top".to_string(), st("dup"))];
            p.set_file(Some("a"), "en", wrap(en.clone()));
            p.set_file(Some("a"), "fr", wrap(fr.clone()));
            p.set_file(Some("b"), "en", vec![("r".to_string(), s(vec![fk("a:top"), text("dup")])), ("t".to_string(), st("dup"))]);
            p.set_file(Some("b"), "fr", vec![("r".to_string(), Val::Null), ("t".to_string(), st("dup-fr"))]);
            p
        };
        let co = CheckOpts { counts: None, write: WriteOpts { format: build_format(), ascii_only } };
        let (e, o) = check_project_opts(&rep, "C11", if ascii_only { "escaped" } else { "raw" }, &p, &scratch.worker(w), &keys_total, co);
        if e != Expect::Accept {
            vmodel::report::machinery_fail(&format!("C11 project not acceptable to the model: {e:?}"));
        }
        // explicit table checks on top of the index invariants
        if let Outcome::Ok(parsed) = &o {
            for ns in &parsed.namespaces {
                if ns.string_nodes == 0 {
                    rep.violation(format!("C11: no string node visited in chunk {ci}"), json!({}));
                }
                for (loc, table) in &ns.strings {
                    let set: std::collections::BTreeSet<&String> = table.iter().collect();
                    if loc == "en" && layout == 0 {
                        let want: std::collections::BTreeSet<&String> = c.iter().collect();
                        if set != want {
                            let d: Vec<&&String> = want.symmetric_difference(&set).take(3).collect();
                            rep.violation(format!("C11: exported table of en differs from the literal set in chunk {ci}: e.g. {d:?}"), json!({}));
                        }
                    }
                }
            }
        }
        rep.eval(n as u64);
    });
    let n_sharing = sharing(&rep, &scratch, tier, &keys_total);
    rep.count("sharing_projects", n_sharing);
    let n_groups = group_states(&rep, &scratch, &keys_total);
    rep.count("group_state_projects", n_groups);
    // literal kinds mixed across locales: a key that is a number / bool / float in one locale and a string (or an
    // interpolation) in the others - every string among them must still be in its locale's table, at its index
    {
        let lits = |tag: &str| -> Vec<Val> { vec![Val::UInt(0), Val::Bool(true), Val::Float("1.5".into()), Val::Int(-3), st(&format!("[{tag}] gratuit")), s(vec![text(&format!("[{tag}] ")), var("x")]), Val::Null] };
        let n = lits("").len();
        let triples = vmodel::enumerate::tuples(n, 3);
        par_for(triples.len(), |w, i| {
            let t = &triples[i];
            if t[0] == n - 1 {
                return; // the default locale cannot hold null
            }
            let locs = ["en", "fr", "de"];
            let mut p = Project::new(Config::simple("en", &locs));
            for (li, l) in locs.iter().enumerate() {
                let v = lits(l)[t[li]].clone();
                let nested = lits(&format!("{l}.g"))[t[(li + 1) % 3].min(n - 2)].clone();
                p.set_file(None, l, vec![("first".into(), st(&format!("[{l}.first]"))), ("k".into(), v), ("g".into(), Val::Sub(vec![("k".into(), if li == 0 && nested == Val::Null { st("x") } else { nested })])), ("last".into(), st(&format!("[{l}.last]")))]);
            }
            check_project(rep_ref(&rep), "C11", "literal-mix", &p, &scratch.worker(w), &keys_total);
            rep.eval(1);
        });
        rep.count("literal_mix_projects", triples.len() as u64);
    }
    rep.nontriv(strings.len() as u64);
    rep.count("single_scalar_strings", n_single as u64);
    rep.sample(json!({"strings": strings.iter().skip(0x20).take(4).collect::<Vec<_>>()}));
    rep.sample(json!({"strings": strings.iter().skip(n_single).take(4).map(|s| s.escape_unicode().to_string()).collect::<Vec<_>>()}));
    let mut cov = serde_json::Map::new();
    cov.insert("rule".into(), json!(format!("every Unicode scalar value as a one-character translation (quick: all below U+3000, every 7th above, surrogate-gap and plane-16 edges; thorough: all 1 112 064), all 196 two-character strings over {:?} and 14 four-character mixes, {chunk} per project; plus every assignment of {{3 shared strings, an interpolation built from two of them, null}} to 2 keys (one nested) in 3 locales (thorough: 4), with and without an inherits entry, with one or two namespaces (the same literal in several locales, in several keys, across namespaces); every combination, over 4 locales, of a subkey group being written / written with other texts / null / absent per non-default locale x a table-size difference per locale x an inherits entry (sizes recorded for nested sub-locales must follow the locale they belong to); every assignment of 7 literal kinds (unsigned, bool, float, negative, string, interpolation, null) to one key (and a nested one) in 3 locales; layouts: two locales (reversed assignment, explicit nulls, interpolations repeating the string) and nested subkeys + two namespaces + a cross-namespace foreign key duplicating strings; JSON build also writes every non-ASCII char as \\\\uXXXX escapes (surrogate pairs); oracle: every Literal::String(s,i) reachable from a locale's keys has i < strings.len() and strings[i]==s, top_locale_string_count==strings.len() in the top locale and every nested sub-locale, table of en == the literal set, rendered text == source", NASTY.iter().map(|c| c.escape_unicode().to_string()).collect::<Vec<_>>())));
    cov.insert("exhaustive".into(), json!(tier == Tier::Thorough));
    cov.insert("front_end".into(), json!(build_format().name()));
    cov.insert("key_locale_comparisons".into(), json!(*keys_total.lock().unwrap()));
    rep.finish(cov, &["file written by the build helper and generated-code sizes are decided by the vbuild / L2 engines of this check"])
}


/// Every way literal text can be shared between keys, locales and namespaces: each (locale, key)
/// slot takes one of 5 values over a 3-string alphabet. The generic judge checks every index
/// against the table of the locale it belongs to and the rendered text of every key.
fn rep_ref(r: &Reporter) -> &Reporter {
    r
}

fn sharing(rep: &Reporter, scratch: &Scratch, tier: Tier, keys_total: &Mutex<u64>) -> u64 {
    let value = |d: usize| -> Val {
        match d {
            0 => st("A"),
            1 => st("B"),
            2 => st("C"),
            3 => s(vec![text("A"), var("x"), text("B")]),
            _ => Val::Null,
        }
    };
    let locale_sets: Vec<Vec<&str>> = if tier == Tier::Thorough { vec![vec!["en", "fr", "de"], vec!["en", "fr", "de", "it"]] } else { vec![vec!["en", "fr", "de"]] };
    let mut jobs = vec![];
    for (si, locs) in locale_sets.iter().enumerate() {
        let slots = locs.len() * 2;
        // 4 locales: the default's two slots are fixed to keep the space at 5^6
        let free = slots.min(6);
        for inh in 0..2 {
            for ns in 0..2 {
                jobs.push((si, free, inh, ns));
            }
        }
    }
    let total = Mutex::new(0u64);
    for (si, free, inh, ns) in jobs {
        let locs = &locale_sets[si];
        let combos = vmodel::enumerate::tuples(5, free);
        par_for(combos.len(), |w, i| {
            let t = &combos[i];
            let nl = locs.len();
            // slot (locale li, key ki): the last `free` slots vary, the leading ones (default locale when 4 locales) are "A","B"
            let fixed = nl * 2 - free;
            let digit = |li: usize, ki: usize| -> usize {
                let idx = li * 2 + ki;
                if idx < fixed {
                    idx % 2
                } else {
                    t[idx - fixed]
                }
            };
            // the default locale defines every key
            if (0..2).any(|ki| digit(0, ki) == 4) {
                return;
            }
            let mut cfg = Config::simple("en", locs);
            if inh == 1 {
                cfg = cfg.with_inherits(&[(locs[nl - 1], locs[1])]);
            }
            if ns == 1 {
                cfg = cfg.with_namespaces(&["a", "b"]);
            }
            let mut p = Project::new(cfg);
            for (li, l) in locs.iter().enumerate() {
                let k1 = ("k1".to_string(), value(digit(li, 0)));
                let k2 = ("g".to_string(), Val::Sub(vec![("k2".to_string(), value(digit(li, 1))), ("same".to_string(), st("A"))]));
                if ns == 1 {
                    p.set_file(Some("a"), l, vec![k1, ("other".to_string(), st("B"))]);
                    p.set_file(Some("b"), l, vec![k2]);
                } else {
                    p.set_file(None, l, vec![k1, k2]);
                }
            }
            let co = CheckOpts { counts: None, write: WriteOpts { format: build_format(), ascii_only: false } };
            let (e, _o) = check_project_opts(rep, "C11", "sharing", &p, &scratch.worker(w), keys_total, co);
            if e != Expect::Accept {
                vmodel::report::machinery_fail(&format!("C11 sharing project not acceptable to the model: {e:?} {}", p.describe()));
            }
            rep.eval(1);
            *total.lock().unwrap() += 1;
        });
    }
    let n = *total.lock().unwrap();
    n
}


/// A subkey group that is written, null or absent per locale, in locales whose tables have different sizes: the
/// string count recorded inside the group for every locale must be the size of THAT locale's table.
fn group_states(rep: &Reporter, scratch: &Scratch, keys_total: &Mutex<u64>) -> u64 {
    let locs = ["en", "fr", "de", "it"];
    // per non-default locale: group state (4) x how many extra strings its table holds (2)
    let combos = vmodel::enumerate::tuples(8, 3);
    let total = Mutex::new(0u64);
    for inh in 0..3 {
        par_for(combos.len(), |w, i| {
            let t = &combos[i];
            let mut cfg = Config::simple("en", &locs);
            match inh {
                1 => cfg = cfg.with_inherits(&[("it", "fr")]),
                2 => cfg = cfg.with_inherits(&[("de", "it"), ("fr", "de")]),
                _ => {}
            }
            let mut p = Project::new(cfg);
            let group = |l: &str, alt: bool| Val::Sub(vec![("x".to_string(), st(&format!("[{l}.g.x{}]", if alt { "'" } else { "" }))), ("h".to_string(), Val::Sub(vec![("z".to_string(), s(vec![text(&format!("[{l}.g.h.z]")), var("v"), text("tail")]))]))]);
            p.set_file(None, "en", vec![("k".to_string(), st("[en.k]")), ("g".to_string(), group("en", false))]);
            for (li, l) in locs.iter().enumerate().skip(1) {
                let d = t[li - 1];
                let mut e = vec![("k".to_string(), st(&format!("[{l}.k]")))];
                match d % 4 {
                    0 => e.push(("g".to_string(), group(l, false))),
                    1 => e.push(("g".to_string(), group(l, true))),
                    2 => e.push(("g".to_string(), Val::Null)),
                    _ => {}
                }
                if d / 4 == 1 {
                    // a bigger table for this locale
                    e.push(("k2".to_string(), s(vec![text(&format!("[{l}.k2.a]")), var("v"), text(&format!("[{l}.k2.b]"))])));
                }
                p.set_file(None, l, e);
            }
            let co = CheckOpts { counts: None, write: WriteOpts { format: build_format(), ascii_only: false } };
            let (e, _o) = check_project_opts(rep, "C11", "group-states", &p, &scratch.worker(w), keys_total, co);
            if e != Expect::Accept {
                vmodel::report::machinery_fail(&format!("C11 group-state project not acceptable to the model: {e:?} {}", p.describe()));
            }
            rep.eval(1);
            *total.lock().unwrap() += 1;
        });
    }
    let n = *total.lock().unwrap();
    n
}
