//! C01 (L1 half): every value forest up to a node bound parses to a tree that denotes exactly the
//! source: literal text verbatim and in order, variables and components in place.

use crate::cmp::*;
use crate::obs::*;
use serde_json::json;
use std::sync::Mutex;
use vmodel::ast::*;
use vmodel::enumerate::*;
use vmodel::model::*;
use vmodel::par::par_for;
use vmodel::{Reporter, Tier};

pub const PAYLOADS: [&str; 12] = ["", " ", "  ", "é", "🎉", "\u{a0}", "\"", "\\", "\n", ">", "}", "a b"];

/// A list of (value for en, value for fr) turned into packed two-locale projects.
pub struct Packed {
    pub project: Project,
}

pub fn pack(values: &[(Val, Val)], container: usize) -> Project {
    // container: 0 top level, 1 inside subkeys depth 2, 2 two namespaces (alternating)
    let mut en: Vec<(String, Val)> = vec![];
    let mut fr: Vec<(String, Val)> = vec![];
    for (i, (a, b)) in values.iter().enumerate() {
        en.push((format!("k{i}"), a.clone()));
        fr.push((format!("k{i}"), b.clone()));
    }
    match container {
        0 => {
            let mut p = Project::new(Config::simple("en", &["en", "fr"]));
            p.set_file(None, "en", en);
            p.set_file(None, "fr", fr);
            p
        }
        1 => {
            let mut p = Project::new(Config::simple("en", &["en", "fr"]));
            let wrap = |v: Vec<(String, Val)>| {
                vec![("g".to_string(), Val::Sub(vec![("x".to_string(), st("[decoy]")), ("h".to_string(), Val::Sub(v))])), ("k0".to_string(), st("[top-decoy]"))]
            };
            p.set_file(None, "en", wrap(en));
            p.set_file(None, "fr", wrap(fr));
            p
        }
        _ => {
            let mut p = Project::new(Config::simple("en", &["fr", "en"]).with_namespaces(&["first", "second"]));
            p.set_file(Some("first"), "en", en.clone());
            p.set_file(Some("first"), "fr", fr.clone());
            // the other namespace holds the same key names with swapped values
            p.set_file(Some("second"), "en", fr);
            p.set_file(Some("second"), "fr", en);
            p
        }
    }
}

pub fn run(tier: Tier) -> i32 {
    let rep = Reporter::new("C01", &engine_name("L1"), tier);
    let scratch = Scratch::new("c01");
    let keys_total = Mutex::new(0u64);
    let max_nodes = tier.pick(5, 6);
    let vars = ["x", "y"];
    let comps = ["b", "i"];

    // ---- part A: all forests ------------------------------------------------------------
    let mut values: Vec<(Val, Val)> = vec![];
    let mut per_size = vec![];
    for n in 1..=max_nodes {
        let fs = forests(n, &vars, &comps);
        per_size.push(fs.len());
        for (i, f) in fs.iter().enumerate() {
            let mut a = f.clone();
            let mut c = i;
            label_texts(&mut a, &format!("en{}", values.len()), &PAYLOADS, &mut c);
            let mut b: Vec<Seg> = f.iter().rev().cloned().collect();
            let mut c2 = i + 5;
            label_texts(&mut b, &format!("fr{}", values.len()), &PAYLOADS, &mut c2);
            values.push((s(a), s(b)));
        }
    }
    let n_forests = values.len();
    rep.count("forests", n_forests as u64);

    // ---- part B: whitespace variants, exhaustive on <= 2-node forests ----------------------
    let ws_vals: &[u8] = tier.pick(&[0, 1, 2, 4], &[0, 1, 2, 3, 4, 5]);
    let mut n_ws = 0u64;
    for n in 1..=2 {
        for f in forests(n, &["x"], &["b"]) {
            let has_comp = f.iter().any(|s| matches!(s, Seg::Comp { .. }));
            let has_var = count_vars_in(&f) > 0;
            if !has_comp && !has_var {
                continue;
            }
            let comp_combos = if has_comp { tuples(ws_vals.len(), 5) } else { vec![vec![0; 5]] };
            let var_combos = if has_var { tuples(ws_vals.len(), 2) } else { vec![vec![0; 2]] };
            for cc in &comp_combos {
                for vc in &var_combos {
                    let mut a = f.clone();
                    set_ws(&mut a, [ws_vals[cc[0]], ws_vals[cc[1]], ws_vals[cc[2]], ws_vals[cc[3]], ws_vals[cc[4]]], [ws_vals[vc[0]], ws_vals[vc[1]]]);
                    let mut b = a.clone();
                    let mut c = 0;
                    label_texts(&mut a, &format!("enW{}", values.len()), &["", "z"], &mut c);
                    label_texts(&mut b, &format!("frW{}", values.len()), &["", "z"], &mut c);
                    // a trailing text makes a wrongly placed cursor visible
                    a.push(text("|tail"));
                    b.insert(0, text("head|"));
                    values.push((s(a), s(b)));
                    n_ws += 1;
                }
            }
        }
    }
    rep.count("whitespace_variants", n_ws);

    // ---- part C: every ordered pair of payloads in every context ---------------------------
    let mut n_pay = 0u64;
    for p in PAYLOADS {
        for q in PAYLOADS {
            let t = |tag: &str| text(&format!("{p}[{tag}]{q}"));
            let ctxs: Vec<Vec<Seg>> = vec![
                vec![t("a")],
                vec![t("a"), var("x")],
                vec![var("x"), t("a")],
                vec![comp("b", vec![t("a")])],
                vec![t("a"), comp("b", vec![t("c")]), t("d")],
                vec![comp("b", vec![comp("b", vec![t("a")]), t("c")])],
                vec![var("x"), t("a"), var("y"), t("c"), comp("i", vec![var("x")])],
            ];
            for c in ctxs {
                let rev: Vec<Seg> = c.iter().rev().cloned().collect();
                values.push((s(c), s(rev)));
                n_pay += 1;
            }
        }
    }
    rep.count("payload_contexts", n_pay);

    // ---- part D: literal types ----------------------------------------------------------------
    let lits: Vec<Val> = vec![
        Val::UInt(0),
        Val::UInt(7),
        // the JSON5 front-end reads integers as i64 (json5 crate): larger ones are refused with an error,
        // which the statement does not forbid (number ranges of a front-end are not documented)
        Val::UInt(if build_format() == Format::Json5 { i64::MAX as u64 } else { u64::MAX }),
        Val::Int(-3),
        Val::Int(i64::MIN),
        Val::Float("1.5".into()),
        Val::Float("-2.25".into()),
        Val::Float("0.1".into()),
        Val::Float("20.0".into()),
        Val::Bool(true),
        Val::Bool(false),
        Val::Str(vec![]),
        st("7"),
        st("true"),
        st(" "),
    ];
    for a in &lits {
        for b in &lits {
            values.push((a.clone(), b.clone()));
        }
    }
    rep.count("literal_pairs", (lits.len() * lits.len()) as u64);

    // ---- build packed projects; the forest part goes through all three containers -------------
    let chunk = 200;
    let mut projects: Vec<(String, Project)> = vec![];
    for (ci, cname) in ["top", "subkeys", "namespaces"].iter().enumerate() {
        for (j, c) in values.chunks(chunk).enumerate() {
            // containers 1 and 2 only for a thinned subset in the quick tier
            if ci > 0 && tier == Tier::Quick && j % 4 != 0 {
                continue;
            }
            projects.push((cname.to_string(), pack(c, ci)));
        }
    }
    // wide values (many segments) — the generator's tuple chunking is an L3 matter; here the parser
    for width in [27usize, 60, 200] {
        let mut segs = vec![];
        for i in 0..width {
            segs.push(text(&format!("[w{width}.{i}]")));
            segs.push(if i % 3 == 2 { comp("b", vec![var("y")]) } else { var("x") });
        }
        let rev: Vec<Seg> = segs.iter().rev().cloned().collect();
        projects.push(("wide".into(), pack(&[(s(segs), s(rev))], 0)));
    }

    // "in the effective locale ... nothing taken from another locale": the value kinds under every inherits map of a
    // four-locale set (the generator of the C03 check: presence patterns, groups, values rendering as nothing)
    {
        let locs = ["en", "fr", "de", "it"];
        for m in vmodel::gen::inherits_maps(&locs) {
            let (mut p, _) = vmodel::gen::build_project(&locs, &m);
            // (the locales declared in every order, rotating with the map index: which locale a value is taken from
            // does not depend on where the default stands in the list)
            let perms = vmodel::enumerate::permutations(locs.len());
            let perm = &perms[projects.len() % perms.len()];
            p.cfg.locales = Some(perm.iter().map(|k| locs[*k].to_string()).collect());
            projects.push(("inherits".into(), p));
        }
    }

    // numbers and booleans that enter a text through a reference (a key that is a number, a numeric / boolean
    // argument) stand where the reference stands: first, between variables, next to each other
    {
        let mut p = Project::new(Config::simple("en", &["en", "fr"]));
        for (l, n, neg, f, flag) in [("en", 7u64, -3i64, "1.5", true), ("fr", 9, -40, "2.25", false)] {
            p.set_file(
                None,
                l,
                vec![
                    ("n".into(), Val::UInt(n)),
                    ("neg".into(), Val::Int(neg)),
                    ("f".into(), Val::Float(f.into())),
                    ("flag".into(), Val::Bool(flag)),
                    ("s0".into(), s(vec![var("x"), text(&format!("[{l}.s0] tail"))])),
                    ("s1".into(), s(vec![var("y"), var("x"), text(&format!("[{l}.s1]")), var("x")])),
                    ("r1".into(), s(vec![fk("n"), text(&format!(" [{l}.r1] apples"))])),
                    ("r2".into(), s(vec![var("z"), fk("flag"), text(&format!(" [{l}.r2] end"))])),
                    ("r3".into(), s(vec![fk("n"), fk("flag"), fk("f"), fk("neg"), text(&format!(" [{l}.r3]"))])),
                    ("r4".into(), s(vec![fk_args("s0", vec![("x", FkArg::UInt(12))]), text(&format!(" [{l}.r4] after"))])),
                    ("r5".into(), s(vec![fk_args("s0", vec![("x", FkArg::Bool(true))])])),
                    ("r6".into(), s(vec![fk_args("s1", vec![("x", FkArg::Int(-5)), ("y", FkArg::Float("0.5".into()))])])),
                    ("r7".into(), s(vec![text(&format!("[{l}.r7] ")), fk("neg"), text(" mid "), fk("f")])),
                    // arguments reach the variable wherever the target holds it: inside a component, inside a nested one,
                    // inside and outside at once, renamed on the way
                    ("gc".into(), s(vec![text(&format!("[{l}.gc] ")), comp("b", vec![var("name")]), text(", welcome "), var("name"), text("!")])),
                    ("gn".into(), s(vec![comp("b", vec![text(&format!("[{l}.gn] ")), comp("i", vec![var("who"), text(" / "), var("name")])])])),
                    ("a1".into(), s(vec![fk_args("gc", vec![("name", FkArg::Str(vec![text("Bob")]))])])),
                    ("a2".into(), s(vec![text("<"), fk_args("gn", vec![("name", FkArg::UInt(3)), ("who", FkArg::Str(vec![var("other")]))]), text(">")])),
                    ("a3".into(), s(vec![fk_args("gn", vec![("who", FkArg::Str(vec![text("W")]))])])),
                    // white space right after a reference - with and without an argument object - at the end of the
                    // value, before more text, and at both ends
                    ("w1".into(), s(vec![text(&format!("[{l}.w1] ")), fk_args("s0", vec![("x", FkArg::UInt(5))]), text(" ")])),
                    ("w2".into(), s(vec![text(&format!("[{l}.w2] ")), fk_args("s0", vec![("x", FkArg::Str(vec![text("v")]))]), text("\n")])),
                    ("w3".into(), s(vec![text(" "), fk("n"), text("  ")])),
                    ("w4".into(), s(vec![fk_args("s0", vec![("x", FkArg::UInt(5))]), text(" \t "), fk_args("s0", vec![("x", FkArg::UInt(6))]), text("  ")])),
                    ("w5".into(), s(vec![fk_args("s0", vec![("x", FkArg::UInt(5))]), text(&format!("  [{l}.w5] more  "))])),
                ],
            );
        }
        projects.push(("literal-references".into(), p));
    }

    let n_values = values.len();
    par_for(projects.len(), |w, i| {
        let (part, p) = &projects[i];
        let (e, _) = check_project(&rep, "C01", part, p, &scratch.worker(w), &keys_total);
        if e != Expect::Accept {
            vmodel::report::machinery_fail(&format!("generator produced a project the model does not accept: {e:?}"));
        }
        rep.eval(p.files.values().map(|f| count_leaves(f)).sum::<u64>());
    });
    rep.nontriv(n_values as u64);
    if let Some((_, p)) = projects.first() {
        let f = p.files.values().next().unwrap();
        for (k, v) in f.iter().skip(40).take(3) {
            rep.sample(json!({"key": k, "value_source": val_json(v)}));
        }
    }
    if let Some((_, p)) = projects.last() {
        rep.sample(json!({"project": vmodel::report::truncate(&p.describe(), 300)}));
    }
    let mut cov = serde_json::Map::new();
    cov.insert("rule".into(), json!(format!(
        "every forest of Text|Var{{x,y}}|Comp{{b,i}} with <= {max_nodes} nodes (sizes {per_size:?}), labelled with self-identifying text and rotating payloads {:?}; every whitespace combination at the 5 tag and 2 variable positions on <= 2-node forests; every ordered payload pair in 7 contexts; all pairs of 14 literal values; the value kinds under every inherits map of a four-locale set declared in every order (625 projects: presence patterns, groups, values rendering as nothing); a project whose texts take numbers and booleans in through references (keys that are numbers, numeric / boolean arguments) at the start, between variables, side by side; each value placed at top level, in subkeys depth 3 and in two namespaces with swapped values; distinct_nontrivial = distinct (en,fr) value pairs", PAYLOADS)));
    cov.insert("exhaustive".into(), json!(true));
    cov.insert("bound".into(), json!({"max_nodes": max_nodes, "ws_values": ws_vals.len(), "projects": projects.len(), "keys_per_project": chunk}));
    cov.insert("key_locale_comparisons".into(), json!(*keys_total.lock().unwrap()));
    cov.insert("front_end".into(), json!(build_format().name()));
    rep.finish(cov, &["the tree evaluator reads Literal::String through Locale.strings exactly as generated code does", "text alphabet excludes lone '<', '{{' and '$t(' (no documented escape)"])
}

fn count_vars_in(f: &[Seg]) -> usize {
    f.iter()
        .map(|s| match s {
            Seg::Var { .. } => 1,
            Seg::Comp { children, .. } => count_vars_in(children),
            _ => 0,
        })
        .sum()
}

pub fn count_leaves(entries: &[(String, Val)]) -> u64 {
    entries
        .iter()
        .map(|(_, v)| match v {
            Val::Sub(s) => count_leaves(s),
            _ => 1,
        })
        .sum()
}
