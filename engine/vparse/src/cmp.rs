//! Generic comparison of an L1 observation with the reference model.

use crate::obs::*;
use std::collections::{BTreeMap, BTreeSet};
use vmodel::ast::*;
use vmodel::model::*;

#[derive(Debug, Clone)]
pub struct Disc {
    pub ns: Option<String>,
    pub path: Vec<String>,
    pub loc: String,
    pub what: String,
}

impl Disc {
    pub fn new(ns: &Option<String>, path: &[String], loc: &str, what: String) -> Disc {
        Disc { ns: ns.clone(), path: path.to_vec(), loc: loc.to_string(), what }
    }
}

#[derive(Debug, Clone, PartialEq, Eq)]
pub enum Expect {
    /// the project must load; every key is compared
    Accept,
    /// the project must be rejected with an error (never a panic)
    Reject(String),
    /// statements leave it open: anything but a panic
    Open(String),
}

/// What the statements say about loading this project (foreign keys, plurals).
pub fn expectation(m: &Model) -> Expect {
    if let Some(e) = m.first_merge_err() {
        return match e {
            MergeErr::Unspecified(p) => Expect::Open(format!("plural merge unspecified at {}", p.join("."))),
            MergeErr::Conflicting(p) => Expect::Reject(format!("ConflictingPluralRuleType at {}", p.join("."))),
            MergeErr::AtNormalKey(p) => Expect::Reject(format!("PluralsAtNormalKey at {}", p.join("."))),
        };
    }
    let mut open = None;
    // every value of every locale file is resolved by the loader (also surplus keys hold $t)
    for ns in m.namespaces() {
        for loc in &m.locales {
            let Some(tree) = m.tree(&ns, loc) else { continue };
            let mut paths = vec![];
            collect_paths(tree, &mut vec![], &mut paths);
            for p in paths {
                if !m.defines(&ns, loc, &p) {
                    continue;
                }
                match m.resolve(&ns, loc, &p) {
                    Ok(_) => {}
                    Err(MErr::Unspecified { why }) => open = Some(why),
                    Err(e) => return Expect::Reject(format!("{e:?}")),
                }
            }
        }
    }
    match open {
        Some(w) => Expect::Open(w),
        None => Expect::Accept,
    }
}

pub fn collect_paths(m: &BTreeMap<String, MV>, pre: &mut Vec<String>, out: &mut Vec<Vec<String>>) {
    for (k, v) in m {
        pre.push(k.clone());
        match v {
            MV::Sub(s) => collect_paths(s, pre, out),
            _ => out.push(pre.clone()),
        }
        pre.pop();
    }
}

/// numbers worth trying as counts for this tree
pub fn interesting_counts(rs: &[R], out: &mut BTreeSet<i128>, floats: &mut Vec<f64>) {
    for r in rs {
        match r {
            R::Comp { inner, .. } => interesting_counts(inner, out, floats),
            R::Range { ty, branches, .. } => {
                for (counts, v) in branches {
                    for c in counts {
                        if let Ok(specs) = parse_count_spec(*ty, c) {
                            for s in specs {
                                let mut push = |n: Num| match n {
                                    Num::I(i) => {
                                        out.extend([i - 1, i, i + 1]);
                                    }
                                    Num::F(f) => floats.extend([f, f - 0.5, f + 0.5]),
                                };
                                match s {
                                    Spec1::Exact(n) => push(n),
                                    Spec1::Range { lo, hi } => {
                                        if let Some(l) = lo {
                                            push(l)
                                        }
                                        if let Some((h, _)) = hi {
                                            push(h)
                                        }
                                    }
                                    Spec1::Fallback => {}
                                }
                            }
                        }
                    }
                    interesting_counts(v, out, floats);
                }
            }
            R::Plural { forms, .. } => {
                out.extend([0, 1, 2, 3, 5, 11, 21, 100]);
                for v in forms.values() {
                    interesting_counts(v, out, floats);
                }
            }
            _ => {}
        }
    }
}

fn count_vars(rs: &[R], out: &mut BTreeMap<String, Option<NumTy>>) {
    for r in rs {
        match r {
            R::Comp { inner, .. } => count_vars(inner, out),
            R::Range { count, ty, branches } => {
                out.insert(count.clone(), Some(*ty));
                for (_, v) in branches {
                    count_vars(v, out);
                }
            }
            R::Plural { count, forms, .. } => {
                out.entry(count.clone()).or_insert(None);
                for v in forms.values() {
                    count_vars(v, out);
                }
            }
            _ => {}
        }
    }
}

/// Environments under which two trees are compared: marker variables, every interesting count
/// (same value for all count variables, plus staggered values when there are several).
pub fn envs_for(a: &[R], b: &[R]) -> Vec<Env> {
    let mut cv = BTreeMap::new();
    count_vars(a, &mut cv);
    count_vars(b, &mut cv);
    if cv.is_empty() {
        return vec![Env::marker()];
    }
    let mut ints = BTreeSet::new();
    let mut floats = vec![];
    interesting_counts(a, &mut ints, &mut floats);
    interesting_counts(b, &mut ints, &mut floats);
    ints.extend([0, 1, 2]);
    let any_float = cv.values().any(|t| matches!(t, Some(t) if t.is_float()));
    let mut envs = vec![];
    let mut values: Vec<Num> = ints.iter().map(|i| Num::I(*i)).collect();
    if any_float {
        values = values.into_iter().map(|n| if let Num::I(i) = n { Num::F(i as f64) } else { n }).collect();
        values.extend(floats.iter().map(|f| Num::F(*f)));
    }
    for (k, n) in values.iter().enumerate() {
        let mut e = Env::marker();
        e.default_count = Some(*n);
        envs.push(e);
        if cv.len() > 1 {
            let mut e = Env::marker();
            for (j, name) in cv.keys().enumerate() {
                e.counts.insert(name.clone(), values[(k + j) % values.len()]);
            }
            envs.push(e);
        }
    }
    envs
}

/// Render under an env where counts out of a type's range are simply skipped.
pub fn render_opt(rs: &[R], env: &Env) -> Option<Result<String, RenderErr>> {
    match render(rs, env) {
        Err(RenderErr::NoCount(_)) => None,
        r => Some(r),
    }
}

pub struct CmpStats {
    pub keys_compared: u64,
    pub renders: u64,
    pub defaulted: u64,
}

/// Compare an accepted project: key set, effective locales, rendered text of every key in every locale.
pub fn compare_accepted(m: &Model, parsed: &Parsed, stats: &mut CmpStats) -> Vec<Disc> {
    let mut out = vec![];
    for ns in m.namespaces() {
        let Some(nso) = parsed.ns(&ns) else {
            out.push(Disc::new(&ns, &[], "", format!("namespace {:?} missing from the result", ns)));
            continue;
        };
        if nso.locales != m.locales {
            out.push(Disc::new(&ns, &[], "", format!("locale order {:?}, expected {:?}", nso.locales, m.locales)));
        }
        let expected_keys: BTreeSet<Vec<String>> = m.default_keys(&ns).into_iter().collect();
        let observed_keys: BTreeSet<Vec<String>> = nso.keys.keys().cloned().collect();
        for k in expected_keys.difference(&observed_keys) {
            out.push(Disc::new(&ns, k, "", "key of the default locale is not accessible".to_string()));
        }
        for k in observed_keys.difference(&expected_keys) {
            out.push(Disc::new(&ns, k, "", "accessible key is not a key of the default locale".to_string()));
        }
        for issue in &nso.string_issues {
            out.push(Disc::new(&ns, &[], "", format!("string table: {issue}")));
        }
        for path in expected_keys.intersection(&observed_keys) {
            let ko = &nso.keys[path];
            for loc in &m.locales {
                stats.keys_compared += 1;
                let eff = m.effective_locale(&ns, loc, path);
                let Some(oeff) = ko.eff.get(loc) else {
                    out.push(Disc::new(&ns, path, loc, "locale missing from the key's locales".to_string()));
                    continue;
                };
                if eff != *loc {
                    stats.defaulted += 1;
                }
                let expected = match m.resolve(&ns, loc, path) {
                    Ok(r) => r,
                    Err(e) => {
                        out.push(Disc::new(&ns, path, loc, format!("model cannot resolve an accepted key: {e:?}")));
                        continue;
                    }
                };
                let Some(otree) = ko.trees.get(oeff) else {
                    out.push(Disc::new(&ns, path, loc, format!("effective locale {oeff} has no value (expected value of {eff})")));
                    continue;
                };
                let mut mismatch = None;
                for env in envs_for(&expected, otree) {
                    stats.renders += 1;
                    let e = render_opt(&expected, &env);
                    let o = render_opt(otree, &env);
                    let (Some(e), Some(o)) = (e, o) else { continue };
                    if e != o {
                        mismatch = Some(format!(
                            "count={:?}{} expected {:?} observed {:?}",
                            env.default_count,
                            if env.counts.is_empty() { String::new() } else { format!(" {:?}", env.counts) },
                            e,
                            o
                        ));
                        break;
                    }
                }
                if let Some(mm) = mismatch {
                    out.push(Disc::new(&ns, path, loc, format!("text differs (value taken from {oeff}, expected from {eff}): {mm}")));
                } else if *oeff != eff {
                    // same text but another source locale: only a discrepancy if the two sources differ,
                    // which the rendered text already decides (tags are self-identifying) — report it
                    // when the observed source is not even on the chain
                    out.push(Disc::new(&ns, path, loc, format!("value taken from {oeff}, expected from {eff} (same text)")));
                }
            }
        }
    }
    out
}

/// Source text of the value at (ns, loc, path) for violation keys.
pub fn source_of(p: &Project, ns: &Option<String>, loc: &str, path: &[String]) -> String {
    fn find<'a>(entries: &'a [(String, Val)], path: &[String]) -> Option<&'a Val> {
        let (k, rest) = path.split_first()?;
        // plural base key: show all its forms
        let v = entries.iter().find(|(n, _)| n.trim() == k)?;
        if rest.is_empty() {
            Some(&v.1)
        } else if let Val::Sub(s) = &v.1 {
            find(s, rest)
        } else {
            None
        }
    }
    match p.files.get(&(ns.clone(), loc.to_string())) {
        None => "<no file>".into(),
        Some(entries) => match find(entries, path) {
            Some(v) => val_json(v),
            None => {
                // maybe a plural: list keys with that base
                let mut parent: &[(String, Val)] = entries;
                for k in &path[..path.len().saturating_sub(1)] {
                    match parent.iter().find(|(n, _)| n == k) {
                        Some((_, Val::Sub(s))) => parent = s,
                        _ => return "<absent>".into(),
                    }
                }
                let base = path.last().cloned().unwrap_or_default();
                let forms: Vec<String> = parent
                    .iter()
                    .filter(|(n, _)| matches!(split_plural_key(n), Some((b, _, _)) if b == base))
                    .map(|(n, v)| format!("{n}: {}", val_json(v)))
                    .collect();
                if forms.is_empty() {
                    "<absent>".into()
                } else {
                    format!("{{{}}}", forms.join(", "))
                }
            }
        },
    }
}
