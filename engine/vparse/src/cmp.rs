//! Generic comparison of an L1 observation with the reference model.

use crate::obs::*;
use serde_json::json;
use std::sync::Mutex;
use vmodel::Reporter;
use std::collections::{BTreeMap, BTreeSet};
use vmodel::ast::*;
use vmodel::model::*;

#[derive(Debug, Clone)]
pub struct Disc {
    pub ns: Option<String>,
    pub path: Vec<String>,
    pub loc: String,
    pub what: String,
}

impl Disc {
    pub fn new(ns: &Option<String>, path: &[String], loc: &str, what: String) -> Disc {
        Disc { ns: ns.clone(), path: path.to_vec(), loc: loc.to_string(), what }
    }
}

#[derive(Debug, Clone, PartialEq, Eq)]
pub enum Expect {
    /// the project must load; every key is compared
    Accept,
    /// the project must be rejected with an error (never a panic)
    Reject(String),
    /// statements leave it open: anything but a panic
    Open(String),
}

/// What the statements say about loading this project (foreign keys, plurals).
pub fn expectation(m: &Model) -> Expect {
    if let Some(e) = m.first_merge_err() {
        return match e {
            MergeErr::Unspecified(p) => Expect::Open(format!("plural merge unspecified at {}", p.join("."))),
            MergeErr::Conflicting(p) => Expect::Reject(format!("ConflictingPluralRuleType at {}", p.join("."))),
            MergeErr::AtNormalKey(p) => Expect::Reject(format!("PluralsAtNormalKey at {}", p.join("."))),
        };
    }
    // C07: `null` in the default locale, and a subkey group in one locale vs a value in another
    fn has_null(t: &BTreeMap<String, MV>) -> bool {
        t.values().any(|v| match v {
            MV::Null => true,
            MV::Sub(s) => has_null(s),
            _ => false,
        })
    }
    fn mismatch(def: &BTreeMap<String, MV>, loc: &BTreeMap<String, MV>, pre: &mut Vec<String>) -> Option<String> {
        for (k, dv) in def {
            pre.push(k.clone());
            let r = match (dv, loc.get(k)) {
                (_, None) | (_, Some(MV::Null)) => None,
                (MV::Sub(ds), Some(MV::Sub(ls))) => mismatch(ds, ls, pre),
                (MV::Sub(_), Some(_)) | (_, Some(MV::Sub(_))) => Some(pre.join(".")),
                _ => None,
            };
            pre.pop();
            if r.is_some() {
                return r;
            }
        }
        None
    }
    for ns in m.namespaces() {
        if let Some(def) = m.tree(&ns, &m.default) {
            if has_null(def) {
                return Expect::Reject("ExplicitDefaultInDefault".into());
            }
            for loc in m.locales.iter().skip(1) {
                if let Some(t) = m.tree(&ns, loc) {
                    if let Some(at) = mismatch(def, t, &mut vec![]) {
                        return Expect::Reject(format!("SubKeyMissmatch at {at} in {loc}"));
                    }
                }
            }
        }
    }
    let mut open = None;
    for entries in m.project.files.values() {
        match ranges_status(entries) {
            DeclStatus::Accept => {}
            DeclStatus::Reject(w) => return Expect::Reject(w),
            DeclStatus::Open(w) => open = Some(w),
        }
    }
    // every value of every locale file is resolved by the loader (also surplus keys hold $t)
    for ns in m.namespaces() {
        for loc in &m.locales {
            let Some(tree) = m.tree(&ns, loc) else { continue };
            let mut paths = vec![];
            collect_paths(tree, &mut vec![], &mut paths);
            for p in paths {
                if !m.defines(&ns, loc, &p) {
                    continue;
                }
                match m.resolve(&ns, loc, &p) {
                    Ok(_) => {}
                    Err(MErr::Unspecified { why }) => open = Some(why),
                    Err(e) => return Expect::Reject(format!("{e:?}")),
                }
            }
        }
    }
    // C08: one count variable typed two ways (across locales or inside one value) is an error
    for ns in m.namespaces() {
        for path in m.default_keys(&ns) {
            let mut sig = Sig::default();
            for loc in &m.locales {
                if m.defines(&ns, loc, &path) {
                    if let Ok(r) = m.resolve(&ns, loc, &path) {
                        sig.merge(&signature(&r));
                    }
                }
            }
            for (v, kinds) in &sig.counts {
                if kinds.len() > 1 {
                    let mix = kinds.contains(&CountKind::Plural);
                    return Expect::Reject(format!("{} for count variable {v} at {}", if mix { "RangeAndPluralsMix" } else { "RangeTypeMissmatch" }, path.join(".")));
                }
            }
        }
    }
    match open {
        Some(w) => Expect::Open(w),
        None => Expect::Accept,
    }
}

pub fn collect_paths(m: &BTreeMap<String, MV>, pre: &mut Vec<String>, out: &mut Vec<Vec<String>>) {
    for (k, v) in m {
        pre.push(k.clone());
        match v {
            MV::Sub(s) => collect_paths(s, pre, out),
            _ => out.push(pre.clone()),
        }
        pre.pop();
    }
}

/// numbers worth trying as counts for this tree
pub fn interesting_counts(rs: &[R], out: &mut BTreeSet<i128>, floats: &mut Vec<f64>) {
    for r in rs {
        match r {
            R::Comp { inner, .. } => interesting_counts(inner, out, floats),
            R::Range { ty, branches, .. } => {
                for (counts, v) in branches {
                    for c in counts {
                        if let Ok(specs) = parse_count_spec(*ty, c) {
                            for s in specs {
                                let mut push = |n: Num| match n {
                                    Num::I(i) => {
                                        out.extend([i - 1, i, i + 1]);
                                    }
                                    Num::F(f) => floats.extend([f, f - 0.5, f + 0.5]),
                                };
                                match s {
                                    Spec1::Exact(n) => push(n),
                                    Spec1::Range { lo, hi } => {
                                        if let Some(l) = lo {
                                            push(l)
                                        }
                                        if let Some((h, _)) = hi {
                                            push(h)
                                        }
                                    }
                                    Spec1::Fallback => {}
                                }
                            }
                        }
                    }
                    interesting_counts(v, out, floats);
                }
            }
            R::Plural { forms, .. } => {
                out.extend([0, 1, 2, 3, 5, 11, 21, 100]);
                for v in forms.values() {
                    interesting_counts(v, out, floats);
                }
            }
            _ => {}
        }
    }
}

fn count_vars(rs: &[R], out: &mut BTreeMap<String, Option<NumTy>>) {
    for r in rs {
        match r {
            R::Comp { inner, .. } => count_vars(inner, out),
            R::Range { count, ty, branches } => {
                out.insert(count.clone(), Some(*ty));
                for (_, v) in branches {
                    count_vars(v, out);
                }
            }
            R::Plural { count, forms, .. } => {
                out.entry(count.clone()).or_insert(None);
                for v in forms.values() {
                    count_vars(v, out);
                }
            }
            _ => {}
        }
    }
}

/// Environments under which two trees are compared: marker variables, every interesting count
/// (same value for all count variables, plus staggered values when there are several).
pub fn envs_for(a: &[R], b: &[R]) -> Vec<Env> {
    let mut cv = BTreeMap::new();
    count_vars(a, &mut cv);
    count_vars(b, &mut cv);
    if cv.is_empty() {
        return vec![Env::marker()];
    }
    let mut ints = BTreeSet::new();
    let mut floats = vec![];
    interesting_counts(a, &mut ints, &mut floats);
    interesting_counts(b, &mut ints, &mut floats);
    ints.extend([0, 1, 2]);
    let any_float = cv.values().any(|t| matches!(t, Some(t) if t.is_float()));
    let mut envs = vec![];
    let mut values: Vec<Num> = ints.iter().map(|i| Num::I(*i)).collect();
    if any_float {
        values = values.into_iter().map(|n| if let Num::I(i) = n { Num::F(i as f64) } else { n }).collect();
        values.extend(floats.iter().map(|f| Num::F(*f)));
    }
    for (k, n) in values.iter().enumerate() {
        let mut e = Env::marker();
        e.default_count = Some(*n);
        envs.push(e);
        if cv.len() > 1 {
            let mut e = Env::marker();
            for (j, name) in cv.keys().enumerate() {
                e.counts.insert(name.clone(), values[(k + j) % values.len()]);
            }
            envs.push(e);
        }
    }
    envs
}

pub fn has_counts(rs: &[R]) -> bool {
    let mut cv = BTreeMap::new();
    count_vars(rs, &mut cv);
    !cv.is_empty()
}

/// Render under an env where counts out of a type's range are simply skipped.
pub fn render_opt(rs: &[R], env: &Env) -> Option<Result<String, RenderErr>> {
    match render(rs, env) {
        Err(RenderErr::NoCount(_)) => None,
        r => Some(r),
    }
}

/// C07 / C05: the exact multiset of diagnostics the statements call for.
/// Format matches `Parsed::warnings`.
pub fn expected_diagnostics(m: &Model, suppress: bool) -> Vec<String> {
    fn kp(ns: &Option<String>, path: &[String]) -> String {
        match ns {
            Some(n) => format!("{n}::{}", path.join(".")),
            None => path.join("."),
        }
    }
    fn unused(m: &BTreeMap<String, MV>, ns: &Option<String>, loc: &str, pre: &mut Vec<String>, out: &mut Vec<String>) {
        for (k, v) in m {
            pre.push(k.clone());
            match v {
                MV::Sub(s) => unused(s, ns, loc, pre, out),
                MV::Plural { ordinal, forms } => {
                    let cats = categories(loc, *ordinal);
                    for f in forms.keys() {
                        if *f != Form::Other && !cats.contains(f) {
                            out.push(format!("UnusedForm|{loc}|{}|_{}|{}", kp(ns, pre), f.suffix(), if *ordinal { "ordinal" } else { "cardinal" }));
                        }
                    }
                }
                _ => {}
            }
            pre.pop();
        }
    }
    fn missing_surplus(
        def: &BTreeMap<String, MV>,
        loc_tree: &BTreeMap<String, MV>,
        ns: &Option<String>,
        loc: &str,
        report_missing: bool,
        report_surplus: bool,
        pre: &mut Vec<String>,
        out: &mut Vec<String>,
    ) {
        for (k, dv) in def {
            pre.push(k.clone());
            match loc_tree.get(k) {
                None => {
                    if report_missing {
                        out.push(format!("Missing|{loc}|{}", kp(ns, pre)));
                    }
                }
                Some(MV::Sub(ls)) => {
                    if let MV::Sub(ds) = dv {
                        missing_surplus(ds, ls, ns, loc, report_missing, report_surplus, pre, out);
                    }
                }
                Some(_) => {}
            }
            pre.pop();
        }
        if report_surplus {
            for k in loc_tree.keys() {
                if !def.contains_key(k) {
                    pre.push(k.clone());
                    out.push(format!("Surplus|{loc}|{}", kp(ns, pre)));
                    pre.pop();
                }
            }
        }
    }
    let mut out = vec![];
    for ns in m.namespaces() {
        for loc in &m.locales {
            if let Some(t) = m.tree(&ns, loc) {
                unused(t, &ns, loc, &mut vec![], &mut out);
            }
        }
        let Some(def) = m.tree(&ns, &m.default) else { continue };
        for loc in m.locales.iter().skip(1) {
            let Some(t) = m.tree(&ns, loc) else { continue };
            let inherits = m.project.cfg.inherits_of(loc).is_some();
            missing_surplus(def, t, &ns, loc, !inherits && !suppress, !suppress, &mut vec![], &mut out);
        }
    }
    out.sort();
    out
}

pub struct CmpStats {
    pub keys_compared: u64,
    pub renders: u64,
    pub defaulted: u64,
}

/// Compare an accepted project: key set, effective locales, rendered text of every key in every locale.
pub fn compare_accepted(m: &Model, parsed: &Parsed, stats: &mut CmpStats, counts: Option<&[Num]>) -> Vec<Disc> {
    let mut out = vec![];
    let exp_diag = expected_diagnostics(m, cfg!(feature = "suppress"));
    if exp_diag != parsed.warnings {
        let e: BTreeSet<&String> = exp_diag.iter().collect();
        let o: BTreeSet<&String> = parsed.warnings.iter().collect();
        let missing: Vec<&&String> = e.difference(&o).take(4).collect();
        let extra: Vec<&&String> = o.difference(&e).take(4).collect();
        let what = if missing.is_empty() && extra.is_empty() {
            format!("diagnostics: same set but different multiplicities (expected {} got {})", exp_diag.len(), parsed.warnings.len())
        } else {
            format!("diagnostics: not emitted {missing:?}; unexpected {extra:?}")
        };
        out.push(Disc::new(&None, &[], "", what));
    }
    for ns in m.namespaces() {
        let Some(nso) = parsed.ns(&ns) else {
            out.push(Disc::new(&ns, &[], "", format!("namespace {:?} missing from the result", ns)));
            continue;
        };
        if nso.locales != m.locales {
            out.push(Disc::new(&ns, &[], "", format!("locale order {:?}, expected {:?}", nso.locales, m.locales)));
        }
        let expected_keys: BTreeSet<Vec<String>> = m.default_keys(&ns).into_iter().collect();
        let observed_keys: BTreeSet<Vec<String>> = nso.keys.keys().cloned().collect();
        for k in expected_keys.difference(&observed_keys) {
            out.push(Disc::new(&ns, k, "", "key of the default locale is not accessible".to_string()));
        }
        for k in observed_keys.difference(&expected_keys) {
            out.push(Disc::new(&ns, k, "", "accessible key is not a key of the default locale".to_string()));
        }
        for issue in &nso.string_issues {
            out.push(Disc::new(&ns, &[], "", format!("string table: {issue}")));
        }
        for path in expected_keys.intersection(&observed_keys) {
            let ko = &nso.keys[path];
            if let Some(d) = compare_signature(m, &ns, path, &ko.sig) {
                out.push(Disc::new(&ns, path, "", d));
            }
            for loc in &m.locales {
                stats.keys_compared += 1;
                let eff = m.effective_locale(&ns, loc, path);
                let Some(oeff) = ko.eff.get(loc) else {
                    out.push(Disc::new(&ns, path, loc, "locale missing from the key's locales".to_string()));
                    continue;
                };
                if eff != *loc {
                    stats.defaulted += 1;
                }
                let mut expected = match m.resolve(&ns, loc, path) {
                    Ok(r) => r,
                    Err(e) => {
                        out.push(Disc::new(&ns, path, loc, format!("model cannot resolve an accepted key: {e:?}")));
                        continue;
                    }
                };
                let Some(otree) = ko.trees.get(oeff) else {
                    out.push(Disc::new(&ns, path, loc, format!("effective locale {oeff} has no value (expected value of {eff})")));
                    continue;
                };
                let mut otree = otree.clone();
                set_plural_locale(&mut expected, loc);
                set_plural_locale(&mut otree, loc);
                let otree = &otree;
                let mut mismatch = None;
                let envs = match counts {
                    Some(cs) if has_counts(&expected) || has_counts(otree) => cs
                        .iter()
                        .map(|n| {
                            let mut e = Env::marker();
                            e.default_count = Some(*n);
                            e
                        })
                        .collect(),
                    _ => envs_for(&expected, otree),
                };
                for env in envs {
                    stats.renders += 1;
                    let e = render_opt(&expected, &env);
                    let o = render_opt(otree, &env);
                    let (Some(e), Some(o)) = (e, o) else { continue };
                    if e != o {
                        mismatch = Some(format!(
                            "count={:?}{} expected {:?} observed {:?}",
                            env.default_count,
                            if env.counts.is_empty() { String::new() } else { format!(" {:?}", env.counts) },
                            e,
                            o
                        ));
                        break;
                    }
                }
                if let Some(mm) = mismatch {
                    out.push(Disc::new(&ns, path, loc, format!("text differs (value taken from {oeff}, expected from {eff}): {mm}")));
                } else if *oeff != eff {
                    // same text but another source locale: only a discrepancy if the two sources differ,
                    // which the rendered text already decides (tags are self-identifying) — report it
                    // when the observed source is not even on the chain
                    out.push(Disc::new(&ns, path, loc, format!("value taken from {oeff}, expected from {eff} (same text)")));
                }
            }
        }
    }
    out
}

fn lit_type(rs: &[R]) -> Option<&'static str> {
    match rs {
        [] => Some("string"),
        [R::Lit(l)] => Some(if l == "true" || l == "false" {
            "bool"
        } else if l.contains('.') || l.contains('e') || l.contains("inf") || l.contains("NaN") {
            "float"
        } else if l.starts_with('-') {
            "signed"
        } else {
            "unsigned"
        }),
        rs if rs.iter().all(|r| matches!(r, R::Text(_) | R::Lit(_))) => Some("string"),
        _ => None,
    }
}

pub fn fmt_class(text: &str) -> String {
    let name = text.trim().split('(').next().unwrap_or("").trim();
    match name {
        "" => "None".into(),
        "number" => "Number".into(),
        "currency" => "Currency".into(),
        "date" => "Date".into(),
        "time" => "Time".into(),
        "datetime" => "DateTime".into(),
        "list" => "List".into(),
        other => format!("?{other}"),
    }
}

/// C08: the key's required arguments are the union over all locales (after substitution).
pub fn compare_signature(m: &Model, ns: &Option<String>, path: &[String], obs: &SigObs) -> Option<String> {
    let mut sig = Sig::default();
    let mut lit_types = BTreeSet::new();
    let mut all_lit = true;
    for loc in &m.locales {
        if !m.defines(ns, loc, path) {
            continue;
        }
        let r = m.resolve(ns, loc, path).ok()?;
        let s = signature(&r);
        // a float literal keeps its type however it is displayed ("20.0" is shown as "20")
        let raw_float = matches!(m.get_raw(ns, loc, path), Some(vmodel::model::MV::Val(Val::Float(_))));
        match if raw_float { Some("float") } else { lit_type(&r) } {
            Some(t) if s.is_empty() => {
                // the JSON5 front-end reads every integer as signed (the statement lets the numeric literal
                // type differ between front-ends)
                let t = if t == "unsigned" && build_format() == Format::Json5 { "signed" } else { t };
                lit_types.insert(t);
            }
            _ => all_lit = false,
        }
        sig.merge(&s);
    }
    match obs {
        SigObs::Lit(t) => {
            if all_lit && lit_types.len() == 1 && lit_types.contains(t.as_str()) {
                None
            } else {
                Some(format!("signature: observed literal {t}, expected {}", if all_lit { format!("literal types {lit_types:?}") } else { format!("arguments {:?}", sig.names()) }))
            }
        }
        SigObs::Interpol { vars, comps } => {
            if all_lit && lit_types.len() == 1 {
                return Some(format!("signature: observed an argument builder {:?}/{:?}, expected a plain literal {lit_types:?}", vars.keys().collect::<Vec<_>>(), comps));
            }
            let mut names: BTreeSet<String> = vars.keys().map(|k| format!("var_{k}")).collect();
            names.extend(comps.iter().map(|k| format!("comp_{k}")));
            if names != sig.names() {
                return Some(format!("signature: required arguments {:?}, expected the union over locales {:?}", names, sig.names()));
            }
            for (v, (fmts, ck)) in vars {
                let exp_kind = sig.counts.get(v).and_then(|s| s.iter().next().cloned());
                if *ck != exp_kind {
                    return Some(format!("signature: variable {v} typed {ck:?}, expected {exp_kind:?}"));
                }
                let exp_f: BTreeSet<String> = sig.vars.get(v).map(|s| s.iter().map(|f| fmt_class(f)).collect()).unwrap_or_default();
                let obs_f: BTreeSet<String> = fmts.iter().map(|f| f.split('(').next().unwrap_or("").to_string()).collect();
                if exp_f != obs_f {
                    return Some(format!("signature: variable {v} formatters {obs_f:?}, expected {exp_f:?}"));
                }
            }
            None
        }
    }
}

/// Source text of the value at (ns, loc, path) for violation keys.
pub fn source_of(p: &Project, ns: &Option<String>, loc: &str, path: &[String]) -> String {
    fn find<'a>(entries: &'a [(String, Val)], path: &[String]) -> Option<&'a Val> {
        let (k, rest) = path.split_first()?;
        // plural base key: show all its forms
        let v = entries.iter().find(|(n, _)| n.trim() == k)?;
        if rest.is_empty() {
            Some(&v.1)
        } else if let Val::Sub(s) = &v.1 {
            find(s, rest)
        } else {
            None
        }
    }
    match p.files.get(&(ns.clone(), loc.to_string())) {
        None => "<no file>".into(),
        Some(entries) => match find(entries, path) {
            Some(v) => val_json(v),
            None => {
                // maybe a plural: list keys with that base
                let mut parent: &[(String, Val)] = entries;
                for k in &path[..path.len().saturating_sub(1)] {
                    match parent.iter().find(|(n, _)| n == k) {
                        Some((_, Val::Sub(s))) => parent = s,
                        _ => return "<absent>".into(),
                    }
                }
                let base = path.last().cloned().unwrap_or_default();
                let forms: Vec<String> = parent
                    .iter()
                    .filter(|(n, _)| matches!(split_plural_key(n), Some((b, _, _)) if b == base))
                    .map(|(n, v)| format!("{n}: {}", val_json(v)))
                    .collect();
                if forms.is_empty() {
                    "<absent>".into()
                } else {
                    format!("{{{}}}", forms.join(", "))
                }
            }
        },
    }
}

/// Known finding "fk-inside-component": `$t(..)` is split out of the string before tags are
/// looked for, so a component that contains a foreign key is read as literal `<b>` / `</b>` text.
/// This returns the project as the loader *currently* understands it (None if nothing changes);
/// it is used only to tell this recorded finding apart from any other violation.
pub fn fk_in_comp_view(p: &Project) -> Option<Project> {
    fn has_fk(segs: &[Seg]) -> bool {
        segs.iter().any(|s| match s {
            Seg::Fk { .. } => true,
            Seg::Comp { children, .. } => has_fk(children),
            _ => false,
        })
    }
    fn tr_segs(segs: &[Seg], changed: &mut bool) -> Vec<Seg> {
        let mut out = vec![];
        for s in segs {
            match s {
                Seg::Comp { name, ws, children } if has_fk(children) => {
                    *changed = true;
                    let sp = |n: u8| " ".repeat(n as usize);
                    out.push(Seg::Text(format!("<{}{}{}>", sp(ws[0]), name, sp(ws[1]))));
                    out.extend(tr_segs(children, changed));
                    out.push(Seg::Text(format!("<{}/{}{}{}>", sp(ws[2]), sp(ws[3]), name, sp(ws[4]))));
                }
                Seg::Comp { name, ws, children } => out.push(Seg::Comp { name: name.clone(), ws: *ws, children: tr_segs(children, changed) }),
                Seg::Fk { path, args, ws } => out.push(Seg::Fk {
                    path: path.clone(),
                    ws: *ws,
                    args: args
                        .iter()
                        .map(|(k, a)| (k.clone(), match a {
                            FkArg::Str(s) => FkArg::Str(tr_segs(s, changed)),
                            o => o.clone(),
                        }))
                        .collect(),
                }),
                o => out.push(o.clone()),
            }
        }
        out
    }
    fn tr_val(v: &Val, changed: &mut bool) -> Val {
        match v {
            Val::Str(s) => Val::Str(tr_segs(s, changed)),
            Val::Sub(e) => Val::Sub(e.iter().map(|(k, v)| (k.clone(), tr_val(v, changed))).collect()),
            Val::Range(r) => Val::Range(RangeDecl {
                ty: r.ty.clone(),
                branches: r.branches.iter().map(|b| Branch { value: Box::new(tr_val(&b.value, changed)), ..b.clone() }).collect(),
            }),
            o => o.clone(),
        }
    }
    let mut changed = false;
    let mut q = p.clone();
    for entries in q.files.values_mut() {
        for (_, v) in entries.iter_mut() {
            *v = tr_val(v, &mut changed);
        }
    }
    changed.then_some(q)
}

#[derive(Clone, Copy)]
pub struct CheckOpts<'a> {
    /// counts to render every key under (None: boundary neighbourhoods derived from the trees)
    pub counts: Option<&'a [Num]>,
    pub write: WriteOpts,
}

impl CheckOpts<'_> {
    pub fn default() -> CheckOpts<'static> {
        CheckOpts { counts: None, write: default_opts() }
    }
}

/// Run one project through the real loader and judge it against the model.
/// Returns the expectation and the outcome so that callers can add property-specific checks.
pub fn check_project(rep: &Reporter, pid: &str, part: &str, p: &Project, dir: &std::path::Path, keys_total: &Mutex<u64>) -> (Expect, Outcome) {
    check_project_opts(rep, pid, part, p, dir, keys_total, CheckOpts::default())
}

fn cfg_note(p: &Project) -> String {
    let mut s = String::new();
    if !p.cfg.inherits.is_empty() {
        s.push_str(&format!(" inherits={:?}", p.cfg.inherits));
    }
    if p.cfg.locales.as_ref().map(|l| l.len()).unwrap_or(0) > 2 || !p.cfg.inherits.is_empty() {
        s.push_str(&format!(" locales={:?} default={:?}", p.cfg.locales.clone().unwrap_or_default(), p.cfg.default.clone().unwrap_or_default()));
    }
    s
}

pub fn check_project_opts(
    rep: &Reporter,
    pid: &str,
    part: &str,
    p: &Project,
    dir: &std::path::Path,
    keys_total: &Mutex<u64>,
    co: CheckOpts,
) -> (Expect, Outcome) {
    let m = Model::new(p);
    let out = run_project(p, dir, co.write);
    let expect = expectation(&m);
    // recorded finding "fk-inside-component": if the observation is exactly what the loader's
    // current reading of the project implies, report it under that finding's key and nothing else
    if let Some(view) = fk_in_comp_view(p) {
        let vm = Model::new(&view);
        let vexpect = expectation(&vm);
        let matches_view = match (&vexpect, &out) {
            (Expect::Accept, Outcome::Ok(parsed)) => {
                let mut stats = CmpStats { keys_compared: 0, renders: 0, defaulted: 0 };
                let d = compare_accepted(&vm, parsed, &mut stats, co.counts);
                if std::env::var("VERIF_DEBUG_KF").is_ok() && !d.is_empty() {
                    eprintln!("KF-VIEW-MISMATCH {} :: {:?} :: {}", p.describe(), d.iter().take(2).map(|x| (&x.path, &x.loc, &x.what)).collect::<Vec<_>>(), view.describe());
                }
                d.is_empty()
            }
            (Expect::Reject(_), Outcome::Err { .. }) => true,
            (Expect::Open(_), Outcome::Ok(_)) | (Expect::Open(_), Outcome::Err { .. }) => true,
            _ => false,
        };
        let differs_from_statement = match (&expect, &out) {
            (Expect::Accept, Outcome::Ok(parsed)) => {
                let mut stats = CmpStats { keys_compared: 0, renders: 0, defaulted: 0 };
                !compare_accepted(&m, parsed, &mut stats, co.counts).is_empty()
            }
            (Expect::Accept, _) => true,
            (Expect::Reject(_), Outcome::Ok(_)) => true,
            _ => false,
        };
        if std::env::var("VERIF_DEBUG_KF").is_ok() && !(matches_view && differs_from_statement) {
            eprintln!("KF-DEBUG matches_view={matches_view} differs={differs_from_statement} vexpect={vexpect:?} expect={expect:?} out={} :: {}", out.short(), p.describe());
        }
        if matches_view && differs_from_statement {
            rep.violation(
                format!("KF[fk-inside-component] {pid}/{part}: component containing $t(..) read as literal tag text :: {}", vmodel::report::truncate(&p.describe(), 500)),
                json!({"project": p.describe()}),
            );
            return (expect, out);
        }
    }
    match (&expect, &out) {
        (_, Outcome::Panic(msg)) => {
            rep.violation(
                format!("{pid}/{part}: PANIC {} :: {}", vmodel::report::truncate(&msg.replace('\n', " "), 200), vmodel::report::truncate(&p.describe(), 600)),
                json!({"project": p.describe(), "panic": msg, "expectation": format!("{expect:?}")}),
            );
        }
        (Expect::Accept, Outcome::Ok(parsed)) => {
            let mut stats = CmpStats { keys_compared: 0, renders: 0, defaulted: 0 };
            let discs = compare_accepted(&m, parsed, &mut stats, co.counts);
            *keys_total.lock().unwrap() += stats.keys_compared;
            rep.trans(stats.renders);
            rep.count("accepted_and_compared", 1);
            for d in discs {
                let src = source_of(p, &d.ns, &d.loc, &d.path);
                rep.violation(
                    format!("{pid}/{part}: value={src} loc={} key={}{}{}: {}", d.loc, d.ns.clone().map(|n| n + ":").unwrap_or_default(), d.path.join("."), cfg_note(p), d.what),
                    json!({"project": p.describe(), "discrepancy": d.what}),
                );
            }
        }
        (Expect::Accept, other) => {
            // find the culprit keys by running each one alone (slow path)
            let mut culprits = 0;
            if p.files.values().map(|f| f.len()).sum::<usize>() > 6 {
                for ((ns, loc), entries) in &p.files {
                    for (k, v) in entries {
                        if matches!(v, Val::Sub(_)) {
                            continue;
                        }
                        let mut single = Project::new(Config::simple("en", &["en"]));
                        single.set_file(None, "en", vec![(k.clone(), v.clone())]);
                        if expectation(&Model::new(&single)) != Expect::Accept {
                            continue;
                        }
                        let o = run_project(&single, dir, co.write);
                        if !matches!(o, Outcome::Ok(_)) {
                            culprits += 1;
                            rep.violation(
                                format!("{pid}/{part}: value={} rejected: {}", val_json(v), o.short()),
                                json!({"file": format!("{:?}/{}", ns, loc), "key": k, "outcome": o.short()}),
                            );
                        }
                    }
                }
            }
            if culprits == 0 {
                rep.violation(
                    format!("{pid}/{part}: valid project rejected: {} :: {}", other.short(), vmodel::report::truncate(&p.describe(), 600)),
                    json!({"project": p.describe(), "outcome": other.short()}),
                );
            }
        }
        (Expect::Reject(why), Outcome::Ok(_)) => {
            rep.violation(
                format!("{pid}/{part}: invalid project accepted (expected {why}) :: {}", vmodel::report::truncate(&p.describe(), 600)),
                json!({"project": p.describe(), "expected": why}),
            );
        }
        (Expect::Reject(_), Outcome::Err { msg, .. }) => {
            rep.count("rejected_as_expected", 1);
            if msg.trim().is_empty() {
                rep.violation(format!("{pid}/{part}: error with empty message :: {}", vmodel::report::truncate(&p.describe(), 400)), json!({}));
            }
        }
        (Expect::Open(_), _) => rep.count("unspecified_by_statement", 1),
    }
    (expect, out)
}
