//! C05 (L1 half): plural-form merging, CLDR selection (parse-time literal counts and the merged
//! tree for run-time counts), UnusedForm diagnostics, error cases.

use crate::cmp::*;
use crate::obs::*;
use serde_json::json;
use std::sync::Mutex;
use vmodel::ast::*;
use vmodel::model::*;
use vmodel::par::par_for;
use vmodel::{Reporter, Tier};

const FIVE: [Form; 5] = [Form::Zero, Form::One, Form::Two, Form::Few, Form::Many];

fn form_key(base: &str, ordinal: bool, f: Form) -> String {
    format!("{base}{}_{}", if ordinal { "_ordinal" } else { "" }, f.suffix())
}

fn form_val(tag: &str, f: Form) -> Val {
    s(vec![text(&format!("[{tag}.{}]", f.suffix())), var("count")])
}

/// plural keys for every non-empty subset of the five forms (+ other), cardinal and ordinal
fn plural_entries(loc: &str, masks: &[u32]) -> Vec<(String, Val)> {
    let mut e = vec![];
    for &mask in masks {
        for ordinal in [false, true] {
            let base = format!("p{mask}{}", if ordinal { "o" } else { "c" });
            for (i, f) in FIVE.iter().enumerate() {
                if mask >> i & 1 == 1 {
                    e.push((form_key(&base, ordinal, *f), form_val(&format!("{loc}.{base}"), *f)));
                }
            }
            e.push((form_key(&base, ordinal, Form::Other), form_val(&format!("{loc}.{base}"), Form::Other)));
        }
    }
    e
}

pub fn run(tier: Tier) -> i32 {
    let rep = Reporter::new("C05", &engine_name("L1"), tier);
    let scratch = Scratch::new("c05");
    let keys_total = Mutex::new(0u64);
    let locales: Vec<&str> = tier.pick(vec!["en", "fr", "ru", "ar"], vec!["en", "fr", "ru", "ar", "pl", "ja", "cy", "he", "lt", "ga", "sl", "lv"]);
    let mut counts: Vec<Num> = (0..=200).map(Num::I).collect();
    counts.extend([1000, 1_000_000, 1_000_001, 1_000_000_000].map(Num::I));
    let masks: Vec<u32> = (1..32).collect();
    let fk_masks: Vec<u32> = tier.pick(vec![31, 1, 2, 10, 21], (1..32).collect());

    struct Job {
        p: Project,
        counts: Option<Vec<Num>>,
        part: &'static str,
        cases: u64,
        nontriv: u64,
    }
    let mut jobs: Vec<Job> = vec![];

    // ---- merged trees under every run-time count + UnusedForm diagnostics: one project, all locales
    {
        let mut all = vec!["en"];
        all.extend(locales.iter().copied().filter(|l| *l != "en"));
        let mut p = Project::new(Config::simple("en", &all));
        for l in &all {
            p.set_file(None, l, plural_entries(l, &masks));
        }
        jobs.push(Job { p, counts: Some(counts.clone()), part: "runtime-counts", cases: (all.len() * 62 * counts.len()) as u64, nontriv: (all.len() * 62) as u64 });
    }
    // ---- forms written as the EMPTY string: a form that is written is the form rendered, whatever it holds
    {
        let mut all = vec!["en"];
        all.extend(locales.iter().copied().filter(|l| *l != "en"));
        let mut p = Project::new(Config::simple("en", &all));
        for l in &all {
            let mut e = vec![];
            for ordinal in [false, true] {
                for (i, f) in FIVE.iter().enumerate() {
                    // form f empty, all the others written
                    let base = format!("e{i}{}", if ordinal { "o" } else { "c" });
                    for g in FIVE {
                        e.push((form_key(&base, ordinal, g), if g == *f { st("") } else { form_val(&format!("{l}.{base}"), g) }));
                    }
                    e.push((form_key(&base, ordinal, Form::Other), form_val(&format!("{l}.{base}"), Form::Other)));
                }
                // every form but `_other` empty; `_other` empty
                let base = format!("ea{}", if ordinal { "o" } else { "c" });
                for g in FIVE {
                    e.push((form_key(&base, ordinal, g), st("")));
                }
                e.push((form_key(&base, ordinal, Form::Other), form_val(&format!("{l}.{base}"), Form::Other)));
                let base = format!("eo{}", if ordinal { "o" } else { "c" });
                for g in FIVE {
                    e.push((form_key(&base, ordinal, g), form_val(&format!("{l}.{base}"), g)));
                }
                e.push((form_key(&base, ordinal, Form::Other), st("")));
            }
            p.set_file(None, l, e);
        }
        let small: Vec<Num> = (0..=30).chain([100, 101, 111, 1000, 1_000_000]).map(Num::I).collect();
        jobs.push(Job { p, counts: Some(small), part: "empty-forms", cases: (all.len() * 14 * 36) as u64, nontriv: (all.len() * 14) as u64 });
    }
    // ---- parse-time selection: one project per locale (as default, so that its own rules apply)
    for l in &locales {
        let mut entries = plural_entries(l, &fk_masks);
        let mut n = 0;
        for &mask in &fk_masks {
            for ordinal in [false, true] {
                let base = format!("p{mask}{}", if ordinal { "o" } else { "c" });
                for c in &counts {
                    let Num::I(i) = c else { continue };
                    entries.push((format!("l{base}n{i}"), s(vec![fk_args(&base, vec![("count", FkArg::UInt(*i as u64))])])));
                    n += 1;
                }
                for d in ["0.5", "1.0", "1.5", "2.0", "0.0", "21.0"] {
                    entries.push((format!("l{base}d{}", d.replace('.', "_")), s(vec![fk_args(&base, vec![("count", FkArg::Float(d.to_string()))])])));
                    n += 1;
                }
                // renamed count
                entries.push((format!("l{base}r"), s(vec![text("<"), fk_args(&base, vec![("count", FkArg::Str(vec![text(" "), var("n"), text(" ")]))]), text(">")])));
                n += 1;
            }
        }
        let mut p = Project::new(Config::simple(l, &[l]));
        p.set_file(None, l, entries);
        jobs.push(Job { p, counts: Some(vec![Num::I(0), Num::I(1), Num::I(2), Num::I(5), Num::I(11), Num::I(100)]), part: "parse-time-counts", cases: n, nontriv: n });
    }
    // ---- literal counts on an INHERITED plural: forms written in the default locale, `null` in the others;
    //      the category must follow the locale being rendered, not the locale the forms came from
    {
        let mut all = vec!["en"];
        all.extend(locales.iter().copied().filter(|l| *l != "en"));
        let mut p = Project::new(Config::simple("en", &all));
        let mut n = 0;
        for l in &all {
            let mut entries = if *l == "en" { plural_entries(l, &[31]) } else { vec![("p31c".to_string(), Val::Null), ("p31o".to_string(), Val::Null)] };
            for base in ["p31c", "p31o"] {
                for i in (0..=30).chain([100, 101, 102, 111, 1000000]) {
                    entries.push((format!("l{base}n{i}"), s(vec![fk_args(base, vec![("count", FkArg::UInt(i as u64))])])));
                    n += 1;
                }
                for d in ["0.5", "1.5"] {
                    entries.push((format!("l{base}d{}", d.replace('.', "_")), s(vec![fk_args(base, vec![("count", FkArg::Float(d.to_string()))])])));
                    n += 1;
                }
            }
            p.set_file(None, l, entries);
        }
        jobs.push(Job { p, counts: Some(vec![Num::I(0), Num::I(1), Num::I(2), Num::I(5)]), part: "literal-count-on-inherited-plural", cases: n, nontriv: n });
    }
    // ---- error side ------------------------------------------------------------------------------
    let mut n_err = 0u64;
    for l in tier.pick(vec!["en"], vec!["en", "ru"]) {
        let all6 = FORMS;
        // every pair (cardinal form, ordinal form) under one base key
        for a in all6 {
            for b in all6 {
                let mut p = Project::new(Config::simple(l, &[l]));
                p.set_file(None, l, vec![(form_key("k", false, a), form_val("x", a)), (form_key("k", true, b), form_val("y", b)), ("z".into(), st("z"))]);
                jobs.push(Job { p, counts: None, part: "cardinal+ordinal", cases: 1, nontriv: 1 });
                n_err += 1;
                // and with a third key making a mergeable cardinal set
                let mut p = Project::new(Config::simple(l, &[l]));
                p.set_file(
                    None,
                    l,
                    vec![(form_key("k", false, a), form_val("x", a)), (form_key("k", false, Form::Other), form_val("x", Form::Other)), (form_key("k", true, b), form_val("y", b))],
                );
                jobs.push(Job { p, counts: None, part: "cardinal+ordinal", cases: 1, nontriv: 1 });
                n_err += 1;
            }
        }
        // every subset together with a plain key of the base name
        for mask in 0u32..32 {
            for ordinal in [false, true] {
                let mut e = vec![("k".to_string(), st("[plain]"))];
                for (i, f) in FIVE.iter().enumerate() {
                    if mask >> i & 1 == 1 {
                        e.push((form_key("k", ordinal, *f), form_val("k", *f)));
                    }
                }
                e.push((form_key("k", ordinal, Form::Other), form_val("k", Form::Other)));
                let mut p = Project::new(Config::simple(l, &[l]));
                p.set_file(None, l, e);
                jobs.push(Job { p, counts: None, part: "plural-at-normal-key", cases: 1, nontriv: 1 });
                n_err += 1;
            }
        }
        // the key at the base name is itself named like a form (a lone `k_two`; `k_one` + `k_two` without `_other`;
        // a lone `k_other`; a lone ordinal form) and is not merged: a plural whose base is exactly that key collides
        // with it like with any other key - in either file order
        for (base, plain_keys) in [("k_two", vec!["k_two"]), ("k_two", vec!["k_one", "k_two"]), ("k_one", vec!["k_one", "k_few"]), ("k_other", vec!["k_other"]), ("k_ordinal_few", vec!["k_ordinal_few"]), ("k_ordinal_other", vec!["k_ordinal_other"])] {
            for ordinal in [false, true] {
                for plural_first in [false, true] {
                    for third in [false, true] {
                        let plain: Vec<(String, Val)> = plain_keys.iter().map(|k| (k.to_string(), st(&format!("[plain {k}]")))).collect();
                        let mut plural = vec![(form_key(base, ordinal, Form::One), form_val(base, Form::One)), (form_key(base, ordinal, Form::Other), form_val(base, Form::Other))];
                        if third {
                            plural.insert(1, (form_key(base, ordinal, Form::Few), form_val(base, Form::Few)));
                        }
                        let mut e = vec![("pad".to_string(), st("[pad]"))];
                        if plural_first {
                            e.extend(plural);
                            e.extend(plain);
                        } else {
                            e.extend(plain);
                            e.extend(plural);
                        }
                        let mut p = Project::new(Config::simple(l, &[l]));
                        p.set_file(None, l, e);
                        jobs.push(Job { p, counts: None, part: "plural-at-form-named-key", cases: 1, nontriv: 1 });
                        n_err += 1;
                    }
                }
            }
        }
        // subsets without `_other`: keys stay as written
        for mask in 1u32..32 {
            for ordinal in [false, true] {
                let mut e = vec![];
                for (i, f) in FIVE.iter().enumerate() {
                    if mask >> i & 1 == 1 {
                        e.push((form_key("k", ordinal, *f), form_val("k", *f)));
                    }
                }
                let mut p = Project::new(Config::simple(l, &[l]));
                p.set_file(None, l, e);
                jobs.push(Job { p, counts: None, part: "no-other", cases: 1, nontriv: 1 });
                n_err += 1;
            }
        }
        // several base keys in one file, each in one of 6 states: what happens to one group must not change the others
        {
            let bases = ["a", "b", "c"];
            for t in vmodel::enumerate::tuples(6, 3) {
                let mut e = vec![("pad".to_string(), st("[pad]"))];
                for (bi, st_) in t.iter().enumerate() {
                    let b = bases[bi];
                    let mut add = |ordinal: bool, f: Form| e.push((form_key(b, ordinal, f), form_val(b, f)));
                    match st_ {
                        0 => {}
                        1 => add(false, Form::One),
                        2 => add(false, Form::Other),
                        3 => {
                            add(false, Form::One);
                            add(false, Form::Two);
                        }
                        4 => {
                            add(false, Form::One);
                            add(false, Form::Other);
                        }
                        _ => {
                            add(true, Form::One);
                            add(true, Form::Other);
                        }
                    }
                }
                let mut p = Project::new(Config::simple(l, &[l]));
                p.set_file(None, l, e);
                jobs.push(Job { p, counts: Some(vec![Num::I(0), Num::I(1), Num::I(2)]), part: "several-groups", cases: 3, nontriv: 1 });
                n_err += 1;
            }
        }
        // plural forms inside subkeys and namespaces; suffix look-alikes that are not forms
        let mut p = Project::new(Config::simple(l, &[l]).with_namespaces(&["a", "b"]));
        p.set_file(Some("a"), l, vec![("g".into(), Val::Sub(vec![("h".into(), Val::Sub(plural_entries(l, &[31, 3])))])), ("select_one".into(), st("[lone]"))]);
        p.set_file(
            Some("b"),
            l,
            vec![
                ("item_ones".into(), st("[not a form]")),
                ("item_others".into(), st("[not a form 2]")),
                ("a_b_one".into(), form_val("ab", Form::One)),
                ("a_b_other".into(), form_val("ab", Form::Other)),
                ("_one".into(), form_val("empty-base", Form::One)),
                ("x_ordinal".into(), st("[ends with _ordinal]")),
            ],
        );
        jobs.push(Job { p, counts: Some(counts.clone()), part: "containers", cases: 10, nontriv: 10 });
    }
    rep.count("error_side_projects", n_err);
    // ---- chains that rename a plural's count and pass an unrelated `count` on top: only the variable of that name is
    // replaced, the plural keeps following its renamed count (the form is never frozen from another number)
    for l in &locales {
        for ordinal in [false, true] {
            let mut e = vec![("pad".to_string(), st("[pad]"))];
            for f in [Form::One, Form::Two, Form::Few, Form::Other] {
                e.push((form_key("item", ordinal, f), form_val("item", f)));
            }
            let rename = |to: &str| fk_args("item", vec![("count", FkArg::Str(vec![var(to)]))]);
            e.extend([
                ("cart".to_string(), s(vec![var("items"), text(" / "), var("count"), text(": "), rename("items")])),
                ("c_lit".to_string(), s(vec![fk_args("cart", vec![("count", FkArg::UInt(2))])])),
                ("c_lit0".to_string(), s(vec![fk_args("cart", vec![("count", FkArg::UInt(0))])])),
                ("c_str".to_string(), s(vec![fk_args("cart", vec![("count", FkArg::Str(vec![text("many")]))])])),
                ("c_var".to_string(), s(vec![fk_args("cart", vec![("count", FkArg::Str(vec![var("m")]))])])),
                ("c_both".to_string(), s(vec![fk_args("cart", vec![("count", FkArg::Str(vec![var("m")])), ("items", FkArg::Str(vec![var("k")]))])])),
                ("c_items_lit".to_string(), s(vec![fk_args("cart", vec![("items", FkArg::UInt(1))])])),
                ("d".to_string(), s(vec![text("d: "), fk_args("c_var", vec![("m", FkArg::Str(vec![var("z")]))])])),
                ("cart2".to_string(), s(vec![var("items"), text(" / "), fk("item")])),
                ("c2".to_string(), s(vec![fk_args("cart2", vec![("items", FkArg::UInt(0))])])),
            ]);
            let mut p = Project::new(Config::simple(l, &[l]));
            p.set_file(None, l, e);
            jobs.push(Job { p, counts: None, part: "renamed-count-chain", cases: 10, nontriv: 10 });
        }
    }

    let outcomes = Mutex::new(std::collections::BTreeMap::<String, u64>::new());
    par_for(jobs.len(), |w, i| {
        let j = &jobs[i];
        let co = CheckOpts { counts: j.counts.as_deref(), write: default_opts() };
        let (e, o) = check_project_opts(&rep, "C05", j.part, &j.p, &scratch.worker(w), &keys_total, co);
        rep.eval(j.cases);
        rep.nontriv(j.nontriv);
        // error kinds must be the documented ones
        if let (Expect::Reject(why), Outcome::Err { kind, msg }) = (&e, &o) {
            let want = if why.starts_with("Conflicting") { "ConflictingPluralRuleType" } else if why.starts_with("PluralsAtNormalKey") { "PluralsAtNormalKey" } else { "" };
            if !want.is_empty() && kind != want {
                rep.violation(format!("C05/{}: rejected with {kind} ({msg}) but the statement calls for {want} :: {}", j.part, j.p.describe()), json!({}));
            }
        }
        let k = format!("{}:{}", j.part, match (&e, &o) {
            (Expect::Accept, _) => "accept".to_string(),
            (Expect::Reject(_), _) => "reject".to_string(),
            (Expect::Open(_), o) => format!("open->{}", o.short().chars().take(40).collect::<String>()),
        });
        *outcomes.lock().unwrap().entry(k).or_insert(0) += 1;
    });
    for j in [0usize, 1, jobs.len() - 3] {
        rep.sample(json!({"part": jobs[j].part, "project_head": vmodel::report::truncate(&jobs[j].p.describe(), 300)}));
    }
    let mut cov = serde_json::Map::new();
    cov.insert("rule".into(), json!(format!("locales {locales:?}; for every non-empty subset of {{zero,one,two,few,many}} + other, cardinal and ordinal (62 keys per locale): merged tree evaluated under counts 0..=200,10^3,10^6,10^6+1,10^9 against ICU4X category_for called by the harness; UnusedForm diagnostics compared as a multiset with categories(); the same with one form / every form but _other / _other written as the empty string (a written form is the form rendered); parse-time selection through `$t(k,{{count:n}})` for every such n plus decimals 0.5,1.0,1.5,2.0,0.0,21.0 and a renamed count, each locale as default; error side: every (cardinal form, ordinal form) pair under one base, with and without a mergeable set; every subset with a plain key of the base name; a plural whose base is a key that is itself named like a form and stays unmerged (lone k_two, k_one+k_two, lone k_other, lone ordinal forms; cardinal / ordinal plural of 2 or 3 forms, either file order: 48 files per locale); every subset without _other (keys must stay as written); three base keys in one file each in one of 6 states (absent, lone _one, lone _other, _one+_two, _one+_other, ordinal _one+_other): 216 files; forms inside subkeys/namespaces and look-alike suffixes; per locale, cardinal and ordinal: three- and four-level reference chains in which the middle key renames the plural's count and has a plain variable called `count`, the outer keys passing `count` / the new name / both as literal, text or variable")));
    cov.insert("exhaustive".into(), json!(true));
    cov.insert("outcome_classes".into(), json!(*outcomes.lock().unwrap()));
    cov.insert("key_locale_comparisons".into(), json!(*keys_total.lock().unwrap()));
    rep.finish(cov, &["ICU4X compiled CLDR data defines 'the locale's plural rules' (trusted base)", "lone `_other`, forms without `_other` mixed cardinal/ordinal: any non-panicking outcome admitted"])
}
