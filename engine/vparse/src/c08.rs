//! C08 (L1 half): a key's required arguments are the union over all locales of what its value
//! needs after foreign-key substitution; conflicting count typings are errors.

use crate::cmp::*;
use crate::obs::*;
use serde_json::json;
use std::collections::BTreeMap;
use std::sync::Mutex;
use vmodel::ast::*;
use vmodel::enumerate::tuples;
use vmodel::par::par_for;
use vmodel::{Reporter, Tier};

fn rb(v: Val, counts: Vec<CountSpec>) -> Branch {
    Branch { value: Box::new(v), counts, map_form: false, value_first: false }
}

fn range(ty: Option<&str>, tag: &str, extra: &str) -> Val {
    let zero = if ty == Some("f32") { CountSpec::Float("0.0".into()) } else { CountSpec::UInt(0) };
    Val::Range(RangeDecl {
        ty: ty.map(String::from),
        branches: vec![rb(s(vec![text(&format!("[{tag}.0]")), var(extra)]), vec![zero]), rb(s(vec![text(&format!("[{tag}.fb]")), var("count")]), vec![])],
    })
}

pub const KINDS: [&str; 35] = [
    "fk_lit_count_ordinal", "range_lone_fallback", "range_lone_fallback_u8_var", "fk_arg_component_only", "fk_arg_component_and_text", "fk_lit_count_incl_end", "fk_lit_count_excl_end", "fk_arg_into_comp", "fk_arg_into_plural_form", "plural_unused_form_var", "plural_unused_form_comp", "fk_two_hops_plural", "fk_two_hops_range", "plural_plain", "plural_other_plain", "range_plain", "string", "var_x", "var_y_number", "var_x_date", "comp_b", "comp_i_var_x", "comp_b_var_y", "comp_b_comp_i_var_w", "comp_b_twice", "range_i32", "range_u8", "range_f32", "plural", "fk_rename_plural", "fk_rename_range", "fk_lit_count", "null", "number", "bool",
];

/// entries for key `k` of kind `kind` (plural adds two entries)
pub fn kind_entries(kind: &str, tag: &str) -> Vec<(String, Val)> {
    let one = |v: Val| vec![("k".to_string(), v)];
    match kind {
        "string" => one(st(&format!("[{tag}]"))),
        "var_x" => one(s(vec![text(&format!("[{tag}]")), var("x")])),
        "var_y_number" => one(s(vec![text(&format!("[{tag}]")), var_fmt("y", " number")])),
        "var_x_date" => one(s(vec![text(&format!("[{tag}]")), var_fmt("x", " date(date_length: full)")])),
        "comp_b" => one(s(vec![comp("b", vec![text(&format!("[{tag}]"))])])),
        "comp_i_var_x" => one(s(vec![comp("i", vec![var("x")]), text(&format!("[{tag}]"))])),
        // the same component name as "comp_b", wrapping things "comp_b" does not hold
        "comp_b_var_y" => one(s(vec![comp("b", vec![text(&format!("[{tag}]")), var("y")])])),
        "comp_b_comp_i_var_w" => one(s(vec![comp("b", vec![comp("i", vec![var("w")]), text(&format!("[{tag}]"))])])),
        "comp_b_twice" => one(s(vec![comp("b", vec![text(&format!("[{tag}]"))]), comp("b", vec![var("q"), comp("b", vec![var("r")])])])),
        "range_i32" => one(range(None, tag, "z")),
        "range_u8" => one(range(Some("u8"), tag, "z")),
        "range_f32" => one(range(Some("f32"), tag, "w")),
        "plural" => vec![("k_one".into(), s(vec![text(&format!("[{tag}.one]")), var("v")])), ("k_other".into(), s(vec![text(&format!("[{tag}.other]")), var("count")]))],
        // count-driven values whose texts hold no variable at all: the count is still a required argument
        // a form the locale's rules never select (`_few` in en / fr / de) is still part of the value: what only
        // it needs is required too
        "plural_unused_form_var" => vec![
            ("k_one".into(), s(vec![text(&format!("[{tag}.one]")), var("count")])),
            ("k_few".into(), s(vec![text(&format!("[{tag}.few]")), var("only_in_few")])),
            ("k_other".into(), st(&format!("[{tag}.other]"))),
        ],
        "plural_unused_form_comp" => vec![
            ("k_one".into(), st(&format!("[{tag}.one]"))),
            ("k_many".into(), s(vec![comp("em", vec![text(&format!("[{tag}.many]"))])])),
            ("k_other".into(), s(vec![text(&format!("[{tag}.other]")), var("count")])),
        ],
        "plural_plain" => vec![("k_one".into(), st(&format!("[{tag}.one]"))), ("k_other".into(), st(&format!("[{tag}.other]")))],
        "plural_other_plain" => vec![("k_one".into(), s(vec![text(&format!("[{tag}.one]")), var("count")])), ("k_other".into(), st(&format!("[{tag}.other]")))],
        // a range that is nothing but its fallback arm: the count is still a required argument, of the range's type
        "range_lone_fallback" => one(Val::Range(RangeDecl { ty: None, branches: vec![rb(st(&format!("[{tag}.fb]")), vec![])] })),
        "range_lone_fallback_u8_var" => one(Val::Range(RangeDecl { ty: Some("u8".into()), branches: vec![rb(s(vec![text(&format!("[{tag}.fb]")), var("x")]), vec![])] })),
        "range_plain" => one(Val::Range(RangeDecl { ty: Some("u8".into()), branches: vec![rb(st(&format!("[{tag}.0]")), vec![CountSpec::UInt(0)]), rb(st(&format!("[{tag}.fb]")), vec![])] })),
        "fk_rename_plural" => one(s(vec![fk_args("pl", vec![("count", FkArg::Str(vec![var("n")]))])])),
        "fk_rename_range" => one(s(vec![fk_args("rg", vec![("count", FkArg::Str(vec![var("count")])), ("q", FkArg::Str(vec![text("Q")]))])])),
        // two hops: the inner one (helper keys mid_pl / mid_rg) renames the count, the outer passes nothing for it
        "fk_two_hops_plural" => one(s(vec![text(&format!("[{tag}]")), fk("mid_pl")])),
        "fk_two_hops_range" => one(s(vec![text(&format!("[{tag}]")), fk("mid_rg")])),
        // a literal count to an ORDINAL plural whose forms need different things (2: `two` in en, `other` in fr / de)
        "fk_lit_count_ordinal" => one(s(vec![text(&format!("[{tag}]")), fk_args("place", vec![("count", FkArg::UInt(2))])])),
        "fk_lit_count" => one(s(vec![fk_args("rg", vec![("count", FkArg::UInt(0))])])),
        // an argument that brings a component of its own (and nothing else that marks it as more than plain text)
        "fk_arg_component_only" => one(s(vec![text(&format!("[{tag}]")), fk_args("hello", vec![("who", FkArg::Str(vec![comp("b", vec![text("World")])]))])])),
        "fk_arg_component_and_text" => one(s(vec![fk_args("hello", vec![("who", FkArg::Str(vec![text("dear "), comp("u", vec![]), text(" World")]))]), text(&format!("[{tag}]"))])),
        // a literal count that is the LAST value of a bounded branch: what is required is what that branch mentions
        "fk_lit_count_incl_end" => one(s(vec![text(&format!("[{tag}]")), fk_args("rg2", vec![("count", FkArg::UInt(3))])])),
        "fk_lit_count_excl_end" => one(s(vec![text(&format!("[{tag}]")), fk_args("rg2", vec![("count", FkArg::UInt(9))])])),
        // an argument replaces a variable wherever the target holds it: inside a component, inside a plural form
        "fk_arg_into_comp" => one(s(vec![text(&format!("[{tag}]")), fk_args("badge", vec![("name", FkArg::Str(vec![var("player")]))])])),
        "fk_arg_into_plural_form" => one(s(vec![text(&format!("[{tag}]")), fk_args("pl", vec![("m", FkArg::Str(vec![text("«"), var("mm"), text("»")]))])])),
        "null" => one(Val::Null),
        "number" => one(Val::UInt(7)),
        "bool" => one(Val::Bool(true)),
        _ => unreachable!(),
    }
}

pub fn helper_entries(loc: &str) -> Vec<(String, Val)> {
    vec![
        ("pl_one".into(), s(vec![text(&format!("[{loc}.pl.one]")), var("count")])),
        ("pl_other".into(), s(vec![text(&format!("[{loc}.pl.other]")), var("count"), var("m")])),
        ("rg".into(), range(Some("u16"), &format!("{loc}.rg"), "q")),
        ("badge".into(), s(vec![comp("b", vec![var("name"), comp("i", vec![var("name")])]), text(&format!(" [{loc}.badge] ")), var("points")])),
        (
            "rg2".into(),
            Val::Range(RangeDecl {
                ty: Some("u8".into()),
                branches: vec![
                    rb(s(vec![text(&format!("[{loc}.rg2.1-3]")), var("ra")]), vec![CountSpec::Str("1..=3".into())]),
                    rb(s(vec![text(&format!("[{loc}.rg2.4-9]")), var("rb"), comp("u", vec![text("x")])]), vec![CountSpec::Str("4..10".into())]),
                    rb(s(vec![text(&format!("[{loc}.rg2.fb]")), var("rc")]), vec![]),
                ],
            }),
        ),
        ("hello".into(), s(vec![text(&format!("[{loc}.hello] ")), var("who")])),
        ("place_ordinal_one".into(), s(vec![var("count"), text(&format!("[{loc}.place.st]")), var("oa")])),
        ("place_ordinal_two".into(), s(vec![var("count"), text(&format!("[{loc}.place.nd]")), var("ob")])),
        ("place_ordinal_few".into(), s(vec![var("count"), text(&format!("[{loc}.place.rd]")), comp("sup", vec![var("oc")])])),
        ("place_ordinal_other".into(), s(vec![var("count"), text(&format!("[{loc}.place.th]")), var("od")])),
        ("mid_pl".into(), s(vec![fk_args("pl", vec![("count", FkArg::Str(vec![var("n")]))])])),
        ("mid_rg".into(), s(vec![fk_args("rg", vec![("count", FkArg::Str(vec![var("n")]))])])),
    ]
}

pub fn project_for(kinds: &[&str]) -> Project {
    let locs = ["en", "fr", "de"];
    let mut p = Project::new(Config::simple("en", &locs[..kinds.len()]));
    for (i, k) in kinds.iter().enumerate() {
        let mut e = helper_entries(locs[i]);
        e.extend(kind_entries(k, &format!("{}.k", locs[i])));
        p.set_file(None, locs[i], e);
    }
    p
}

pub fn run(tier: Tier) -> i32 {
    let rep = Reporter::new("C08", &engine_name("L1"), tier);
    let scratch = Scratch::new("c08");
    let keys_total = Mutex::new(0u64);
    let kinds: Vec<&str> = match tier {
        Tier::Quick => KINDS.iter().copied().filter(|k| !matches!(*k, "var_x_date" | "bool" | "fk_lit_count" | "range_i32")).collect(),
        Tier::Thorough => KINDS.to_vec(),
    };
    let mut jobs: Vec<Vec<&str>> = vec![];
    for n in 1..=3 {
        for t in tuples(kinds.len(), n) {
            if kinds[t[0]] == "null" {
                continue; // the default locale cannot hold null
            }
            jobs.push(t.iter().map(|i| kinds[*i]).collect());
        }
    }
    let classes = Mutex::new(BTreeMap::<String, u64>::new());
    par_for(jobs.len(), |w, i| {
        let p = project_for(&jobs[i]);
        let (e, o) = check_project(&rep, "C08", "kinds", &p, &scratch.worker(w), &keys_total);
        rep.eval(1);
        let class = match (&e, &o) {
            (Expect::Accept, _) => "accept".to_string(),
            (Expect::Open(w), _) => format!("open: {w}"),
            (Expect::Reject(why), Outcome::Err { kind, msg }) => {
                let want = why.split(' ').next().unwrap_or("");
                // with three conflicting typings either diagnostic is right
                if (want == "RangeTypeMissmatch" || want == "RangeAndPluralsMix") && kind != "RangeTypeMissmatch" && kind != "RangeAndPluralsMix" {
                    rep.violation(format!("C08/kinds: rejected with {kind} ({msg}), the statement calls for a count-typing conflict ({want}) :: {:?}", jobs[i]), json!({}));
                }
                format!("reject: {want}")
            }
            (Expect::Reject(w), _) => format!("reject (not observed): {w}"),
        };
        *classes.lock().unwrap().entry(class).or_insert(0) += 1;
    });
    // the union "after foreign-key substitution" when the substituted value comes through an inherits chain:
    // k = `$t(tgt)` in the leaf, tgt null in the leaf, null / absent in its parent, written (with its own
    // variables and a component) in the grandparent and (with others) in the default
    {
        let locs = ["en", "fr", "de", "it"];
        let maps: Vec<Vec<(&str, &str)>> = vec![vec![], vec![("de", "fr")], vec![("de", "it"), ("it", "fr")], vec![("de", "it"), ("it", "de")], vec![("de", "it"), ("it", "fr"), ("fr", "it")], vec![("it", "fr"), ("de", "it"), ("fr", "en")]];
        let mut extra = vec![];
        for m in &maps {
            for it_state in 0..3 {
                let mut cfg = Config::simple("en", &locs);
                cfg.inherits = m.iter().map(|(a, b)| (a.to_string(), b.to_string())).collect();
                let mut p = Project::new(cfg);
                p.set_file(None, "en", vec![("k".into(), st("[en.k]")), ("tgt".into(), s(vec![text("[en.tgt]"), var("only_en"), comp("u", vec![text("x")])]))]);
                p.set_file(None, "fr", vec![("k".into(), s(vec![text("[fr.k]"), var("kfr")])), ("tgt".into(), s(vec![text("[fr.tgt]"), var("only_fr"), comp("b", vec![var("inner_fr")])]))]);
                let mut it = vec![("k".to_string(), st("[it.k]"))];
                match it_state {
                    0 => it.push(("tgt".into(), Val::Null)),
                    1 => {}
                    _ => it.push(("tgt".into(), s(vec![text("[it.tgt]"), var("only_it")]))),
                }
                p.set_file(None, "it", it);
                p.set_file(None, "de", vec![("k".into(), s(vec![text("[de.k]"), fk("tgt")])), ("tgt".into(), Val::Null)]);
                extra.push(p);
            }
        }
        par_for(extra.len(), |w, i| {
            let (_e, _o) = check_project(&rep, "C08", "inherits-fk", &extra[i], &scratch.worker(w), &keys_total);
            rep.eval(1);
        });
        rep.count("inherits_fk_projects", extra.len() as u64);
    }
    rep.nontriv(jobs.len() as u64);
    for j in [5usize, jobs.len() / 2, jobs.len() - 5] {
        rep.sample(json!({"kinds_per_locale": jobs[j], "project": vmodel::report::truncate(&project_for(&jobs[j]).describe(), 500)}));
    }
    let mut cov = serde_json::Map::new();
    cov.insert("rule".into(), json!(format!("every 1-, 2- and 3-tuple of per-locale value kinds {kinds:?} for one key (default locale first, never null); 18 four-locale projects where the substituted value of a reference comes through an inherits chain (target null / absent / written in the middle locale, six inherits maps incl. loops); oracle: observed InterpolOrLit == union over defining locales of variables (with formatter families and count typing) and components after substitution, plain literal iff every locale is a literal of one type; RangeTypeMissmatch / RangeAndPluralsMix exactly when one count variable is typed two ways; every key also rendered in every locale")));
    cov.insert("exhaustive".into(), json!(true));
    cov.insert("outcome_classes".into(), json!(*classes.lock().unwrap()));
    cov.insert("key_locale_comparisons".into(), json!(*keys_total.lock().unwrap()));
    rep.finish(cov, &["compile-time side (omitting a member / unknown key does not compile) is the L3 half"])
}
