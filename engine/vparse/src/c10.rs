//! C10 (L1 half): the result depends only on logical content: key order inside files, fresh
//! processes (hash seeds), and the file format.

use crate::cmp::*;
use crate::obs::*;
use serde_json::json;
use std::collections::BTreeMap;
use std::sync::Mutex;
use vmodel::ast::*;
use vmodel::enumerate::*;
pub use vmodel::gen::{corpus, variant};
use vmodel::model::*;
use vmodel::par::par_for;
use vmodel::{Reporter, Tier};

/// Canonical text of an outcome. `cross_format`: leave out what may legitimately differ between
/// front-ends (numeric literal *type*), keep keys, diagnostics, signatures and rendered text.
pub fn dump(o: &Outcome, cross_format: bool) -> String {
    match o {
        Outcome::Panic(m) => format!("PANIC {m}"),
        Outcome::Err { kind, msg } => {
            if cross_format {
                // messages quote paths and parser positions; the kind is what must agree
                format!("ERR {kind}")
            } else {
                format!("ERR {kind} {msg}")
            }
        }
        Outcome::Ok(p) => {
            let mut s = String::new();
            s.push_str(&format!("warnings={:?}\n", p.warnings));
            for ns in &p.namespaces {
                s.push_str(&format!("ns={:?} locales={:?}\n", ns.name, ns.locales));
                if !cross_format {
                    for (l, t) in &ns.strings {
                        s.push_str(&format!(" strings[{l}]={t:?}\n"));
                    }
                }
                for issue in &ns.string_issues {
                    s.push_str(&format!(" ISSUE {issue}\n"));
                }
                for (path, k) in &ns.keys {
                    let sig = match &k.sig {
                        SigObs::Lit(t) => {
                            if cross_format {
                                "Lit".to_string()
                            } else {
                                format!("Lit({t})")
                            }
                        }
                        SigObs::Interpol { vars, comps } => format!("Interpol(vars={vars:?} comps={comps:?})"),
                    };
                    s.push_str(&format!(" key={} sig={sig} eff={:?}\n", path.join("."), k.eff));
                    for (loc, tree) in &k.trees {
                        let mut ints = std::collections::BTreeSet::new();
                        let mut floats = vec![];
                        interesting_counts(tree, &mut ints, &mut floats);
                        ints.extend([0, 1, 2]);
                        let mut rendered = vec![];
                        if has_counts(tree) {
                            for i in &ints {
                                let mut e = Env::marker();
                                e.default_count = Some(Num::I(*i));
                                if let Some(r) = render_opt(tree, &e) {
                                    rendered.push(format!("{i}=>{r:?}"));
                                }
                            }
                            for f in &floats {
                                let mut e = Env::marker();
                                e.default_count = Some(Num::F(*f));
                                if let Some(r) = render_opt(tree, &e) {
                                    rendered.push(format!("{f}=>{r:?}"));
                                }
                            }
                        } else {
                            rendered.push(format!("{:?}", render(tree, &Env::marker())));
                        }
                        s.push_str(&format!("  {loc}: {}\n", rendered.join(" | ")));
                    }
                }
            }
            s
        }
    }
}

fn fnv(s: &str) -> u64 {
    let mut h: u64 = 0xcbf29ce484222325;
    for b in s.bytes() {
        h ^= b as u64;
        h = h.wrapping_mul(0x100000001b3);
    }
    h
}

/// child mode: print one hash per corpus project (fresh process => fresh hash seeds)
/// for runs on the SAME input: the canonical dump plus the diagnostics in the order they were emitted
/// (generated code numbers the warnings in that order)
pub fn dump_repeat(o: &Outcome) -> String {
    let mut d = dump(o, false);
    if let Outcome::Ok(p) = o {
        d.push_str(&format!("emitted={:?}\n", p.warnings_in_order));
    }
    d
}

pub fn child(tier: Tier) -> i32 {
    let scratch = Scratch::new("c10child");
    let corpus = corpus(tier);
    let dir = scratch.worker(0);
    for p in &corpus {
        let o = run_project(p, &dir, default_opts());
        println!("{:016x}", fnv(&dump_repeat(&o)));
    }
    0
}

pub fn run(tier: Tier) -> i32 {
    let fmt = build_format();
    let rep = Reporter::new("C10", &format!("L1-{}", fmt.name()), tier);
    let scratch = Scratch::new("c10");
    let corpus = corpus(tier);
    let kmax = tier.pick(4, 5);
    let base_dumps: Vec<Mutex<String>> = corpus.iter().map(|_| Mutex::new(String::new())).collect();
    let cross: Vec<Mutex<String>> = corpus.iter().map(|_| Mutex::new(String::new())).collect();
    let n_variants = Mutex::new(0u64);
    let outcomes = Mutex::new(std::collections::BTreeSet::<u64>::new());
    par_for(corpus.len(), |w, i| {
        let p = &corpus[i];
        let dir = scratch.worker(w);
        let base = run_project(p, &dir, default_opts());
        let bd = dump(&base, false);
        let bd_repeat = dump_repeat(&base);
        outcomes.lock().unwrap().insert(fnv(&bd));
        *cross[i].lock().unwrap() = dump(&base, true);
        // sizes of the top-level maps present in this project
        let sizes: std::collections::BTreeSet<usize> = p.files.values().map(|f| f.len()).filter(|n| *n <= kmax && *n > 1).collect();
        let mut variants: Vec<Project> = vec![];
        if sizes.is_empty() {
            for big in 1..=2 {
                for nested in [false, true] {
                    variants.push(variant(p, &BTreeMap::new(), big, nested, nested));
                }
            }
        } else {
            // all permutations of the largest small size; the other sizes get the reversal
            let n = *sizes.iter().max().unwrap();
            for (pi, perm) in permutations(n).into_iter().enumerate() {
                let mut m = BTreeMap::new();
                m.insert(n, perm);
                for s in &sizes {
                    if *s != n {
                        m.insert(*s, (0..*s).rev().collect());
                    }
                }
                variants.push(variant(p, &m, 1 + pi % 2, pi % 2 == 1, pi % 3 == 1));
            }
        }
        for v in &variants {
            let o = run_project(v, &dir, default_opts());
            let d = dump(&o, false);
            rep.eval(1);
            if d != bd {
                let (a, b) = first_diff(&bd, &d);
                rep.violation(
                    format!("C10/order: reordering keys changes the result: {a} vs {b} :: {} vs {}", vmodel::report::truncate(&p.describe(), 300), vmodel::report::truncate(&v.describe(), 300)),
                    json!({"base": p.describe(), "variant": v.describe(), "base_dump": bd, "variant_dump": d}),
                );
            }
        }
        *n_variants.lock().unwrap() += variants.len() as u64;
        // the configuration table is a file too: every order of its fields (projects with more than two fields)
        let n_fields = 2 + p.cfg.namespaces.is_some() as usize + !p.cfg.inherits.is_empty() as usize + p.cfg.locales_dir.is_some() as usize;
        if n_fields > 2 {
            let n_perms: usize = (1..=n_fields).product();
            for fo in 1..n_perms {
                let mut v = p.clone();
                v.cfg.field_order = fo;
                let d = dump(&run_project(&v, &dir, default_opts()), false);
                rep.eval(1);
                if d != bd {
                    let (a, b) = first_diff(&bd, &d);
                    rep.violation(format!("C10/order: reordering the fields of the configuration changes the result: {a} vs {b} :: {}", v.cfg.toml_table().replace('\n', "; ")), json!({"base_dump": bd, "variant_dump": d}));
                }
            }
            *n_variants.lock().unwrap() += (n_perms - 1) as u64;
        }
        // YAML has two file extensions: which one each file carries is not part of the data (every locale but the
        // default on the other extension; alternating over the files)
        if fmt == Format::Yaml {
            let base_cross = dump(&base, true);
            for pattern in 0..2usize {
                if p.materialise(&dir, default_opts()).is_err() {
                    continue;
                }
                let default = p.cfg.effective_locales().first().cloned().unwrap_or_default();
                let mut k = 0usize;
                let mut renamed = 0;
                for (ns, loc) in p.files.keys() {
                    k += 1;
                    let flip = if pattern == 0 { *loc != default } else { k % 2 == 0 };
                    if !flip {
                        continue;
                    }
                    let ldir = dir.join(p.cfg.locales_dir.clone().unwrap_or_else(|| "locales".to_string()));
                    let from = match ns {
                        Some(ns) => ldir.join(loc).join(format!("{ns}.yaml")),
                        None => ldir.join(format!("{loc}.yaml")),
                    };
                    if from.exists() && std::fs::rename(&from, from.with_extension("yml")).is_ok() {
                        renamed += 1;
                    }
                }
                if renamed == 0 {
                    continue;
                }
                let d = dump(&parse_dir(&dir), true);
                rep.eval(1);
                *n_variants.lock().unwrap() += 1;
                if d != base_cross {
                    let (a, b) = first_diff(&base_cross, &d);
                    rep.violation(format!("C10/yaml-extensions: the same files with some of them named .yml give another result: {a} vs {b} :: {}", vmodel::report::truncate(&p.describe(), 300)), json!({"base_dump": base_cross, "variant_dump": d}));
                }
            }
        }
        // repeated run in the same process
        let again = dump_repeat(&run_project(p, &dir, default_opts()));
        if again != bd_repeat {
            rep.violation(format!("C10/rerun: two runs in one process differ :: {}", vmodel::report::truncate(&p.describe(), 300)), json!({}));
        }
        *base_dumps[i].lock().unwrap() = bd_repeat;
    });
    // two fresh processes
    let exe = std::env::current_exe().expect("current exe");
    let mut child_outputs = vec![];
    for _ in 0..3 {
        let out = std::process::Command::new(&exe).args(["c10child", "--tier", tier.name()]).output().expect("spawn child");
        if !out.status.success() {
            vmodel::report::machinery_fail("c10 child process failed");
        }
        child_outputs.push(String::from_utf8_lossy(&out.stdout).lines().map(String::from).collect::<Vec<_>>());
    }
    for (i, p) in corpus.iter().enumerate() {
        let h = format!("{:016x}", fnv(&base_dumps[i].lock().unwrap()));
        for co in &child_outputs {
            rep.eval(1);
            if co.get(i) != Some(&h) {
                rep.violation(format!("C10/process: a fresh process gives a different result :: {}", vmodel::report::truncate(&p.describe(), 400)), json!({"project": p.describe()}));
            }
        }
    }
    // cross-format dump for the comparison step
    let dir = vmodel::report::verif_root().join("work").join("c10");
    let _ = std::fs::create_dir_all(&dir);
    let lines: Vec<String> = cross.iter().map(|m| serde_json::to_string(&*m.lock().unwrap()).unwrap()).collect();
    if let Err(e) = std::fs::write(dir.join(format!("{}.{}.dump", fmt.name(), tier.name())), lines.join("\n")) {
        vmodel::report::machinery_fail(&format!("cannot write cross-format dump: {e}"));
    }
    rep.nontriv(outcomes.lock().unwrap().len() as u64);
    rep.count("corpus_projects", corpus.len() as u64);
    rep.count("order_variants", *n_variants.lock().unwrap());
    for j in [0usize, corpus.len() / 2, corpus.len() - 2] {
        rep.sample(json!({"project": vmodel::report::truncate(&corpus[j].describe(), 400)}));
    }
    let mut cov = serde_json::Map::new();
    cov.insert("rule".into(), json!(format!("corpus: every depth-1 foreign-key chain x target kind in a 2-locale project, inheritance projects, repeated identical strings with and without namespaces, value forests with literals and plural forms, surplus/missing/unused-form diagnostics, cyclic/missing references; for every project every permutation of the top-level keys of its files when a file has <= {kmax} keys (else reversal and rotation), nested groups reversed, {{count,value}} field order flipped, every order of the fields of the configuration table (projects with inherits / namespaces / a custom directory): the canonical dump (keys, signatures, effective locales, string tables, diagnostics, rendered text under boundary counts, or the error) must be identical; rerun in the same process and in three fresh processes (there also the order in which diagnostics are emitted, and which of several errors is reported, must repeat); distinct_nontrivial = distinct canonical dumps")));
    cov.insert("exhaustive".into(), json!(true));
    cov.insert("front_end".into(), json!(fmt.name()));
    rep.finish(cov, &["numeric literal type may differ between front-ends (compared by rendered text across formats)"])
}

fn first_diff(a: &str, b: &str) -> (String, String) {
    for (x, y) in a.lines().zip(b.lines()) {
        if x != y {
            return (vmodel::report::truncate(x, 160), vmodel::report::truncate(y, 160));
        }
    }
    ("<length>".into(), "<length>".into())
}

/// Compare the cross-format dumps written by the json / json5 / yaml builds.
pub fn compare(tier: Tier) -> i32 {
    let rep = Reporter::new("C10", "L1-formats", tier);
    let dir = vmodel::report::verif_root().join("work").join("c10");
    let corpus = corpus(tier);
    let mut dumps: BTreeMap<&str, Vec<String>> = BTreeMap::new();
    for f in ["json", "json5", "yaml"] {
        let p = dir.join(format!("{f}.{}.dump", tier.name()));
        let Ok(text) = std::fs::read_to_string(&p) else {
            vmodel::report::machinery_fail(&format!("missing dump {}", p.display()));
        };
        dumps.insert(f, text.lines().map(|l| serde_json::from_str::<String>(l).unwrap_or_default()).collect());
    }
    let base = &dumps["json"];
    for (i, p) in corpus.iter().enumerate() {
        for f in ["json5", "yaml"] {
            rep.eval(1);
            let other = dumps[f].get(i).cloned().unwrap_or_default();
            if base.get(i) != Some(&other) {
                let (a, b) = first_diff(&base[i], &other);
                rep.violation(
                    format!("C10/format: json and {f} disagree: {a} vs {b} :: {}", vmodel::report::truncate(&p.describe(), 400)),
                    json!({"project": p.describe(), "json": base[i], f: other}),
                );
            }
        }
    }
    rep.nontriv(corpus.len() as u64);
    rep.sample(json!({"project": vmodel::report::truncate(&corpus[1].describe(), 300), "dump_head": vmodel::report::truncate(&base[1], 300)}));
    let mut cov = serde_json::Map::new();
    cov.insert("rule".into(), json!("the same corpus written as JSON, JSON5 (single quotes, bare keys, trailing commas) and YAML (block maps, double-quoted scalars, ~ for null) by three builds of the real parser: keys, signatures, effective locales, diagnostics and rendered text must agree pairwise"));
    cov.insert("exhaustive".into(), json!(true));
    rep.finish(cov, &[])
}
