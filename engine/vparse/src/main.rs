mod c01;
mod c03;
mod c04;
mod c05;
mod c06;
mod c07;
mod c08;
mod c09;
mod c10;
mod c11;
mod c18;
mod c19;
mod cmp;
mod obs;

use vmodel::Tier;

fn main() {
    let args: Vec<String> = std::env::args().collect();
    let tier = Tier::from_env_or_args(&args);
    vmodel::par::quiet_panics();
    let which = args.get(1).map(|s| s.as_str()).unwrap_or("");
    // a load that does not terminate is a violation of the property being checked (and of C09)
    let pid: &'static str = Box::leak(which.chars().take(3).collect::<String>().to_uppercase().into_boxed_str());
    if pid.starts_with('C') && which.len() == 3 {
        obs::start_watchdog(pid);
        obs::install_crash_reporter(pid);
    }
    let code = match which {
        "c01" => c01::run(tier),
        "c03" => c03::run(tier),
        "c04" => c04::run(tier),
        "c05" => c05::run(tier),
        "c06" => c06::run(tier),
        "c06one" => c06::debug_one(),
        "c07" => c07::run(tier),
        "c08" => c08::run(tier),
        "c09" => c09::run(tier),
        "c09deep" => c09::deep_child(args.get(2).map(|s| s.as_str()).unwrap_or("")),
        "c09chain" => c09::chain_child(args.get(2).and_then(|s| s.parse().ok()).unwrap_or(1)),
        "c10" => c10::run(tier),
        "c11" => c11::run(tier),
        "c18" => c18::run(tier),
        "c10child" => c10::child(tier),
        "c10cmp" => c10::compare(tier),
        "c19" => c19::run(tier),
        // debugging aid: load one project directory and print what the loader says
        "parse" => {
            let o = obs::parse_dir(std::path::Path::new(args.get(2).map(|s| s.as_str()).unwrap_or(".")));
            match &o {
                obs::Outcome::Ok(p) => println!("Ok {p:#?}"),
                o => println!("{}", o.short()),
            }
            0
        }
        _ => {
            eprintln!("usage: vparse <c01|...> [--tier quick|thorough]");
            2
        }
    };
    std::process::exit(code);
}
