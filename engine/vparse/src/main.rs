mod c01;
mod c03;
mod c04;
mod c05;
mod c06;
mod c07;
mod c08;
mod cmp;
mod obs;

use vmodel::Tier;

fn main() {
    let args: Vec<String> = std::env::args().collect();
    let tier = Tier::from_env_or_args(&args);
    vmodel::par::quiet_panics();
    let which = args.get(1).map(|s| s.as_str()).unwrap_or("");
    let code = match which {
        "c01" => c01::run(tier),
        "c03" => c03::run(tier),
        "c04" => c04::run(tier),
        "c05" => c05::run(tier),
        "c06" => c06::run(tier),
        "c07" => c07::run(tier),
        "c08" => c08::run(tier),
        _ => {
            eprintln!("usage: vparse <c01|...> [--tier quick|thorough]");
            2
        }
    };
    std::process::exit(code);
}
