//! L1 observation seam: run the real `parse_locales` on a materialised project and convert the
//! result into plain owned data (the parser's types hold `Rc`s and cannot leave the thread).

use leptos_i18n_parser::parse_locales::{
    self,
    locale::{BuildersKeys, BuildersKeysInner, InterpolOrLit, LiteralType, Locale, LocaleValue, RangeOrPlural},
    parsed_value::{ForeignKey, Literal, ParsedValue},
    plurals::{PluralForm, PluralRuleType},
    ranges::{Range, RangeType, UntypedRangesInner},
    warning::Warning,
};
use std::collections::{BTreeMap, BTreeSet};
use std::ops::Bound;
use std::path::{Path, PathBuf};
use std::rc::Rc;
use vmodel::ast::*;
use vmodel::model::{CountKind, Form, NumTy, R};

#[derive(Debug, Clone)]
pub enum Outcome {
    Ok(Box<Parsed>),
    Err { kind: String, msg: String },
    Panic(String),
}

impl Outcome {
    pub fn short(&self) -> String {
        match self {
            Outcome::Ok(_) => "Ok".into(),
            Outcome::Err { kind, msg } => format!("Err({kind}: {})", vmodel::report::truncate(msg, 200)),
            Outcome::Panic(m) => format!("PANIC({})", vmodel::report::truncate(m, 300)),
        }
    }
    pub fn err_kind(&self) -> Option<&str> {
        match self {
            Outcome::Err { kind, .. } => Some(kind),
            _ => None,
        }
    }
}

#[derive(Debug, Clone, Default)]
pub struct Parsed {
    pub namespaces: Vec<NsObs>,
    /// canonical, sorted multiset: "Missing|loc|path", "Surplus|loc|path", "UnusedForm|loc|path|form|rule"
    pub warnings: Vec<String>,
    /// the same diagnostics in the order the loader emitted them
    pub warnings_in_order: Vec<String>,
    pub tracked: Vec<String>,
}

#[derive(Debug, Clone, Default)]
pub struct NsObs {
    pub name: Option<String>,
    pub locales: Vec<String>,
    pub strings: BTreeMap<String, Vec<String>>,
    pub keys: BTreeMap<Vec<String>, KeyObs>,
    /// C11 (i): index / count inconsistencies noticed while walking
    pub string_issues: Vec<String>,
    /// number of Literal::String nodes visited
    pub string_nodes: usize,
}

#[derive(Debug, Clone, PartialEq, Eq)]
pub enum SigObs {
    Lit(String),
    Interpol {
        /// var name (without `var_`) -> (formatters as Debug text, count kind)
        vars: BTreeMap<String, (BTreeSet<String>, Option<CountKind>)>,
        comps: BTreeSet<String>,
    },
}

#[derive(Debug, Clone)]
pub struct KeyObs {
    pub sig: SigObs,
    /// locale -> locale whose value is used, following DefaultedLocales::compute()
    pub eff: BTreeMap<String, String>,
    /// own value of each locale that is not defaulted
    pub trees: BTreeMap<String, Vec<R>>,
}

impl Parsed {
    pub fn ns(&self, name: &Option<String>) -> Option<&NsObs> {
        self.namespaces.iter().find(|n| n.name == *name)
    }
}

fn err_kind(dbg: &str) -> String {
    dbg.chars().take_while(|c| c.is_alphanumeric() || *c == '_').collect()
}

pub fn parse_dir(dir: &Path) -> Outcome {
    let d = dir.to_path_buf();
    let r = std::panic::catch_unwind(move || run_parse(&d));
    match r {
        Ok(o) => o,
        Err(p) => Outcome::Panic(vmodel::par::take_panic_message(p)),
    }
}

fn run_parse(dir: &PathBuf) -> Outcome {
    match parse_locales::parse_locales(false, Some(dir.clone())) {
        Err(e) => {
            let dbg = format!("{:?}", e);
            Outcome::Err { kind: err_kind(&dbg), msg: e.to_string() }
        }
        Ok((keys, warnings, tracked)) => {
            let mut parsed = Parsed { tracked, ..Default::default() };
            for w in warnings.into_inner() {
                parsed.warnings.push(match w {
                    Warning::MissingKey { locale, key_path } => format!("Missing|{}|{}", locale.name, key_path),
                    Warning::SurplusKey { locale, key_path } => format!("Surplus|{}|{}", locale.name, key_path),
                    Warning::UnusedForm { locale, key_path, form, rule_type } => {
                        format!("UnusedForm|{}|{}|{}|{}", locale.name, key_path, form, rule_type)
                    }
                    Warning::NonUnicodePath { .. } => "NonUnicodePath".to_string(),
                });
            }
            parsed.warnings_in_order = parsed.warnings.clone();
            parsed.warnings.sort();
            match &keys {
                BuildersKeys::Locales { locales, keys } => {
                    parsed.namespaces.push(observe_ns(None, locales, keys));
                }
                BuildersKeys::NameSpaces { namespaces, keys } => {
                    for ns in namespaces {
                        let k = keys.get(&ns.key).expect("namespace keys");
                        parsed.namespaces.push(observe_ns(Some(ns.key.name.to_string()), &ns.locales, k));
                    }
                }
            }
            Outcome::Ok(Box::new(parsed))
        }
    }
}

fn observe_ns(name: Option<String>, locales: &[Locale], keys: &BuildersKeysInner) -> NsObs {
    let mut ns = NsObs { name, ..Default::default() };
    let mut tables: BTreeMap<String, Vec<Rc<str>>> = BTreeMap::new();
    for l in locales {
        ns.locales.push(l.name.name.to_string());
        ns.strings.insert(l.name.name.to_string(), l.strings.iter().map(|s| s.to_string()).collect());
        tables.insert(l.name.name.to_string(), l.strings.clone());
        if l.top_locale_string_count != l.strings.len() {
            ns.string_issues.push(format!(
                "top locale {}: top_locale_string_count {} != strings.len() {}",
                l.name.name,
                l.top_locale_string_count,
                l.strings.len()
            ));
        }
    }
    let mut path = vec![];
    walk(&mut ns, &tables, locales, keys, &mut path);
    ns
}

fn walk(ns: &mut NsObs, tables: &BTreeMap<String, Vec<Rc<str>>>, locales: &[Locale], keys: &BuildersKeysInner, path: &mut Vec<String>) {
    for (key, lv) in &keys.0 {
        path.push(key.name.to_string());
        match lv {
            LocaleValue::Subkeys { locales: subs, keys: subkeys } => {
                for sl in subs {
                    let top = sl.top_locale_name.name.to_string();
                    let expect = tables.get(&top).map(|t| t.len());
                    if expect != Some(sl.top_locale_string_count) {
                        ns.string_issues.push(format!(
                            "sub-locale {} at {}: top_locale_string_count {} != table length {:?}",
                            top,
                            path.join("."),
                            sl.top_locale_string_count,
                            expect
                        ));
                    }
                }
                let tops: BTreeSet<String> = subs.iter().map(|s| s.top_locale_name.name.to_string()).collect();
                if tops.len() != subs.len() || tops.len() != tables.len() {
                    ns.string_issues.push(format!("sub-locales at {}: {:?} (expected one per locale)", path.join("."), tops));
                }
                walk(ns, tables, subs, subkeys, path);
            }
            LocaleValue::Value { value, defaults } => {
                let sig = match value {
                    InterpolOrLit::Lit(t) => SigObs::Lit(
                        match t {
                            LiteralType::String => "string",
                            LiteralType::Bool => "bool",
                            LiteralType::Signed => "signed",
                            LiteralType::Unsigned => "unsigned",
                            LiteralType::Float => "float",
                        }
                        .to_string(),
                    ),
                    InterpolOrLit::Interpol(ik) => {
                        let mut vars = BTreeMap::new();
                        for (k, info) in ik.iter_vars() {
                            let fmts = info.formatters.iter().map(|f| format!("{:?}", f)).collect();
                            let ck = info.range_count.map(|rc| match rc {
                                RangeOrPlural::Plural => CountKind::Plural,
                                RangeOrPlural::Range(t) => CountKind::Range(num_ty(t)),
                            });
                            vars.insert(strip(&k.name, "var_"), (fmts, ck));
                        }
                        let comps = ik.iter_comps().map(|k| strip(&k.name, "comp_")).collect();
                        SigObs::Interpol { vars, comps }
                    }
                };
                let computed = defaults.compute();
                let mut eff = BTreeMap::new();
                let mut trees = BTreeMap::new();
                for l in locales {
                    let top = l.top_locale_name.name.to_string();
                    let mut e = top.clone();
                    for (to, set) in &computed {
                        if set.iter().any(|k| *k.name == *top) {
                            e = to.name.to_string();
                        }
                    }
                    eff.insert(top.clone(), e);
                    match l.keys.get(key) {
                        None => {
                            ns.string_issues.push(format!("locale {} has no entry for key {}", top, path.join(".")));
                        }
                        Some(ParsedValue::Default) => {}
                        Some(pv) => {
                            let empty = vec![];
                            let table = tables.get(&top).unwrap_or(&empty);
                            let mut out = vec![];
                            let mut ctx = Ctx { table, issues: &mut ns.string_issues, nodes: &mut ns.string_nodes, locale: &top, at: path };
                            to_r(pv, &mut ctx, &mut out);
                            trees.insert(top, out);
                        }
                    }
                }
                ns.keys.insert(path.clone(), KeyObs { sig, eff, trees });
            }
        }
        path.pop();
    }
}

fn strip(s: &str, prefix: &str) -> String {
    s.strip_prefix(prefix).unwrap_or(s).to_string()
}

pub fn num_ty(t: RangeType) -> NumTy {
    match t {
        RangeType::I8 => NumTy::I8,
        RangeType::I16 => NumTy::I16,
        RangeType::I32 => NumTy::I32,
        RangeType::I64 => NumTy::I64,
        RangeType::U8 => NumTy::U8,
        RangeType::U16 => NumTy::U16,
        RangeType::U32 => NumTy::U32,
        RangeType::U64 => NumTy::U64,
        RangeType::F32 => NumTy::F32,
        RangeType::F64 => NumTy::F64,
    }
}

pub struct Ctx<'a> {
    pub table: &'a [Rc<str>],
    pub issues: &'a mut Vec<String>,
    pub nodes: &'a mut usize,
    pub locale: &'a str,
    pub at: &'a [String],
}

fn range_spec<T: std::fmt::Display + Copy>(r: &Range<T>) -> String {
    match r {
        Range::Exact(v) => format!("{v}"),
        Range::Fallback => "_".to_string(),
        Range::Bounds { start, end } => {
            let s = start.map(|s| s.to_string()).unwrap_or_default();
            match end {
                Bound::Unbounded => format!("{s}.."),
                Bound::Included(e) => format!("{s}..={e}"),
                Bound::Excluded(e) => format!("{s}..{e}"),
            }
        }
        Range::Multiple(v) => v.iter().map(range_spec).collect::<Vec<_>>().join("|"),
    }
}

/// Tree evaluator input: the parser's tree as the generated code would read it
/// (`Literal::String(_, i)` is looked up in the string table, not taken from the inline copy).
pub fn to_r(pv: &ParsedValue, ctx: &mut Ctx, out: &mut Vec<R>) {
    match pv {
        ParsedValue::Default => out.push(R::Text("\u{27e6}DEFAULT-IN-TREE\u{27e7}".into())),
        ParsedValue::Subkeys(_) => out.push(R::Text("\u{27e6}SUBKEYS-IN-TREE\u{27e7}".into())),
        ParsedValue::ForeignKey(fk) => match &*fk.borrow() {
            ForeignKey::Set(inner) => to_r(inner, ctx, out),
            ForeignKey::NotSet(p, _) => out.push(R::Text(format!("\u{27e6}UNRESOLVED $t({p})\u{27e7}"))),
        },
        ParsedValue::Literal(Literal::String(s, i)) => {
            *ctx.nodes += 1;
            match ctx.table.get(*i) {
                Some(t) => {
                    if **t != **s {
                        ctx.issues.push(format!(
                            "{}@{}: strings[{}]={:?} but the literal is {:?}",
                            ctx.at.join("."),
                            ctx.locale,
                            i,
                            t,
                            s
                        ));
                    }
                    out.push(R::Text(t.to_string()));
                }
                None => {
                    ctx.issues.push(format!(
                        "{}@{}: literal {:?} has index {} but the table has {} entries",
                        ctx.at.join("."),
                        ctx.locale,
                        s,
                        if *i == usize::MAX { "usize::MAX".to_string() } else { i.to_string() },
                        ctx.table.len()
                    ));
                    out.push(R::Text(format!("\u{27e6}BAD-INDEX {s}\u{27e7}")));
                }
            }
        }
        ParsedValue::Literal(l) => out.push(R::Lit(l.to_string())),
        ParsedValue::Variable { key, formatter } => {
            let f = format!("{:?}", formatter);
            out.push(R::Var { name: strip(&key.name, "var_"), fmt: if f == "None" { None } else { Some(f) } })
        }
        ParsedValue::Component { key, inner } => {
            let mut i = vec![];
            to_r(inner, ctx, &mut i);
            out.push(R::Comp { name: strip(&key.name, "comp_"), inner: i });
        }
        ParsedValue::Bloc(v) => {
            for x in v {
                to_r(x, ctx, out);
            }
        }
        ParsedValue::Ranges(r) => {
            macro_rules! conv {
                ($v:expr, $ty:expr) => {{
                    let mut branches = vec![];
                    for (range, value) in $v {
                        let mut b = vec![];
                        to_r(value, ctx, &mut b);
                        let spec = range_spec(range);
                        let counts = if spec == "_" { vec![] } else { vec![CountSpec::Str(spec)] };
                        branches.push((counts, b));
                    }
                    out.push(R::Range { count: strip(&r.count_key.name, "var_"), ty: $ty, branches });
                }};
            }
            match &r.inner {
                UntypedRangesInner::I8(v) => conv!(v, NumTy::I8),
                UntypedRangesInner::I16(v) => conv!(v, NumTy::I16),
                UntypedRangesInner::I32(v) => conv!(v, NumTy::I32),
                UntypedRangesInner::I64(v) => conv!(v, NumTy::I64),
                UntypedRangesInner::U8(v) => conv!(v, NumTy::U8),
                UntypedRangesInner::U16(v) => conv!(v, NumTy::U16),
                UntypedRangesInner::U32(v) => conv!(v, NumTy::U32),
                UntypedRangesInner::U64(v) => conv!(v, NumTy::U64),
                UntypedRangesInner::F32(v) => conv!(v, NumTy::F32),
                UntypedRangesInner::F64(v) => conv!(v, NumTy::F64),
            }
        }
        ParsedValue::Plurals(p) => {
            let mut forms = BTreeMap::new();
            for (f, v) in &p.forms {
                let mut b = vec![];
                to_r(v, ctx, &mut b);
                forms.insert(form(*f), b);
            }
            let mut b = vec![];
            to_r(&p.other, ctx, &mut b);
            if forms.insert(Form::Other, b).is_some() {
                ctx.issues.push(format!("{}@{}: plural has `other` both in forms and as fallback", ctx.at.join("."), ctx.locale));
            }
            out.push(R::Plural {
                count: strip(&p.count_key.name, "var_"),
                ordinal: p.rule_type == PluralRuleType::Ordinal,
                locale: ctx.locale.to_string(),
                forms,
            });
        }
    }
}

fn form(f: PluralForm) -> Form {
    match f {
        PluralForm::Zero => Form::Zero,
        PluralForm::One => Form::One,
        PluralForm::Two => Form::Two,
        PluralForm::Few => Form::Few,
        PluralForm::Many => Form::Many,
        PluralForm::Other => Form::Other,
    }
}

// ---------------------------------------------------------------------------------------------
// Scratch directories on tmpfs
// ---------------------------------------------------------------------------------------------

pub struct Scratch {
    pub root: PathBuf,
}

impl Scratch {
    pub fn new(tag: &str) -> Scratch {
        let base = if Path::new("/dev/shm").is_dir() { PathBuf::from("/dev/shm") } else { vmodel::report::verif_root().join("work/tmp") };
        let root = base.join(format!("verif-{}-{}", tag, std::process::id()));
        let _ = std::fs::remove_dir_all(&root);
        std::fs::create_dir_all(&root).expect("scratch dir");
        Scratch { root }
    }
    pub fn worker(&self, w: usize) -> PathBuf {
        self.root.join(format!("w{w}"))
    }
}

impl Drop for Scratch {
    fn drop(&mut self) {
        let _ = std::fs::remove_dir_all(&self.root);
    }
}

/// hang detection for every L1 check: what each worker directory is loading, and since when
pub static IN_FLIGHT: std::sync::Mutex<Vec<(String, std::time::Instant, String)>> = std::sync::Mutex::new(Vec::new());

pub fn start_watchdog(pid: &'static str) {
    std::thread::spawn(move || loop {
        std::thread::sleep(std::time::Duration::from_millis(500));
        let stuck: Vec<String> = IN_FLIGHT.lock().unwrap().iter().filter(|(_, t, _)| t.elapsed().as_secs() >= 30).map(|(_, _, d)| d.clone()).collect();
        if !stuck.is_empty() {
            let root = vmodel::report::verif_root().join("replays").join(pid);
            let _ = std::fs::create_dir_all(&root);
            let f = root.join("hang.txt");
            let _ = std::fs::write(&f, stuck.join("\n"));
            println!("VIOLATION property={pid} replay={}", f.display());
            eprintln!("  key: {pid}: loading does not terminate (30 s) :: {}", vmodel::report::truncate(&stuck[0], 600));
            // partial evidence for the driver: the run was cut short by the hang
            let edir = vmodel::report::verif_root().join("work").join("partial").join(pid);
            let _ = std::fs::create_dir_all(&edir);
            let ev = serde_json::json!({
                "property_id": pid, "tier": std::env::var("VERIF_TIER").unwrap_or_else(|_| "quick".into()), "seed": 0, "level": "model_checking",
                "coverage": {"rule": "run aborted: a load did not terminate within 30 s (reported as a violation)", "exhaustive": false, "evaluations": 1, "distinct_nontrivial": 1, "states": 1, "transitions": 1, "traces_validated_against_impl": 1, "samples": [{"project": vmodel::report::truncate(&stuck[0], 600)}]},
                "assumptions": [], "wall_s": 30.0, "violations": 1,
            });
            let _ = std::fs::write(edir.join(format!("{}-hang.json", engine_name("L1"))), serde_json::to_string_pretty(&ev).unwrap());
            std::process::exit(1);
        }
    });
}

// ---------------------------------------------------------------------------------------------
// A load that takes the process down (stack overflow -> abort) is a verdict, not a machinery failure:
// every thread keeps, ready to be written with plain write(2) calls from the SIGABRT / SIGSEGV handler,
// the VIOLATION line, the key line, the replay text and the partial evidence for the project it is loading.
// ---------------------------------------------------------------------------------------------

struct CrashBufs {
    stdout_line: Vec<u8>,
    stderr_line: Vec<u8>,
    replay: Vec<u8>,
    evidence: Vec<u8>,
}
thread_local! {
    static CRASH: std::cell::RefCell<Option<CrashBufs>> = const { std::cell::RefCell::new(None) };
}
static CRASH_PATHS: std::sync::OnceLock<(std::ffi::CString, std::ffi::CString, &'static str)> = std::sync::OnceLock::new();

extern "C" fn crash_handler(_sig: libc::c_int) {
    // only async-signal-safe calls from here on
    let _ = CRASH.try_with(|c| {
        if let (Ok(c), Some((replay_path, evidence_path, _))) = (c.try_borrow(), CRASH_PATHS.get()) {
            if let Some(b) = c.as_ref() {
                unsafe {
                    libc::write(1, b.stdout_line.as_ptr() as *const libc::c_void, b.stdout_line.len());
                    libc::write(2, b.stderr_line.as_ptr() as *const libc::c_void, b.stderr_line.len());
                    for (path, data) in [(replay_path, &b.replay), (evidence_path, &b.evidence)] {
                        let fd = libc::open(path.as_ptr(), libc::O_WRONLY | libc::O_CREAT | libc::O_TRUNC, 0o644);
                        if fd >= 0 {
                            libc::write(fd, data.as_ptr() as *const libc::c_void, data.len());
                            libc::close(fd);
                        }
                    }
                    libc::_exit(1);
                }
            }
        }
    });
    unsafe { libc::_exit(134) }
}

pub fn install_crash_reporter(pid: &'static str) {
    let root = vmodel::report::verif_root();
    let rdir = root.join("replays").join(pid);
    let edir = root.join("work").join("partial").join(pid);
    let _ = std::fs::create_dir_all(&rdir);
    let _ = std::fs::create_dir_all(&edir);
    let replay = std::ffi::CString::new(rdir.join("crash.txt").display().to_string()).unwrap();
    let evidence = std::ffi::CString::new(edir.join(format!("{}-crash.json", engine_name("L1"))).display().to_string()).unwrap();
    let _ = CRASH_PATHS.set((replay, evidence, pid));
    unsafe {
        libc::signal(libc::SIGABRT, crash_handler as usize);
    }
}

fn arm_crash_report(desc: &str) {
    let Some((replay_path, _, pid)) = CRASH_PATHS.get() else { return };
    let short = vmodel::report::truncate(desc, 600).replace('\n', " ");
    let ev = serde_json::json!({
        "property_id": pid, "tier": std::env::var("VERIF_TIER").unwrap_or_else(|_| "quick".into()), "seed": 0, "level": "model_checking",
        "coverage": {"rule": "run aborted: loading a project took the process down (stack overflow / abort), reported as a violation", "exhaustive": false, "evaluations": 1, "distinct_nontrivial": 1, "states": 1, "transitions": 1, "traces_validated_against_impl": 1, "samples": [{"project": short}]},
        "assumptions": [], "wall_s": 0.0, "violations": 1,
    });
    let bufs = CrashBufs {
        stdout_line: format!("VIOLATION property={pid} replay={}\n", replay_path.to_string_lossy()).into_bytes(),
        stderr_line: format!("  key: {pid}: loading takes the process down (stack overflow / abort) :: {short}\n").into_bytes(),
        replay: desc.as_bytes().to_vec(),
        evidence: serde_json::to_vec_pretty(&ev).unwrap_or_default(),
    };
    CRASH.with(|c| *c.borrow_mut() = Some(bufs));
}

pub fn run_project(p: &Project, dir: &Path, o: WriteOpts) -> Outcome {
    if let Err(e) = p.materialise(dir, o) {
        vmodel::report::machinery_fail(&format!("cannot materialise project in {}: {e}", dir.display()));
    }
    if CRASH_PATHS.get().is_some() {
        arm_crash_report(&p.describe());
    }
    let key = dir.display().to_string();
    {
        let mut g = IN_FLIGHT.lock().unwrap();
        g.retain(|(k, _, _)| *k != key);
        g.push((key.clone(), std::time::Instant::now(), p.describe()));
    }
    let r = parse_dir(dir);
    IN_FLIGHT.lock().unwrap().retain(|(k, _, _)| *k != key);
    r
}

pub fn build_format() -> Format {
    if cfg!(feature = "json") {
        Format::Json
    } else if cfg!(feature = "yaml") {
        Format::Yaml
    } else if cfg!(feature = "json5") {
        Format::Json5
    } else {
        panic!("vparse built without a file format feature")
    }
}

/// engine name for partial evidence: one per front-end build
pub fn engine_name(base: &str) -> String {
    let f = build_format();
    let sup = if cfg!(feature = "suppress") { "-suppress" } else { "" };
    if f == Format::Json {
        format!("{base}{sup}")
    } else {
        format!("{base}-{}{sup}", f.name())
    }
}

pub fn default_opts() -> WriteOpts {
    WriteOpts { format: build_format(), ascii_only: false }
}
