//! C19 (L1): configuration validation / normalisation and the exact set of files read.

use crate::obs::*;
use leptos_i18n_parser::parse_locales;
use serde_json::json;
use std::collections::{BTreeMap, BTreeSet};
use std::path::{Component, Path, PathBuf};
use std::sync::Mutex;
use vmodel::ast::*;
use vmodel::enumerate::tuples;
use vmodel::par::par_for_chunked;
use vmodel::{Reporter, Tier};

#[derive(Debug)]
enum Raw {
    Ok { default: String, locales: Vec<String>, namespaces: Option<Vec<String>>, dir: String, extensions: BTreeMap<String, String>, tracked: Vec<String> },
    Err { kind: String, msg: String },
    Panic(String),
}

fn run_raw(dir: &Path) -> Raw {
    let d = dir.to_path_buf();
    match std::panic::catch_unwind(move || match parse_locales::parse_locales_raw(false, Some(d)) {
        Ok((_, cfg, _, _, tracked)) => Raw::Ok {
            default: cfg.default.name.to_string(),
            locales: cfg.locales.iter().map(|k| k.name.to_string()).collect(),
            namespaces: cfg.name_spaces.as_ref().map(|v| v.iter().map(|k| k.name.to_string()).collect()),
            dir: cfg.locales_dir.to_string(),
            extensions: cfg.extensions.iter().map(|(k, v)| (k.name.to_string(), v.name.to_string())).collect(),
            tracked,
        },
        Err(e) => {
            let dbg = format!("{e:?}");
            Raw::Err { kind: dbg.chars().take_while(|c| c.is_alphanumeric()).collect(), msg: e.to_string() }
        }
    }) {
        Ok(r) => r,
        Err(p) => Raw::Panic(vmodel::par::take_panic_message(p)),
    }
}

fn norm(p: &Path) -> PathBuf {
    // lexical normalisation: drop `.`, resolve `x/..`
    let mut out: Vec<Component> = vec![];
    for c in p.components() {
        match c {
            Component::CurDir => {}
            Component::ParentDir if matches!(out.last(), Some(Component::Normal(_))) => {
                out.pop();
            }
            c => out.push(c),
        }
    }
    out.iter().collect()
}

#[derive(Clone, Debug)]
struct Case {
    cfg: Config,
    surround: usize,
}

#[derive(Debug, PartialEq)]
enum Exp {
    Accept { locales: Vec<String> },
    Reject(&'static str),
    Open(&'static str),
}

fn expectation(c: &Config) -> Exp {
    let Some(default) = &c.default else { return Exp::Reject("missing default") };
    let Some(locales) = &c.locales else { return Exp::Reject("missing locales") };
    let mut seen = BTreeSet::new();
    for l in locales {
        if !seen.insert(l) {
            return Exp::Reject("duplicate locale");
        }
    }
    let eff = c.effective_locales();
    if let Some(ns) = &c.namespaces {
        let mut seen = BTreeSet::new();
        for n in ns {
            if !seen.insert(n) {
                return Exp::Reject("duplicate namespace");
            }
        }
        if ns.is_empty() {
            return Exp::Open("empty namespace list");
        }
    }
    let mut keys = BTreeSet::new();
    for (k, v) in &c.inherits {
        if !keys.insert(k) {
            return Exp::Open("duplicate key in the inherits table (TOML itself rejects it)");
        }
        if !eff.contains(k) || !eff.contains(v) {
            return Exp::Reject("inherits names an unknown locale");
        }
        if k == default {
            return Exp::Reject("default locale inherits");
        }
    }
    Exp::Accept { locales: eff }
}

const SURROUNDS: usize = 10;

fn manifest(c: &Config, surround: usize) -> String {
    let pkg = "[package]\nname = \"probe\"\nversion = \"0.1.0\"\nedition = \"2021\"\n\n";
    let table = c.toml_table();
    match surround {
        0 => format!("{pkg}{table}"),
        1 => format!("{pkg}[package.metadata.other]\nlocales = [\"zz\"]\ndefault = \"zz\"\n\n{table}"),
        2 => format!("{pkg}{table}\n[dependencies]\nserde = {{ version = \"1\", features = [\"derive\"] }}\nleptos = \"0.7\"\n\n[features]\ndefault = [\"x\"]\nx = []\n"),
        3 => format!("# translations\n{pkg}{table}# trailing comment: default = \"zz\"\n\n[package.metadata.docs]\nlocales = 3\n"),
        4 => format!("{pkg}[dependencies]\nserde = {{ version = \"1\" }}\n\n{table}\n[lib]\npath = \"src/lib.rs\"\n"),
        // the table is the first thing in the manifest / the only thing
        5 => format!("{table}\n{pkg}"),
        6 => table,
        // indented (TOML allows white space before a header and before keys)
        7 => format!("{pkg}{}", table.lines().map(|l| format!("  \t{l}\n")).collect::<String>()),
        // CRLF line ends
        8 => format!("{pkg}{table}\n[dependencies]\nserde = \"1\"\n").replace('\n', "\r\n"),
        // the header's text also stands in a comment further up
        _ => format!("{pkg}# the translations are configured in [package.metadata.leptos-i18n] below\n\n{table}"),
    }
}

/// YAML has two extensions: which one the i-th translation file (in loading order) carries
fn ext_of(ext: &str, i: usize, variant: usize) -> &str {
    if ext != "yaml" {
        return ext;
    }
    match variant % 4 {
        0 => "yaml",
        1 => "yml",
        2 => ["yaml", "yml"][i % 2],
        _ => ["yml", "yaml"][i % 2],
    }
}

fn materialise(c: &Case, dir: &Path, ext: &str) -> Vec<PathBuf> {
    let _ = std::fs::remove_dir_all(dir);
    std::fs::create_dir_all(dir).unwrap();
    std::fs::write(dir.join("Cargo.toml"), manifest(&c.cfg, c.surround)).unwrap();
    let ldir_name = c.cfg.locales_dir.clone().unwrap_or_else(|| "locales".into());
    let ldir = dir.join(&ldir_name);
    std::fs::create_dir_all(&ldir).unwrap();
    // a decoy default directory when a custom one is configured
    if c.cfg.locales_dir.is_some() && norm(&dir.join(&ldir_name)) != norm(&dir.join("locales")) {
        std::fs::create_dir_all(dir.join("locales")).unwrap();
        for l in ["en", "fr", "de", "it"] {
            std::fs::write(dir.join("locales").join(format!("{l}.{ext}")), "THIS IS NOT A TRANSLATION FILE {{{").unwrap();
        }
    }
    let eff = if c.cfg.default.is_some() && c.cfg.locales.is_some() { c.cfg.effective_locales() } else { vec!["en".into(), "fr".into(), "de".into()] };
    let other_ext = if ext == "json" { "yaml" } else { "json" };
    let mut expected = vec![];
    let good = |l: &str, ns: &str| format!("{{\"k\": \"[{l}.{ns}]\"}}\n");
    match &c.cfg.namespaces {
        Some(nss) => {
            for ns in nss {
                for l in &eff {
                    let d = ldir.join(l);
                    std::fs::create_dir_all(&d).unwrap();
                    let f = d.join(format!("{ns}.{}", ext_of(ext, expected.len(), c.surround + c.cfg.field_order)));
                    std::fs::write(&f, good(l, ns)).unwrap();
                    expected.push(f);
                    // decoys: other extension, unlisted namespace
                    let _ = std::fs::write(d.join(format!("{ns}.{other_ext}")), "DECOY: not this format {{{");
                    let _ = std::fs::write(d.join(format!("zz.{ext}")), "DECOY: unlisted namespace {{{");
                }
            }
            // decoys: top-level locale files while namespaces are configured
            for l in &eff {
                let _ = std::fs::write(ldir.join(format!("{l}.{ext}")), "DECOY: top-level file with namespaces {{{");
            }
        }
        None => {
            for l in &eff {
                let f = ldir.join(format!("{l}.{}", ext_of(ext, expected.len(), c.surround + c.cfg.field_order)));
                std::fs::write(&f, good(l, "_")).unwrap();
                expected.push(f);
                let _ = std::fs::write(ldir.join(format!("{l}.{other_ext}")), "DECOY: not this format {{{");
                // decoy: a namespace-style directory
                let d = ldir.join(l);
                let _ = std::fs::create_dir_all(&d);
                let _ = std::fs::write(d.join(format!("common.{ext}")), "DECOY: namespace file without namespaces {{{");
            }
        }
    }
    // decoy: unlisted locale
    let _ = std::fs::write(ldir.join(format!("zz.{ext}")), "DECOY: unlisted locale {{{");
    expected
}

pub fn run(tier: Tier) -> i32 {
    let rep = Reporter::new("C19", &engine_name("L1"), tier);
    let scratch = Scratch::new("c19");
    let names = ["en", "fr", "de"];
    // locale lists: missing + every list of length 0..=3 (duplicates included)
    let mut lists: Vec<Option<Vec<String>>> = vec![None];
    for n in 0..=3 {
        for t in tuples(3, n) {
            lists.push(Some(t.iter().map(|i| names[*i].to_string()).collect()));
        }
    }
    let defaults: Vec<Option<String>> = vec![Some("en".into()), Some("fr".into()), Some("de".into()), Some("it".into()), None];
    let nss: Vec<Option<Vec<String>>> = vec![None, Some(vec!["a".into()]), Some(vec!["a".into(), "b".into()]), Some(vec!["b".into(), "a".into()]), Some(vec!["a".into(), "a".into()]), Some(vec![])];
    let uni = ["en", "fr", "de", "it", "xx"];
    let mut inherits: Vec<Vec<(String, String)>> = vec![vec![]];
    for k in uni {
        for v in uni {
            inherits.push(vec![(k.to_string(), v.to_string())]);
        }
    }
    if tier == Tier::Thorough {
        for (k1, v1, k2, v2) in [("fr", "en", "de", "fr"), ("fr", "de", "de", "fr"), ("fr", "it", "de", "en"), ("de", "en", "it", "en"), ("fr", "en", "en", "fr")] {
            inherits.push(vec![(k1.into(), v1.into()), (k2.into(), v2.into())]);
        }
    }
    // (`<ABS>` stands for an absolute path inside the worker's scratch directory)
    let dirs: Vec<Option<String>> = vec![
        None,
        Some("./l10n".into()),
        Some("a/b/".into()),
        Some("l10n/".into()),
        Some("locales".into()),
        Some("../shared_l10n".into()),
        Some(".hidden".into()),
        Some("./.dot/x".into()),
        Some("..//up".into()),
        Some("<ABS>".into()),
    ];
    let mut cases: Vec<Case> = vec![];
    let mut k = 0usize;
    for l in &lists {
        for d in &defaults {
            for ns in &nss {
                for inh in &inherits {
                    let variants: Vec<(usize, usize, bool)> = match tier {
                        // rotate the orthogonal dimensions
                        Tier::Quick => vec![(k % dirs.len(), (k / 5) % SURROUNDS, k % 2 == 0)],
                        Tier::Thorough => {
                            let mut v = vec![];
                            for di in 0..dirs.len() {
                                for su in 0..SURROUNDS {
                                    if (di + su + k) % 3 == 0 {
                                        v.push((di, su, (di + su) % 2 == 0));
                                    }
                                }
                            }
                            v
                        }
                    };
                    for (di, su, unknown) in variants {
                        let cfg = Config {
                            default: d.clone(),
                            locales: l.clone(),
                            namespaces: ns.clone(),
                            inherits: inh.clone(),
                            locales_dir: dirs[di].clone(),
                            extra_fields: if unknown { vec!["some-unknown-field = { a = 1 }".into(), "translations-path = \"i18n/{locale}.json\"".into()] } else { vec![] },
                            ..Default::default()
                        };
                        cases.push(Case { cfg, surround: su });
                    }
                    k += 1;
                }
            }
        }
    }
    // every order of the fields of the table, for configurations with and without an unlisted default, inherits
    // entries naming it, namespaces and a custom directory: the outcome is a function of the content only
    {
        let mut n_orders = 0u64;
        for l in [vec!["en", "fr"], vec!["fr"], vec!["fr", "de"]] {
            for ns in [None, Some(vec!["a".to_string(), "b".to_string()])] {
                for inh in [vec![], vec![("fr", "en")], vec![("fr", "en"), ("de", "fr")]] {
                    if inh.iter().any(|(k, _)| !l.contains(k)) {
                        continue;
                    }
                    for dir in [None, Some("l10n".to_string())] {
                        // .. and with an unknown field among them, in every position: it is ignored wherever it stands
                        // (1: a name of its own; 2, 3: the known names spelled with `_` - they are unknown fields too)
                        for unknown in 0..6usize {
                            let n_fields = 2 + ns.is_some() as usize + !inh.is_empty() as usize + dir.is_some() as usize + (unknown > 0) as usize;
                            let n_perms: usize = (1..=n_fields).product();
                            for fo in 0..n_perms {
                                let cfg = Config {
                                    default: Some("en".into()),
                                    locales: Some(l.iter().map(|s| s.to_string()).collect()),
                                    namespaces: ns.clone(),
                                    inherits: inh.iter().map(|(a, b)| (a.to_string(), b.to_string())).collect(),
                                    locales_dir: dir.clone(),
                                    field_order: fo,
                                    extra_fields: match unknown {
                                        0 => vec![],
                                        1 => vec!["editor-hint = \"x\"".to_string()],
                                        2 => vec!["locales_dir = \"nowhere\"".to_string()],
                                        3 => vec!["translations_path = { dev = 1, prod = 2 }".to_string()],
                                        // values that span several lines, some of which start with `[`
                                        4 => vec!["review-pairs = [\n    [\"en\", \"fr\"],\n    [\"fr\", \"de\"],\n]".to_string()],
                                        _ => vec!["notes = \"\"\"\nsee\n[package.metadata.leptos-i18n] and\n[dependencies]\n\"\"\"".to_string()],
                                    },
                                    ..Default::default()
                                };
                                cases.push(Case { cfg, surround: fo % SURROUNDS });
                                n_orders += 1;
                            }
                        }
                    }
                }
            }
        }
        rep.count("field_order_cases", n_orders);
    }
    let ext = build_format().ext();
    let classes = Mutex::new(BTreeMap::<String, u64>::new());
    let nontriv = Mutex::new(BTreeSet::<String>::new());
    par_for_chunked(cases.len(), 32, |w, i| {
        // the project sits one level below the worker's directory so that `../x` stays inside it
        let wdir = scratch.worker(w);
        let _ = std::fs::remove_dir_all(&wdir);
        let dir = wdir.join("proj");
        let mut case = cases[i].clone();
        if case.cfg.locales_dir.as_deref() == Some("<ABS>") {
            case.cfg.locales_dir = Some(wdir.join("abs_l10n").display().to_string());
        }
        let c = &case;
        let expected_files = materialise(c, &dir, ext);
        let raw = run_raw(&dir);
        let exp = expectation(&c.cfg);
        rep.eval(1);
        let desc = format!("{} surround={}", c.cfg.toml_table().replace('\n', "; "), c.surround);
        let class;
        match (&exp, &raw) {
            (_, Raw::Panic(m)) => {
                class = "panic".to_string();
                rep.violation(format!("C19: PANIC {m} :: {desc}"), json!({"manifest": manifest(&c.cfg, c.surround)}));
            }
            (Exp::Open(w), _) => class = format!("open: {w}"),
            (Exp::Reject(why), Raw::Err { msg, .. }) => {
                class = format!("reject: {why}");
                if msg.trim().is_empty() {
                    rep.violation(format!("C19: empty error message :: {desc}"), json!({}));
                }
            }
            (Exp::Reject(why), Raw::Ok { .. }) => {
                class = format!("reject: {why}");
                rep.violation(format!("C19: invalid configuration accepted ({why}) :: {desc}"), json!({"manifest": manifest(&c.cfg, c.surround)}));
            }
            (Exp::Accept { .. }, Raw::Err { kind, msg }) => {
                class = "accept".to_string();
                rep.violation(format!("C19: valid configuration rejected: {kind}: {} :: {desc}", vmodel::report::truncate(msg, 200)), json!({"manifest": manifest(&c.cfg, c.surround)}));
            }
            (Exp::Accept { locales }, Raw::Ok { default, locales: ol, namespaces, dir: odir, extensions, tracked }) => {
                class = "accept".to_string();
                let mut problems = vec![];
                if Some(default) != c.cfg.default.as_ref() {
                    problems.push(format!("default {default:?}"));
                }
                if ol.first() != c.cfg.default.as_ref() {
                    problems.push(format!("default is not first: {ol:?}"));
                }
                if ol != locales {
                    // the statement fixes the set and the first element; the order of the rest is the written order
                    let a: BTreeSet<&String> = ol.iter().collect();
                    let b: BTreeSet<&String> = locales.iter().collect();
                    if a != b || ol.len() != locales.len() {
                        problems.push(format!("locale set {ol:?}, expected {locales:?}"));
                    }
                }
                if *namespaces != c.cfg.namespaces {
                    problems.push(format!("namespaces {namespaces:?}"));
                }
                if *odir != c.cfg.locales_dir.clone().unwrap_or_else(|| "locales".into()) {
                    problems.push(format!("locales dir {odir:?}"));
                }
                let em: BTreeMap<String, String> = c.cfg.inherits.iter().cloned().collect();
                if *extensions != em {
                    problems.push(format!("inherits {extensions:?}"));
                }
                // files read: namespace-major, locale order of the normalised list
                let mut expected_sorted: Vec<PathBuf> = expected_files.iter().map(|p| norm(p)).collect();
                let mut got: Vec<PathBuf> = tracked.iter().map(|p| norm(Path::new(p))).collect();
                expected_sorted.sort();
                got.sort();
                if expected_sorted != got {
                    problems.push(format!("files read {:?}, expected {:?}", got, expected_sorted));
                }
                for pr in problems {
                    rep.violation(format!("C19: {pr} :: {desc}"), json!({"manifest": manifest(&c.cfg, c.surround)}));
                }
            }
        }
        *classes.lock().unwrap().entry(class).or_insert(0) += 1;
        let mut nt = nontriv.lock().unwrap();
        nt.insert(c.cfg.toml_table());
    });
    rep.nontriv(nontriv.lock().unwrap().len() as u64);
    for j in [7usize, cases.len() / 3, cases.len() - 11] {
        rep.sample(json!({"manifest": manifest(&cases[j].cfg, cases[j].surround), "expectation": format!("{:?}", expectation(&cases[j].cfg))}));
    }
    let mut cov = serde_json::Map::new();
    cov.insert("rule".into(), json!("locales in {missing} + every list of length 0..=3 over {en,fr,de} (duplicates included) x default in {en,fr,de,it (unlisted),missing} x namespaces in {absent,[a],[a,b],[b,a],[a,a],[]} x inherits in {none} + every single entry over {en,fr,de,it,xx}^2 (thorough: + five 2-entry maps) x (locales-dir in {absent,./l10n,a/b/,l10n/,locales,../shared_l10n,.hidden,./.dot/x,..//up,an absolute path} x 10 surrounding-manifest shapes (other tables before / after, comments, the table first or alone in the file, indented, CRLF line ends, the header's text quoted in a comment) x unknown fields: rotated in quick, a third of the product in thorough); (YAML build: the files carry .yaml / .yml in four patterns: all one, all the other, alternating either way, in loading order) plus every order of the table's fields for 36 configurations (unlisted default, inherits entries naming it, namespaces, custom directory), each also with an unknown field among them in every position (a name of its own; `locales_dir` and `translations_path`, the known names spelled with an underscore; values spanning several lines, some starting with `[`); the directory holds valid files for exactly the expected (namespace, locale) pairs and unparsable decoys everywhere else (other extension, unlisted locale/namespace, default dir when a custom one is set, top-level vs namespace layout); oracle: accept iff required fields present, no duplicates, inherits names known locales (the default counts even if unlisted) and not the default as key; on accept default first, same set, fields as written, tracked files == expected paths; distinct_nontrivial = distinct i18n tables"));
    cov.insert("exhaustive".into(), json!(true));
    cov.insert("outcome_classes".into(), json!(*classes.lock().unwrap()));
    cov.insert("front_end".into(), json!(ext));
    rep.finish(cov, &["`namespaces = []` and duplicate keys inside the inherits table: any non-panicking outcome admitted"])
}
