//! L3 seam: probe crates that call `leptos_i18n::load_locales!()` through the real proc-macro,
//! are compiled by rustc and executed. Only documented macros are used inside the probes.

use std::collections::BTreeMap;
use std::path::{Path, PathBuf};
use std::process::Command;
use vmodel::ast::*;
use vmodel::model::*;

/// Probe crates of one cargo workspace share one build of leptos_i18n with the union of their features:
/// probes that need a build WITHOUT `icu_compiled_data` live in a second workspace ("l3nc").
static WORKSPACE: std::sync::atomic::AtomicUsize = std::sync::atomic::AtomicUsize::new(0);
pub fn select_workspace(no_compiled_data: bool) {
    WORKSPACE.store(no_compiled_data as usize, std::sync::atomic::Ordering::SeqCst);
}
fn ws_name() -> &'static str {
    if WORKSPACE.load(std::sync::atomic::Ordering::SeqCst) == 1 {
        "l3nc"
    } else {
        "l3"
    }
}
pub fn l3_root() -> PathBuf {
    vmodel::report::verif_root().join("work").join(ws_name())
}
pub fn l3_target() -> PathBuf {
    vmodel::report::verif_root().join("target").join(ws_name())
}

pub struct Probe {
    pub name: String,
    pub project: Project,
    pub format: Format,
    pub features: Vec<&'static str>,
    /// extra items placed after `load_locales!()`
    pub items: String,
    /// statements of `fn main`; use `p(id, value.to_string())`
    pub stmts: Vec<String>,
    /// additional `[[bin]]` targets (name, full source) for negative compile probes
    pub extra_bins: Vec<(String, String)>,
    /// replaces the default leptos_i18n feature set (e.g. a build WITHOUT icu_compiled_data)
    pub base_features: Option<Vec<&'static str>>,
    /// extra lines for [dependencies]
    pub extra_deps: String,
}

impl Probe {
    pub fn new(name: &str, project: Project) -> Probe {
        Probe { name: name.to_string(), project, format: Format::Json, features: vec![], items: String::new(), stmts: vec![], extra_bins: vec![], base_features: None, extra_deps: String::new() }
    }
}

pub const PRELUDE: &str = r##"#![allow(warnings)]
use leptos::prelude::*;
leptos_i18n::load_locales!();
use i18n::*;

fn p(id: usize, s: String) {
    // one record per line: id TAB json-escaped text
    let mut out = String::with_capacity(s.len() + 8);
    for c in s.chars() {
        match c {
            '\\' => out.push_str("\\\\"),
            '\n' => out.push_str("\\n"),
            '\r' => out.push_str("\\r"),
            '\t' => out.push_str("\\t"),
            c => out.push(c),
        }
    }
    println!("{}\t{}", id, out);
}

/// text of a rendered view, normalised the way the repository's own tests do
fn html<T: IntoView>(v: T) -> String {
    let mut s = v.into_view().to_html();
    loop {
        match (s.find("<!--"), s.find("-->")) {
            (Some(a), Some(b)) if a < b => s.replace_range(a..b + 3, ""),
            _ => break,
        }
    }
    loop {
        match s.find(" data-hk=\"") {
            Some(a) => {
                let rest = &s[a + 10..];
                let end = rest.find('"').map(|e| a + 10 + e + 1).unwrap_or(s.len());
                s.replace_range(a..end, "");
            }
            None => break,
        }
    }
    let s = s.replace("<!>", "");
    // entities
    let mut out = String::new();
    let mut rest = s.as_str();
    while let Some(i) = rest.find('&') {
        out.push_str(&rest[..i]);
        let tail = &rest[i..];
        let Some(semi) = tail.find(';') else { out.push_str(tail); rest = ""; break; };
        let ent = &tail[1..semi];
        let rep = match ent {
            "lt" => Some('<'), "gt" => Some('>'), "amp" => Some('&'), "quot" => Some('"'), "apos" => Some('\''),
            e if e.starts_with("#x") => u32::from_str_radix(&e[2..], 16).ok().and_then(char::from_u32),
            e if e.starts_with('#') => e[1..].parse::<u32>().ok().and_then(char::from_u32),
            _ => None,
        };
        match rep {
            Some(c) => { out.push(c); rest = &tail[semi + 1..]; }
            None => { out.push('&'); rest = &tail[1..]; }
        }
    }
    out.push_str(rest);
    out
}

fn comp_b(c: leptos::children::ChildrenFn) -> impl IntoView { leptos::html::b().child(c()) }
fn comp_i(c: leptos::children::ChildrenFn) -> impl IntoView { leptos::html::i().child(c()) }
"##;

fn write_if_changed(p: &Path, content: &str) -> std::io::Result<bool> {
    if let Ok(old) = std::fs::read_to_string(p) {
        if old == content {
            return Ok(false);
        }
    }
    if let Some(d) = p.parent() {
        std::fs::create_dir_all(d)?;
    }
    std::fs::write(p, content)?;
    Ok(true)
}

fn base_features() -> Vec<&'static str> {
    vec!["ssr", "icu_compiled_data", "interpolate_display", "plurals", "format_datetime", "format_nums", "format_list", "format_currency"]
}

impl Probe {
    pub fn dir(&self) -> PathBuf {
        l3_root().join(&self.name)
    }

    pub fn manifest(&self) -> String {
        let mut feats = self.base_features.clone().unwrap_or_else(base_features);
        feats.push(match self.format {
            Format::Json => "json_files",
            Format::Json5 => "json5_files",
            Format::Yaml | Format::Yml => "yaml_files",
        });
        feats.extend(self.features.iter().copied());
        feats.sort();
        feats.dedup();
        let feats: Vec<String> = feats.iter().map(|f| format!("\"{f}\"")).collect();
        let mut m = format!(
            "[package]\nname = \"{}\"\nversion = \"0.1.0\"\nedition = \"2021\"\n\n[dependencies]\nleptos = {{ version = \"0.7.7\", default-features = false, features = [\"ssr\"] }}\nleptos_i18n = {{ path = \"/repo/leptos_i18n\", default-features = false, features = [{}] }}\nserde = \"1\"\nserde_json = \"1\"\nany_spawner = {{ version = \"0.2\", features = [] }}\ncodee = \"0.3\"\nfutures = {{ version = \"0.3\", features = [\"executor\"] }}\nicu_locid_transform = {{ version = \"1.5\", features = [\"compiled_data\"] }}\nicu_locid = \"1.5\"\ntinystr = \"0.7\"\nwriteable = \"0.5\"\n{}\n",
            self.name,
            feats.join(", "),
            self.extra_deps
        );
        for (b, _) in &self.extra_bins {
            m.push_str(&format!("[[bin]]\nname = \"{b}\"\npath = \"src/bin_{b}.rs\"\n\n"));
        }
        if !self.extra_bins.is_empty() {
            m.push_str(&format!("[[bin]]\nname = \"{}\"\npath = \"src/main.rs\"\n\n", self.name));
        }
        m.push_str(&self.project.cfg.toml_table());
        m
    }

    pub fn main_rs(&self) -> String {
        let mut s = String::from(PRELUDE);
        s.push_str(&self.items);
        // statements are chunked into functions: rustc is much faster on many small bodies
        let chunks: Vec<&[String]> = self.stmts.chunks(40).collect();
        for (i, c) in chunks.iter().enumerate() {
            s.push_str(&format!("\nfn part_{i}() {{\n"));
            for st in c.iter() {
                s.push_str("    ");
                s.push_str(st);
                s.push('\n');
            }
            s.push_str("}\n");
        }
        s.push_str("\nfn main() {\n");
        for i in 0..chunks.len() {
            s.push_str(&format!("    part_{i}();\n"));
        }
        s.push_str("}\n");
        s
    }

    /// write the crate (only files whose content changed, so cargo's fingerprints stay valid)
    pub fn write(&self) -> std::io::Result<()> {
        let d = self.dir();
        let o = WriteOpts { format: self.format, ascii_only: false };
        // cargo does not know that the proc-macro reads the translation files: every source file carries
        // a digest of them, so a change in the files alone recompiles the probe
        let digest = {
            use std::hash::{Hash, Hasher};
            let mut h = std::collections::hash_map::DefaultHasher::new();
            self.manifest().hash(&mut h);
            for ((ns, loc), entries) in &self.project.files {
                (ns, loc).hash(&mut h);
                file_text(entries, o).hash(&mut h);
            }
            format!("\n// translations digest: {:016x}\n", h.finish())
        };
        write_if_changed(&d.join("Cargo.toml"), &self.manifest())?;
        write_if_changed(&d.join("src/main.rs"), &format!("{}{digest}", self.main_rs()))?;
        for (b, src) in &self.extra_bins {
            write_if_changed(&d.join(format!("src/bin_{b}.rs")), &format!("{src}{digest}"))?;
        }
        let ldir = d.join(self.project.locales_dir());
        // remove stale translation files
        let mut wanted: Vec<PathBuf> = vec![];
        for ((ns, loc), entries) in &self.project.files {
            let p = match ns {
                Some(ns) => ldir.join(loc).join(format!("{ns}.{}", self.format.ext())),
                None => ldir.join(format!("{loc}.{}", self.format.ext())),
            };
            write_if_changed(&p, &file_text(entries, o))?;
            wanted.push(p);
        }
        fn prune(dir: &Path, wanted: &[PathBuf]) {
            if let Ok(rd) = std::fs::read_dir(dir) {
                for e in rd.flatten() {
                    let p = e.path();
                    if p.is_dir() {
                        prune(&p, wanted);
                    } else if !wanted.contains(&p) {
                        let _ = std::fs::remove_file(&p);
                    }
                }
            }
        }
        prune(&ldir, &wanted);
        Ok(())
    }
}

/// (re)write the workspace manifest listing every member directory present
pub fn write_workspace() -> std::io::Result<()> {
    let root = l3_root();
    std::fs::create_dir_all(&root)?;
    let mut members = vec![];
    for e in std::fs::read_dir(&root)?.flatten() {
        if e.path().join("Cargo.toml").is_file() {
            members.push(e.file_name().to_string_lossy().to_string());
        }
    }
    members.sort();
    let list: Vec<String> = members.iter().map(|m| format!("\"{m}\"")).collect();
    let ws = format!(
        "[workspace]\nresolver = \"2\"\nmembers = [{}]\n\n[profile.dev]\nopt-level = 0\ndebug = 0\nincremental = false\n\n[profile.dev.package.\"*\"]\nopt-level = 1\n",
        list.join(", ")
    );
    write_if_changed(&root.join("Cargo.toml"), &ws)?;
    let lock = root.join("Cargo.lock");
    if !lock.exists() {
        let _ = std::fs::copy("/repo/Cargo.lock", &lock);
        if !lock.exists() {
            let _ = std::fs::copy(vmodel::report::verif_root().join("engine/Cargo.lock"), &lock);
        }
    }
    Ok(())
}

pub struct BuildResult {
    pub ok: bool,
    pub stderr: String,
}

fn cargo() -> Command {
    let mut c = Command::new("cargo");
    c.current_dir(l3_root()).env("CARGO_TARGET_DIR", l3_target()).env("CARGO_NET_OFFLINE", "true").env_remove("RUSTFLAGS");
    c
}

pub fn build(names: &[&str]) -> BuildResult {
    let mut c = cargo();
    c.args(["build", "--offline", "--keep-going", "--message-format=short"]);
    // only the probe binary of each package (negative compile probes are extra [[bin]] targets)
    for n in names {
        c.args(["-p", n, "--bin", n]);
    }
    let out = c.output().expect("cargo build");
    BuildResult { ok: out.status.success(), stderr: String::from_utf8_lossy(&out.stderr).to_string() }
}

/// `cargo check` of individual bin targets of one package: which of them compile?
pub fn check_bins(pkg: &str, bins: &[String]) -> BTreeMap<String, (bool, String)> {
    let mut res = BTreeMap::new();
    // one invocation with --keep-going and JSON messages: a target failed iff a compiler error names it
    let mut c = cargo();
    c.args(["check", "--offline", "--keep-going", "--message-format=json", "-p", pkg]);
    for b in bins {
        c.args(["--bin", b]);
    }
    let out = c.output().expect("cargo check");
    let mut errors: BTreeMap<String, String> = BTreeMap::new();
    for line in String::from_utf8_lossy(&out.stdout).lines() {
        let Ok(v) = serde_json::from_str::<serde_json::Value>(line) else { continue };
        if v["reason"] == "compiler-message" && v["message"]["level"] == "error" {
            let target = v["target"]["name"].as_str().unwrap_or("").to_string();
            let msg = v["message"]["message"].as_str().unwrap_or("").to_string();
            errors.entry(target).or_insert(msg);
        }
    }
    for b in bins {
        match errors.get(b) {
            Some(m) => res.insert(b.clone(), (false, m.clone())),
            None => res.insert(b.clone(), (true, String::new())),
        };
    }
    if errors.is_empty() && !out.status.success() {
        // cargo itself failed: report on every target
        let err = String::from_utf8_lossy(&out.stderr).to_string();
        for b in bins {
            res.insert(b.clone(), (false, format!("cargo check failed: {}", vmodel::report::truncate(&err, 400))));
        }
    }
    res
}

/// run a built probe; returns id -> text
pub fn run(name: &str) -> Result<BTreeMap<usize, String>, String> {
    let exe = l3_target().join("debug").join(name);
    let out = Command::new(&exe).output().map_err(|e| format!("cannot run {}: {e}", exe.display()))?;
    let stdout = String::from_utf8_lossy(&out.stdout).to_string();
    let mut m = BTreeMap::new();
    for line in stdout.lines() {
        let Some((id, text)) = line.split_once('\t') else { continue };
        let Ok(id) = id.parse::<usize>() else { continue };
        // unescape
        let mut s = String::new();
        let mut it = text.chars();
        while let Some(c) = it.next() {
            if c == '\\' {
                match it.next() {
                    Some('n') => s.push('\n'),
                    Some('r') => s.push('\r'),
                    Some('t') => s.push('\t'),
                    Some('\\') => s.push('\\'),
                    Some(o) => {
                        s.push('\\');
                        s.push(o)
                    }
                    None => s.push('\\'),
                }
            } else {
                s.push(c);
            }
        }
        m.insert(id, s);
    }
    if !out.status.success() {
        return Err(format!(
            "probe {name} exited with {} after {} records; stderr: {}",
            out.status,
            m.len(),
            vmodel::report::truncate(&String::from_utf8_lossy(&out.stderr), 600)
        ));
    }
    Ok(m)
}

// ---------------------------------------------------------------------------------------------
// Argument synthesis from the model's signature
// ---------------------------------------------------------------------------------------------

pub fn rust_str(s: &str) -> String {
    format!("{:?}", s)
}

pub fn ident(k: &str) -> String {
    k.replace('-', "_")
}

pub fn key_path_tokens(ns: &Option<String>, path: &[String]) -> String {
    let mut v: Vec<String> = vec![];
    if let Some(n) = ns {
        v.push(ident(n));
    }
    v.extend(path.iter().map(|k| ident(k)));
    v.join(".")
}

pub fn locale_variant(l: &str) -> String {
    format!("Locale::{}", ident(l))
}

#[derive(Clone, Copy, PartialEq, Eq, Debug)]
pub enum Flavour {
    TdString,
    TdDisplay,
    Td,
    TString,
    TDisplay,
    T,
    TuString,
    TuDisplay,
    Tu,
}

impl Flavour {
    pub fn is_view(self) -> bool {
        matches!(self, Flavour::Td | Flavour::T | Flavour::Tu)
    }
    pub fn needs_ctx(self) -> bool {
        !matches!(self, Flavour::TdString | Flavour::TdDisplay | Flavour::Td)
    }
    pub fn macro_name(self) -> &'static str {
        match self {
            Flavour::TdString => "td_string",
            Flavour::TdDisplay => "td_display",
            Flavour::Td => "td",
            Flavour::TString => "t_string",
            Flavour::TDisplay => "t_display",
            Flavour::T => "t",
            Flavour::TuString => "tu_string",
            Flavour::TuDisplay => "tu_display",
            Flavour::Tu => "tu",
        }
    }
}

pub const ALL_FLAVOURS: [Flavour; 9] = [Flavour::TdString, Flavour::TdDisplay, Flavour::Td, Flavour::TString, Flavour::TDisplay, Flavour::T, Flavour::TuString, Flavour::TuDisplay, Flavour::Tu];

#[derive(Clone, Copy, PartialEq, Eq, Debug)]
pub enum Scoping {
    None,
    /// scope at a prefix of `k` segments in one step (`scope_locale!` / `scope_i18n!`)
    At(usize),
    /// one segment at a time, `k` steps
    Chained(usize),
    /// `use_i18n_scoped!(prefix)` (context flavours only)
    UseScoped(usize),
}

/// items giving probes a context: `ctx()` returns a process-wide I18nContext
pub const CTX_ITEMS: &str = r##"
static CTX: std::sync::OnceLock<leptos_i18n::I18nContext<Locale>> = std::sync::OnceLock::new();
fn ctx() -> leptos_i18n::I18nContext<Locale> {
    *CTX.get_or_init(|| {
        // tasks (the cookie-writing effect) are dropped: nothing here depends on effects running
        struct Noop;
        impl any_spawner::CustomExecutor for Noop {
            fn spawn(&self, _f: any_spawner::PinnedFuture<()>) {}
            fn spawn_local(&self, _f: any_spawner::PinnedLocalFuture<()>) {}
            fn poll_local(&self) {}
        }
        let _ = any_spawner::Executor::init_custom_executor(Noop);
        let owner = Owner::new();
        owner.set();
        let opts = leptos_i18n::context::I18nContextOptions::<Locale>::default()
            .enable_cookie(false)
            .ssr_lang_header_getter(leptos_i18n::context::UseLocalesOptions::default().ssr_lang_header_getter(|| None));
        let c = leptos_i18n::context::init_i18n_context_with_options::<Locale>(opts);
        provide_context(c);
        std::mem::forget(owner);
        c
    })
}
"##;

/// union of signatures over locales for a key
pub fn key_sig(m: &Model, ns: &Option<String>, path: &[String]) -> Sig {
    let mut sig = Sig::default();
    for loc in &m.locales {
        if m.defines(ns, loc, path) {
            if let Ok(r) = m.resolve(ns, loc, path) {
                sig.merge(&signature(&r));
            }
        }
    }
    sig
}

pub fn count_literal(kind: &CountKind, n: Num) -> String {
    match (kind, n) {
        (CountKind::Plural, Num::I(i)) => format!("{i}i64"),
        (CountKind::Plural, Num::F(f)) => format!("{f:?}f64"),
        (CountKind::Range(t), Num::I(i)) if !t.is_float() => format!("{i}{}", t.name()),
        (CountKind::Range(t), Num::I(i)) => format!("{i}.0{}", t.name()),
        (CountKind::Range(t), Num::F(f)) => {
            if *t == NumTy::F32 {
                format!("{:?}f32", f as f32)
            } else {
                format!("{f:?}f64")
            }
        }
    }
}

/// the `, name = value, <b> = ..` tail of a macro call + the Env describing the same arguments
fn syn_ident_ok(v: &str) -> bool {
    // a shorthand argument needs a plain identifier that does not collide with names the probe uses
    v.chars().all(|c| c.is_ascii_alphanumeric() || c == '_') && !matches!(v, "c" | "l" | "p" | "ctx" | "count" | "n")
}

/// when set, view flavours get `count = move || late_count() as T` (see `LATE_ITEMS`)
pub static LATE_COUNTS: std::sync::atomic::AtomicBool = std::sync::atomic::AtomicBool::new(false);

pub const LATE_ITEMS: &str = r##"
static LATE: std::sync::atomic::AtomicI64 = std::sync::atomic::AtomicI64::new(0);
fn late_count() -> i64 { LATE.load(std::sync::atomic::Ordering::SeqCst) }
fn set_late(n: i64) { LATE.store(n, std::sync::atomic::Ordering::SeqCst) }
"##;

pub fn args_for(sig: &Sig, flavour: Flavour, count: Num) -> Option<(String, Env)> {
    let mut parts = vec![];
    // let-bindings for the shorthand argument forms (`x`, `<b>`): variables of that name in scope
    let mut bindings = String::new();
    let shorthand = matches!(flavour, Flavour::Tu | Flavour::TuDisplay);
    let mut env = Env { html_tags: true, empty_child_space: flavour.is_view(), ..Default::default() };
    // "crossed" form (TdDisplay, Td): every argument expression is a local variable named like ANOTHER argument
    // (`x = y, y = x` with `let x = <y's value>; let y = <x's value>;`): arguments are bound simultaneously
    let plain_vars: Vec<&String> = sig.vars.keys().filter(|v| !sig.counts.contains_key(*v)).collect();
    let crossed = matches!(flavour, Flavour::TdDisplay | Flavour::Td) && plain_vars.len() >= 2 && plain_vars.iter().all(|v| syn_ident_ok(v));
    for (vi, v) in sig.vars.keys().filter(|v| !sig.counts.contains_key(*v)).enumerate() {
        let val = format!("\u{ab}{v}\u{bb}");
        if crossed {
            // the local named like the NEXT argument holds this argument's value
            let next = plain_vars[(vi + 1) % plain_vars.len()];
            bindings.push_str(&format!("let {} = {}; ", ident(next), rust_str(&val)));
            parts.push(format!("{} = {}", ident(v), ident(next)));
            env.vars.insert(v.clone(), val);
            continue;
        }
        if shorthand && syn_ident_ok(v) {
            bindings.push_str(&format!("let {} = {}; ", ident(v), rust_str(&val)));
            parts.push(ident(v));
        } else {
            parts.push(format!("{} = {}", ident(v), rust_str(&val)));
        }
        env.vars.insert(v.clone(), val);
    }
    for (v, kinds) in &sig.counts {
        let kind = kinds.iter().next()?;
        // the count must be representable in the count type
        let n = match kind {
            CountKind::Range(t) => t.coerce(count).ok()?,
            CountKind::Plural => count,
        };
        let lit = count_literal(kind, n);
        if flavour.is_view() && LATE_COUNTS.load(std::sync::atomic::Ordering::Relaxed) {
            // the count closure reads a cell the probe changes between building the view and rendering it
            let ty: String = lit.trim_start_matches(|c: char| c.is_ascii_digit() || c == '-' || c == '.' || c == 'e').to_string();
            parts.push(format!("{} = move || late_count() as {ty}", ident(v)));
        } else if flavour.is_view() {
            parts.push(format!("{} = move || {}", ident(v), lit));
        } else {
            parts.push(format!("{} = {}", ident(v), lit));
        }
        env.counts.insert(v.clone(), n);
    }
    for c in &sig.comps {
        if flavour.is_view() {
            if c != "b" && c != "i" {
                return None;
            }
            // the three ways a view component can be given: an expression, a variable of that name, a tag
            match flavour {
                Flavour::T => parts.push(format!("<{c}> = <{c} />")),
                Flavour::Tu => {
                    bindings.push_str(&format!("let {c} = comp_{c}; "));
                    parts.push(format!("<{c}>"));
                }
                _ => parts.push(format!("<{c}> = comp_{c}")),
            }
        } else if shorthand {
            bindings.push_str(&format!("let {c} = {}; ", rust_str(c)));
            parts.push(format!("<{c}>"));
        } else {
            // every way a component can be given to the string back-ends (same rendering: `<c>..</c>`)
            let form = match flavour {
                Flavour::TdDisplay | Flavour::TuString => format!("leptos_i18n::display::DisplayComp::new({}, &[])", rust_str(c)),
                Flavour::TString => format!("{}.to_string()", rust_str(c)),
                Flavour::TDisplay => format!(
                    "|f: &mut std::fmt::Formatter<'_>, ch: &dyn Fn(&mut std::fmt::Formatter<'_>) -> std::fmt::Result| {{ write!(f, \"<{c}>\")?; ch(f)?; write!(f, \"</{c}>\") }}"
                ),
                _ => rust_str(c),
            };
            parts.push(format!("<{c}> = {form}"));
        }
    }
    let mut tail = if parts.is_empty() { String::new() } else { format!(", {}", parts.join(", ")) };
    if !bindings.is_empty() {
        // carried to `scoped_call` behind a separator
        tail.push('\u{1}');
        tail.push_str(&bindings);
    }
    Some((tail, env))
}

pub fn call(flavour: Flavour, locale_expr: &str, key: &str, tail: &str) -> String {
    scoped_call(flavour, Scoping::None, locale_expr, &key.split('.').map(String::from).collect::<Vec<_>>(), tail)
}

/// an expression of type String reading `segments` (namespace first, if any) in `locale_expr`
pub fn scoped_call(flavour: Flavour, scoping: Scoping, locale_expr: &str, segments: &[String], tail: &str) -> String {
    scoped_call_switch(flavour, scoping, locale_expr, None, segments, tail)
}

/// `switch_to`: (context view flavours) the value is built under `locale_expr`, the context is then moved to
/// `switch_to`, and only then rendered: it must show the locale being rendered
pub fn scoped_call_switch(flavour: Flavour, scoping: Scoping, locale_expr: &str, switch_to: Option<&str>, segments: &[String], tail: &str) -> String {
    let mac = flavour.macro_name();
    let (tail, bindings) = match tail.split_once('\u{1}') {
        Some((t, b)) => (t, b),
        None => (tail, ""),
    };
    let wrap = |inner: String| if flavour.is_view() { format!("html({inner})") } else { format!("{inner}.to_string()") };
    let (k, chained, use_scoped) = match scoping {
        Scoping::None => (0, false, false),
        Scoping::At(k) => (k, false, false),
        Scoping::Chained(k) => (k, true, false),
        Scoping::UseScoped(k) => (k, false, true),
    };
    let prefix = &segments[..k];
    let rest = segments[k..].join(".");
    let mut pre = String::new();
    let source;
    if flavour.needs_ctx() {
        pre.push_str(&format!("ctx().set_locale({locale_expr}); "));
        if use_scoped {
            pre.push_str(&format!("let c = use_i18n_scoped!({}); ", prefix.join(".")));
        } else if k == 0 {
            pre.push_str("let c = ctx(); ");
        } else if chained {
            pre.push_str("let c = ctx(); ");
            for p in prefix {
                pre.push_str(&format!("let c = scope_i18n!(c, {p}); "));
            }
        } else {
            pre.push_str(&format!("let c = scope_i18n!(ctx(), {}); ", prefix.join(".")));
        }
        source = "c".to_string();
    } else if k == 0 {
        source = locale_expr.to_string();
    } else if chained {
        pre.push_str(&format!("let l = {locale_expr}; "));
        for p in prefix {
            pre.push_str(&format!("let l = scope_locale!(l, {p}); "));
        }
        source = "l".to_string();
    } else {
        pre.push_str(&format!("let l = scope_locale!({locale_expr}, {}); ", prefix.join(".")));
        source = "l".to_string();
    }
    if let Some(to) = switch_to {
        assert!(flavour.needs_ctx() && flavour.is_view());
        return format!("{{ {bindings}{pre}let v = {mac}!({source}, {rest}{tail}); ctx().set_locale({to}); html(v) }}");
    }
    format!("{{ {bindings}{pre}{} }}", wrap(format!("{mac}!({source}, {rest}{tail})")))
}

/// expected text of (ns, loc, path) under env
pub fn expected(m: &Model, ns: &Option<String>, loc: &str, path: &[String], env: &Env) -> Option<String> {
    let mut r = m.resolve(ns, loc, path).ok()?;
    set_plural_locale(&mut r, loc);
    render(&r, env).ok()
}
