//! HTML <script> extraction + a small ECMAScript literal reader (arrays, objects, strings with
//! every JS escape, null) — independent of the code that writes the script.

#[derive(Debug, Clone)]
pub struct Unit {
    pub locale: String,
    pub id: Option<String>,
    pub values: Vec<String>,
}

#[derive(Debug, Clone)]
enum J {
    Null,
    Str(String),
    Arr(Vec<J>),
    Obj(Vec<(String, J)>),
}

/// body of the first <script> element, cut the way the WHATWG HTML tokenizer cuts it: script data,
/// script data escaped (after `<!--`) and double escaped (`<script` inside an escaped run: there the
/// end tag does not close the element).
pub fn script_body(html: &str) -> Result<(String, String), String> {
    let lower = html.to_ascii_lowercase();
    let start = lower.find("<script").ok_or("no <script> element in the page")?;
    let open_end = lower[start..].find('>').ok_or("unterminated <script tag")? + start + 1;
    let b = lower.as_bytes();
    let delim = |i: usize| matches!(b.get(i), Some(b'>') | Some(b'/') | Some(b' ') | Some(b'\t') | Some(b'\n') | Some(b'\x0c') | Some(b'\r'));
    let at = |i: usize, pat: &str| b.len() >= i + pat.len() && &b[i..i + pat.len()] == pat.as_bytes();
    #[derive(Clone, Copy, PartialEq)]
    enum S {
        Data,
        Esc(u8),
        Dbl(u8),
    }
    let mut st = S::Data;
    let mut i = open_end;
    while i < b.len() {
        let c = b[i];
        match st {
            S::Data => {
                if at(i, "<!--") {
                    st = S::Esc(2);
                    i += 4;
                } else if at(i, "</script") && delim(i + 8) {
                    let rest_start = lower[i..].find('>').map(|e| i + e + 1).unwrap_or(html.len());
                    return Ok((html[open_end..i].to_string(), html[rest_start..].to_string()));
                } else {
                    i += 1;
                }
            }
            S::Esc(d) => {
                if c == b'-' {
                    st = S::Esc((d + 1).min(2));
                    i += 1;
                } else if c == b'<' {
                    if at(i, "</script") && delim(i + 8) {
                        let rest_start = lower[i..].find('>').map(|e| i + e + 1).unwrap_or(html.len());
                        return Ok((html[open_end..i].to_string(), html[rest_start..].to_string()));
                    }
                    if at(i, "<script") && delim(i + 7) {
                        st = S::Dbl(0);
                        i += 8;
                    } else {
                        st = S::Esc(0);
                        i += 1;
                    }
                } else if c == b'>' && d == 2 {
                    st = S::Data;
                    i += 1;
                } else {
                    st = S::Esc(0);
                    i += 1;
                }
            }
            S::Dbl(d) => {
                if c == b'-' {
                    st = S::Dbl((d + 1).min(2));
                    i += 1;
                } else if c == b'<' {
                    if at(i, "</script") && delim(i + 8) {
                        st = S::Esc(0);
                        i += 9;
                    } else {
                        st = S::Dbl(0);
                        i += 1;
                    }
                } else if c == b'>' && d == 2 {
                    st = S::Data;
                    i += 1;
                } else {
                    st = S::Dbl(0);
                    i += 1;
                }
            }
        }
    }
    Err(match st {
        S::Dbl(_) => "an HTML tokenizer never finds the end of the script element (script data double escaped state: `<!--` then `<script` inside the data)".to_string(),
        _ => "no </script> end tag".to_string(),
    })
}

struct P<'a> {
    s: &'a [char],
    i: usize,
}

impl P<'_> {
    fn ws(&mut self) {
        while self.i < self.s.len() && (self.s[self.i].is_whitespace()) {
            self.i += 1;
        }
    }
    fn eat(&mut self, c: char) -> Result<(), String> {
        self.ws();
        if self.s.get(self.i) == Some(&c) {
            self.i += 1;
            Ok(())
        } else {
            Err(format!("expected {c:?} at offset {}, found {:?}", self.i, self.s.get(self.i)))
        }
    }
    fn value(&mut self) -> Result<J, String> {
        self.ws();
        match self.s.get(self.i) {
            Some('[') => {
                self.i += 1;
                let mut v = vec![];
                loop {
                    self.ws();
                    if self.s.get(self.i) == Some(&']') {
                        self.i += 1;
                        return Ok(J::Arr(v));
                    }
                    v.push(self.value()?);
                    self.ws();
                    match self.s.get(self.i) {
                        Some(',') => self.i += 1,
                        Some(']') => {}
                        o => return Err(format!("expected , or ] at offset {}, found {o:?}", self.i)),
                    }
                }
            }
            Some('{') => {
                self.i += 1;
                let mut v = vec![];
                loop {
                    self.ws();
                    if self.s.get(self.i) == Some(&'}') {
                        self.i += 1;
                        return Ok(J::Obj(v));
                    }
                    let k = match self.value()? {
                        J::Str(k) => k,
                        o => return Err(format!("object key is not a string: {o:?}")),
                    };
                    self.eat(':')?;
                    let val = self.value()?;
                    v.push((k, val));
                    self.ws();
                    match self.s.get(self.i) {
                        Some(',') => self.i += 1,
                        Some('}') => {}
                        o => return Err(format!("expected , or }} at offset {}, found {o:?}", self.i)),
                    }
                }
            }
            Some(q @ ('"' | '\'')) => {
                let q = *q;
                self.i += 1;
                let mut out = String::new();
                loop {
                    let c = *self.s.get(self.i).ok_or("unterminated string literal")?;
                    self.i += 1;
                    if c == q {
                        return Ok(J::Str(out));
                    }
                    match c {
                        '\n' | '\r' => return Err(format!("raw line terminator inside a string literal at offset {}", self.i - 1)),
                        '\\' => {
                            let e = *self.s.get(self.i).ok_or("dangling backslash")?;
                            self.i += 1;
                            match e {
                                'n' => out.push('\n'),
                                'r' => out.push('\r'),
                                't' => out.push('\t'),
                                'b' => out.push('\u{8}'),
                                'f' => out.push('\u{c}'),
                                'v' => out.push('\u{b}'),
                                '0' if !self.s.get(self.i).map(|c| c.is_ascii_digit()).unwrap_or(false) => out.push('\0'),
                                'x' => {
                                    let h: String = self.s.get(self.i..self.i + 2).ok_or("short \\x escape")?.iter().collect();
                                    self.i += 2;
                                    out.push(char::from_u32(u32::from_str_radix(&h, 16).map_err(|_| format!("bad \\x escape {h:?}"))?).ok_or("bad \\x code")?);
                                }
                                'u' => {
                                    let cp = if self.s.get(self.i) == Some(&'{') {
                                        let end = self.s[self.i..].iter().position(|c| *c == '}').ok_or("unterminated \\u{")?;
                                        let h: String = self.s[self.i + 1..self.i + end].iter().collect();
                                        self.i += end + 1;
                                        u32::from_str_radix(&h, 16).map_err(|_| format!("bad \\u{{}} escape {h:?}"))?
                                    } else {
                                        let h: String = self.s.get(self.i..self.i + 4).ok_or("short \\u escape")?.iter().collect();
                                        self.i += 4;
                                        u32::from_str_radix(&h, 16).map_err(|_| format!("bad \\u escape {h:?}"))?
                                    };
                                    if (0xd800..0xdc00).contains(&cp) {
                                        // surrogate pair
                                        if self.s.get(self.i) == Some(&'\\') && self.s.get(self.i + 1) == Some(&'u') {
                                            let h: String = self.s.get(self.i + 2..self.i + 6).ok_or("short low surrogate")?.iter().collect();
                                            let lo = u32::from_str_radix(&h, 16).map_err(|_| "bad low surrogate")?;
                                            self.i += 6;
                                            let c = 0x10000 + ((cp - 0xd800) << 10) + (lo - 0xdc00);
                                            out.push(char::from_u32(c).ok_or("bad surrogate pair")?);
                                        } else {
                                            return Err("lone surrogate escape".into());
                                        }
                                    } else {
                                        out.push(char::from_u32(cp).ok_or("bad code point")?);
                                    }
                                }
                                '\n' | '\u{2028}' | '\u{2029}' => {} // line continuation
                                '\r' => {
                                    if self.s.get(self.i) == Some(&'\n') {
                                        self.i += 1;
                                    }
                                }
                                o => out.push(o), // identity escape (\" \\ \/ \' ...)
                            }
                        }
                        c => out.push(c),
                    }
                }
            }
            Some('n') if self.s[self.i..].starts_with(&['n', 'u', 'l', 'l']) => {
                self.i += 4;
                Ok(J::Null)
            }
            o => Err(format!("unexpected {o:?} at offset {}", self.i)),
        }
    }
}

/// Every script element of the page is evaluated in document order, as a browser does: each must be a valid
/// assignment, and what the hydrating client finds is the value of the LAST one.
pub fn extract_and_decode(html: &str) -> Result<Vec<Unit>, String> {
    let mut page = html.to_string();
    let mut last = None;
    let mut n = 0;
    loop {
        let (body, rest) = script_body(&page)?;
        n += 1;
        last = Some(decode_one(&body).map_err(|e| format!("script element #{n}: {e}"))?);
        if !rest.to_ascii_lowercase().contains("<script") {
            // nothing of the script may leak into the page after the last element
            if rest.contains("__LEPTOS_I18N") || rest.contains("\"values\"") {
                return Err("the script element ends early: its tail is rendered as page content".into());
            }
            break;
        }
        page = rest;
    }
    Ok(last.unwrap())
}

fn decode_one(body: &str) -> Result<Vec<Unit>, String> {
    let chars: Vec<char> = body.chars().collect();
    let mut p = P { s: &chars, i: 0 };
    p.ws();
    let prefix: Vec<char> = "window.__LEPTOS_I18N_TRANSLATIONS".chars().collect();
    if !p.s[p.i..].starts_with(&prefix) {
        return Err(format!("script does not start with the assignment: {:?}", body.chars().take(60).collect::<String>()));
    }
    p.i += prefix.len();
    p.eat('=')?;
    let v = p.value()?;
    p.ws();
    if p.s.get(p.i) == Some(&';') {
        p.i += 1;
    }
    p.ws();
    if p.i != p.s.len() {
        return Err(format!("trailing content after the array literal at offset {}: {:?}", p.i, p.s[p.i..].iter().take(40).collect::<String>()));
    }
    let J::Arr(items) = v else { return Err("assigned value is not an array".into()) };
    let mut out = vec![];
    for it in items {
        let J::Obj(fields) = it else { return Err("array element is not an object".into()) };
        let get = |k: &str| fields.iter().find(|(n, _)| n == k).map(|(_, v)| v.clone());
        let locale = match get("locale") {
            Some(J::Str(s)) => s,
            o => return Err(format!("bad locale field {o:?}")),
        };
        let id = match get("id") {
            Some(J::Str(s)) => Some(s),
            Some(J::Null) => None,
            o => return Err(format!("bad id field {o:?}")),
        };
        let values = match get("values") {
            Some(J::Arr(v)) => v
                .into_iter()
                .map(|x| match x {
                    J::Str(s) => Ok(s),
                    o => Err(format!("non-string value {o:?}")),
                })
                .collect::<Result<Vec<_>, _>>()?,
            o => return Err(format!("bad values field {o:?}")),
        };
        out.push(Unit { locale, id, values });
    }
    Ok(out)
}
