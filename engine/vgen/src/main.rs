//! vgen: L3 orchestrator. Generates probe crates from ASTs, compiles them through the real
//! proc-macro + rustc, runs them and compares every record with the reference model.

mod probe;

use probe::*;
use serde_json::json;
use std::collections::BTreeMap;
use vmodel::ast::*;
use vmodel::enumerate::*;
use vmodel::model::*;
use vmodel::{Reporter, Tier};

pub struct Expect {
    pub probe: String,
    pub what: String,
    pub text: String,
    /// the record only has to end with `text`
    pub suffix: bool,
}

/// A probe under construction together with what each record must be.
pub struct Case {
    pub probe: Probe,
    pub expected: BTreeMap<usize, Expect>,
    pub next_id: usize,
}

impl Case {
    pub fn new(name: &str, project: Project) -> Case {
        Case { probe: Probe::new(name, project), expected: BTreeMap::new(), next_id: 0 }
    }
    pub fn add(&mut self, expr: String, what: String, text: String) {
        let id = self.next_id;
        self.next_id += 1;
        self.probe.stmts.push(format!("p({id}, {expr});"));
        self.expected.insert(id, Expect { probe: self.probe.name.clone(), what, text, suffix: false });
    }
    /// a summary record that must end with `suffix`; the probe reports individual problems as records >= 1_000_000
    pub fn add_summary(&mut self, stmt: String, what: String, suffix: &str) {
        let id = self.next_id;
        self.next_id += 1;
        self.probe.stmts.push(stmt.replace("$ID", &id.to_string()));
        self.expected.insert(id, Expect { probe: self.probe.name.clone(), what, text: suffix.to_string(), suffix: true });
    }

    /// every key of the default locale x every locale x flavours x counts
    pub fn add_all_keys(&mut self, flavours: &[Flavour], counts: &[Num], view_every: usize) {
        let project = self.probe.project.clone();
        let m = Model::new(&project);
        let mut k = 0usize;
        for ns in m.namespaces() {
            for path in m.default_keys(&ns) {
                let sig = key_sig(&m, &ns, &path);
                let key = key_path_tokens(&ns, &path);
                k += 1;
                for loc in &m.locales {
                    for fl in flavours {
                        if *fl == Flavour::Td && view_every > 1 && k % view_every != 0 {
                            continue;
                        }
                        let cs: Vec<Num> = if sig.counts.is_empty() { vec![Num::I(0)] } else { counts.to_vec() };
                        for c in cs {
                            let Some((tail, env)) = args_for(&sig, *fl, c) else { continue };
                            let Some(text) = expected(&m, &ns, loc, &path, &env) else { continue };
                            let src = describe_key(&project, &ns, loc, &path);
                            self.add(call(*fl, &locale_variant(loc), &key, &tail), format!("{fl:?} {key} @{loc} count={c:?} value={src}"), text);
                        }
                    }
                }
            }
        }
    }
}

fn describe_key(p: &Project, ns: &Option<String>, loc: &str, path: &[String]) -> String {
    fn find<'a>(e: &'a [(String, Val)], path: &[String]) -> Option<&'a Val> {
        let (k, rest) = path.split_first()?;
        let v = &e.iter().find(|(n, _)| n == k)?.1;
        if rest.is_empty() {
            Some(v)
        } else if let Val::Sub(s) = v {
            find(s, rest)
        } else {
            None
        }
    }
    p.files.get(&(ns.clone(), loc.to_string())).and_then(|e| find(e, path)).map(val_json).unwrap_or_else(|| "<absent/merged>".into())
}

/// write, build, run and judge a set of cases
pub fn execute(rep: &Reporter, pid: &str, cases: Vec<Case>) {
    for c in &cases {
        if let Err(e) = c.probe.write() {
            vmodel::report::machinery_fail(&format!("cannot write probe {}: {e}", c.probe.name));
        }
    }
    if let Err(e) = write_workspace() {
        vmodel::report::machinery_fail(&format!("cannot write the L3 workspace: {e}"));
    }
    let names: Vec<&str> = cases.iter().map(|c| c.probe.name.as_str()).collect();
    let t = std::time::Instant::now();
    let b = build(&names);
    rep.count("build_seconds", t.elapsed().as_secs());
    for c in &cases {
        let exe = l3_target().join("debug").join(&c.probe.name);
        let failed = !b.ok && (b.stderr.contains(&format!("could not compile `{}`", c.probe.name)) || !exe.exists());
        if failed {
            // first error lines mentioning this crate
            let errs: Vec<&str> = b.stderr.lines().filter(|l| l.contains("error")).take(6).collect();
            if b.stderr.contains("could not compile `leptos_i18n") || b.stderr.contains("could not compile `leptos`") {
                vmodel::report::machinery_fail(&format!("the library itself does not build for the probes: {}", errs.join(" | ")));
            }
            rep.violation(
                format!("{pid}/L3: generated code does not compile for a valid project (probe {}): {}", c.probe.name, vmodel::report::truncate(&errs.join(" | "), 600)),
                json!({"probe_dir": c.probe.dir().display().to_string(), "stderr_tail": vmodel::report::truncate(&b.stderr, 3000)}),
            );
            continue;
        }
        match run(&c.probe.name) {
            Err(e) => rep.violation(format!("{pid}/L3: {e}"), json!({"probe_dir": c.probe.dir().display().to_string()})),
            Ok(records) => {
                for (id, text) in records.iter().filter(|(id, _)| **id >= 1_000_000) {
                    rep.violation(format!("{pid}/L3: probe {} reports: {}", c.probe.name, vmodel::report::truncate(text, 500)), json!({"record": id}));
                }
                for (id, exp) in &c.expected {
                    rep.eval(1);
                    match records.get(id) {
                        None => rep.violation(format!("{pid}/L3: probe {} produced no record for {}", c.probe.name, exp.what), json!({})),
                        Some(got) if exp.suffix => {
                            if !got.ends_with(&exp.text) {
                                rep.violation(format!("{pid}/L3: {} -> {:?}", exp.what, got), json!({"probe_dir": c.probe.dir().display().to_string()}));
                            } else if let Some(n) = got.split("checked=").nth(1).and_then(|t| t.split(' ').next()).and_then(|n| n.parse::<u64>().ok()) {
                                rep.eval(n);
                            }
                        }
                        Some(got) if *got != exp.text => rep.violation(
                            format!("{pid}/L3: {} -> {:?}, expected {:?}", exp.what, got, exp.text),
                            json!({"probe_dir": c.probe.dir().display().to_string(), "record": id}),
                        ),
                        Some(_) => {}
                    }
                }
            }
        }
    }
}

const PAYLOADS: [&str; 12] = ["", " ", "  ", "é", "🎉", "\u{a0}", "\"", "\\", "\n", ">", "}", "a b"];

fn c01(tier: Tier) -> i32 {
    let rep = Reporter::new("C01", "L3", tier);
    let max_nodes = tier.pick(3, 4);
    let mut values: Vec<(Val, Val)> = vec![];
    for n in 1..=max_nodes {
        for (i, f) in forests(n, &["x", "y"], &["b", "i"]).into_iter().enumerate() {
            let mut a = f.clone();
            let mut c = i;
            label_texts(&mut a, &format!("en{}", values.len()), &PAYLOADS, &mut c);
            let mut b: Vec<Seg> = f.iter().rev().cloned().collect();
            let mut c2 = i + 5;
            label_texts(&mut b, &format!("fr{}", values.len()), &PAYLOADS, &mut c2);
            values.push((s(a), s(b)));
        }
    }
    // whitespace inside tags and variables
    for ws in [[1u8, 1, 1, 1, 1], [2, 0, 0, 2, 1], [0, 2, 1, 0, 2]] {
        let mut a = vec![text("[w]"), comp("b", vec![var("x"), text("[in]")]), text("[tail]")];
        set_ws(&mut a, ws, [ws[0], ws[4]]);
        values.push((s(a.clone()), s(a)));
    }
    // literals of every JSON type
    for (a, b) in [
        (Val::UInt(7), Val::UInt(9)),
        (Val::Int(-3), Val::Int(4)),
        (Val::Float("1.5".into()), Val::Float("-2.25".into())),
        (Val::Bool(true), Val::Bool(false)),
        (Val::UInt(7), st("sept")),
        (st(""), Val::Bool(true)),
        (Val::UInt(u64::MAX), Val::Int(i64::MIN)),
    ] {
        values.push((a, b));
    }
    // wide values: the generator chunks long blocs into nested tuples
    for width in [27usize, 60] {
        let mut segs = vec![];
        for i in 0..width {
            segs.push(text(&format!("[w{width}.{i}]")));
            segs.push(if i % 3 == 2 { comp("b", vec![var("y")]) } else { var("x") });
        }
        let rev: Vec<Seg> = segs.iter().rev().cloned().collect();
        values.push((s(segs), s(rev)));
    }
    let mut cases = vec![];
    // container 0: top level; 1: nested subkeys; 2: two namespaces
    let per = 150;
    for (ci, chunk) in values.chunks(per).enumerate() {
        let mut en = vec![];
        let mut fr = vec![];
        for (i, (a, b)) in chunk.iter().enumerate() {
            en.push((format!("k{i}"), a.clone()));
            fr.push((format!("k{i}"), b.clone()));
        }
        let mut p = Project::new(Config::simple("en", &["en", "fr"]));
        p.set_file(None, "en", en.clone());
        p.set_file(None, "fr", fr.clone());
        let mut c = Case::new(&format!("c01_{}_top{ci}", tier.name()), p);
        c.add_all_keys(&[Flavour::TdString, Flavour::TdDisplay, Flavour::Td], &[Num::I(0)], tier.pick(3, 1));
        cases.push(c);
        if ci == 0 {
            let thin = |v: &Vec<(String, Val)>| v.iter().step_by(4).cloned().collect::<Vec<_>>();
            let mut p = Project::new(Config::simple("en", &["fr", "en"]).with_namespaces(&["first", "second"]));
            p.set_file(Some("first"), "en", vec![("g".into(), Val::Sub(vec![("h".into(), Val::Sub(thin(&en))), ("k0".into(), st("[decoy]"))]))]);
            p.set_file(Some("first"), "fr", vec![("g".into(), Val::Sub(vec![("h".into(), Val::Sub(thin(&fr))), ("k0".into(), st("[decoy-fr]"))]))]);
            p.set_file(Some("second"), "en", thin(&fr));
            p.set_file(Some("second"), "fr", thin(&en));
            let mut c = Case::new(&format!("c01_{}_containers", tier.name()), p);
            c.add_all_keys(&[Flavour::TdString, Flavour::Td], &[Num::I(0)], 4);
            cases.push(c);
        }
    }
    if tier == Tier::Thorough {
        // 17 locales: EitherOfWrapper nesting in the generated match
        let locs = ["en", "fr", "de", "it", "es", "pt", "nl", "sv", "da", "fi", "pl", "cs", "ru", "uk", "ja", "ko", "zh"];
        let mut p = Project::new(Config::simple("en", &locs));
        for l in locs {
            p.set_file(None, l, vec![("a".into(), s(vec![text(&format!("[{l}.a]")), var("x")])), ("b".into(), s(vec![comp("b", vec![text(&format!("[{l}.b]"))]), var("y")])), ("c".into(), st(&format!("[{l}.c]")))]);
        }
        let mut c = Case::new("c01_thorough_17locales", p);
        c.add_all_keys(&[Flavour::TdString, Flavour::Td], &[Num::I(0)], 1);
        cases.push(c);
    }
    let n_values = values.len();
    execute(&rep, "C01", cases);
    rep.nontriv(n_values as u64);
    rep.sample(json!({"probe_call": "td_string!(Locale::fr, k17, x = \"«x»\", <b> = \"b\").to_string()", "value_source": val_json(&values[17].1)}));
    let mut cov = serde_json::Map::new();
    cov.insert("rule".into(), json!(format!("every forest of Text|Var{{x,y}}|Comp{{b,i}} with <= {max_nodes} nodes (self-identifying text, rotating payloads incl. quotes, backslash, newline, NBSP, astral), whitespace variants, every JSON literal type (same and mixed across locales), 27- and 60-segment values; placed at top level, in nested subkeys and in two namespaces with swapped values (thorough: a 17-locale project); each key in each locale through td_string!, td_display! and td! -> to_html() of a probe crate compiled with the real proc-macro; expected text from the reference renderer; distinct_nontrivial = distinct (en,fr) value pairs")));
    cov.insert("exhaustive".into(), json!(true));
    rep.finish(cov, &["view output is normalised like the repository's tests (comments, hydration keys and <!> markers stripped, entities decoded)"])
}

fn rbr(v: Val, counts: Vec<CountSpec>) -> Branch {
    Branch { value: Box::new(v), counts, map_form: false, value_first: false }
}

/// one key of every kind, at top level and nested, in two namespaces
pub fn kinds_entries(loc: &str, ns: &str) -> Vec<(String, Val)> {
    let t = |k: &str| format!("[{loc}.{ns}.{k}]");
    let leafs = |pre: &str| -> Vec<(String, Val)> {
        vec![
            ("lit".into(), st(&t(&format!("{pre}lit")))),
            ("num".into(), Val::UInt(if loc == "en" { 7 } else { 9 })),
            ("flag".into(), Val::Bool(loc == "en")),
            ("interp".into(), s(vec![text(&t(&format!("{pre}interp"))), var("x"), text("|"), var_ws("y", 1, 1)])),
            ("compo".into(), s(vec![comp("b", vec![text(&t(&format!("{pre}compo"))), var("x")]), comp("i", vec![])])),
            (
                "range".into(),
                Val::Range(RangeDecl {
                    ty: Some("u8".into()),
                    branches: vec![rbr(st(&t(&format!("{pre}range.0"))), vec![CountSpec::UInt(0)]), rbr(s(vec![text(&t(&format!("{pre}range.1-2"))), var("x")]), vec![CountSpec::Str("1..=2".into())]), rbr(s(vec![text(&t(&format!("{pre}range.fb"))), var("count")]), vec![])],
                }),
            ),
            (
                "frange".into(),
                Val::Range(RangeDecl {
                    ty: Some("f32".into()),
                    branches: vec![rbr(st(&t(&format!("{pre}frange.lt1"))), vec![CountSpec::Str("..1.0".into())]), rbr(s(vec![text(&t(&format!("{pre}frange.fb"))), var("count")]), vec![])],
                }),
            ),
            ("plu_one".into(), s(vec![text(&t(&format!("{pre}plu.one"))), var("count")])),
            ("plu_other".into(), s(vec![text(&t(&format!("{pre}plu.other"))), var("count"), var("x")])),
            ("ord_ordinal_one".into(), s(vec![var("count"), text(&t(&format!("{pre}ord.one")))])),
            ("ord_ordinal_two".into(), s(vec![var("count"), text(&t(&format!("{pre}ord.two")))])),
            ("ord_ordinal_other".into(), s(vec![var("count"), text(&t(&format!("{pre}ord.other")))])),
        ]
    };
    let mut e = leafs("");
    let fkp = |k: &str| format!("{ns}:{k}");
    e.push(("fk".into(), s(vec![text("<"), fk(&fkp("interp")), text(">")])));
    e.push(("fk_args".into(), s(vec![fk_args(&fkp("range"), vec![("count", FkArg::Str(vec![var("n")])), ("x", FkArg::Str(vec![text("X")]))])])));
    e.push(("fk_lit".into(), s(vec![fk_args(&fkp("plu"), vec![("count", FkArg::UInt(1))])])));
    e.push(("g".into(), Val::Sub(vec![("h".into(), Val::Sub(leafs("g.h."))), ("top".into(), st(&t("g.top")))])));
    e
}

pub fn kinds_project() -> Project {
    let mut cfg = Config::simple("en", &["en", "fr", "de"]).with_namespaces(&["main", "other"]);
    cfg.inherits = vec![("de".into(), "fr".into())];
    let mut p = Project::new(cfg);
    for ns in ["main", "other"] {
        for loc in ["en", "fr"] {
            p.set_file(Some(ns), loc, kinds_entries(loc, ns));
        }
        // de: defines a few keys, nulls others (explicit default -> fr through inherits), misses the rest
        let mut de: Vec<(String, Val)> = vec![];
        for (k, v) in kinds_entries("de", ns) {
            match k.as_str() {
                "lit" | "interp" | "range" | "plu_one" | "plu_other" => de.push((k, v)),
                "compo" | "frange" | "fk" => de.push((k, Val::Null)),
                "g" => de.push((k, Val::Sub(vec![("h".into(), Val::Null), ("top".into(), st(&format!("[de.{ns}.g.top]")))]))),
                _ => {}
            }
        }
        p.set_file(Some(ns), "de", de);
    }
    p
}

fn c02(tier: Tier) -> i32 {
    let rep = Reporter::new("C02", "L3", tier);
    let project = kinds_project();
    let m = Model::new(&project);
    let counts: Vec<Num> = vec![Num::I(0), Num::I(1), Num::I(2), Num::I(5)];
    // one probe crate per namespace half keeps compile units moderate
    let mut cases = vec![];
    let mut n_keys = 0u64;
    for (ci, ns) in m.namespaces().into_iter().enumerate() {
        let mut c = Case::new(&format!("c02_{}_{ci}", tier.name()), project.clone());
        c.probe.items.push_str(CTX_ITEMS);
        for path in m.default_keys(&ns) {
            n_keys += 1;
            let sig = key_sig(&m, &ns, &path);
            let mut segments: Vec<String> = vec![];
            if let Some(n) = &ns {
                segments.push(ident(n));
            }
            segments.extend(path.iter().map(|k| ident(k)));
            let key = segments.join(".");
            for loc in &m.locales {
                for fl in ALL_FLAVOURS {
                    // thin out the (expensive to compile) view flavours in the quick tier
                    if tier == Tier::Quick && fl.is_view() && fl != Flavour::T && path.len() == 1 && !matches!(path[0].as_str(), "interp" | "compo" | "range" | "plu") {
                        continue;
                    }
                    let mut scopings = vec![Scoping::None];
                    for k in 1..segments.len() {
                        scopings.push(Scoping::At(k));
                        if k > 1 {
                            scopings.push(Scoping::Chained(k));
                        }
                        if fl.needs_ctx() {
                            scopings.push(Scoping::UseScoped(k));
                        }
                    }
                    let cs: Vec<Num> = if sig.counts.is_empty() { vec![Num::I(0)] } else { counts.clone() };
                    for sc in scopings {
                        // deep scoping variants only for string output (cheap to compile) unless thorough
                        if sc != Scoping::None && fl.is_view() && tier == Tier::Quick {
                            continue;
                        }
                        for cnt in &cs {
                            if sc != Scoping::None && *cnt != cs[0] && tier == Tier::Quick {
                                continue;
                            }
                            let Some((tail, env)) = args_for(&sig, fl, *cnt) else { continue };
                            let Some(text) = expected(&m, &ns, loc, &path, &env) else { continue };
                            c.add(scoped_call(fl, sc, &locale_variant(loc), &segments, &tail), format!("{fl:?} {sc:?} {key} @{loc} count={cnt:?}"), text);
                        }
                    }
                }
                // const accessor chain for plain literals
                if sig.is_empty() {
                    if let Ok(r) = m.resolve(&ns, loc, &path) {
                        if r.iter().all(|x| matches!(x, R::Text(_))) {
                            let chain: String = segments.iter().map(|s| format!(".{s}()")).collect();
                            let text = render(&r, &Env::default()).unwrap_or_default();
                            c.add(format!("{}.get_keys_const(){chain}.inner().to_string()", locale_variant(loc)), format!("const chain {key} @{loc}"), text);
                        }
                    }
                }
            }
        }
        cases.push(c);
    }
    execute(&rep, "C02", cases);
    rep.nontriv(n_keys * m.locales.len() as u64);
    rep.sample(json!({"probe_call": "{ ctx().set_locale(Locale::de); let c = ctx(); let c = scope_i18n!(c, main); let c = scope_i18n!(c, g); t_string!(c, h.interp, x = \"«x»\", y = \"«y»\").to_string() }"}));
    let mut cov = serde_json::Map::new();
    cov.insert("rule".into(), json!("project with one key of every kind (string, number, bool, interpolation, components, u8 range, f32 range, cardinal plural, ordinal plural, foreign keys plain / with renamed count / with literal count) at top level and at depth 3, in two namespaces, three locales (de inherits fr, holds explicit nulls and gaps); every key x every locale x 9 flavours (td/t/tu x view/string/display) x scoping at every proper prefix (one step, chained one segment at a time, use_i18n_scoped!) x counts {0,1,2,5}, plus the const accessor chain for plain literals; context flavours run on a natively created I18nContext whose locale is set before each call; every record must equal the reference rendering (hence all flavours agree pairwise); quick tier thins view flavours under scoping"));
    cov.insert("exhaustive".into(), json!(tier == Tier::Thorough));
    rep.finish(cov, &["tu!/tu_string! read the context untracked: same value, no subscription (subscription is not observable here)"])
}

const C13_ITEMS: &str = r##"
use std::str::FromStr;
use leptos_i18n::Locale as _;

fn c13_strings(names: &[&str]) -> Vec<String> {
    let mut out: std::collections::BTreeSet<String> = Default::default();
    let mut letters: std::collections::BTreeSet<char> = Default::default();
    for n in names {
        for c in n.chars() {
            letters.insert(c);
            letters.extend(c.to_lowercase());
            letters.extend(c.to_uppercase());
        }
    }
    let extra = ['-', '_', ' ', '\t'];
    for n in names {
        let chars: Vec<char> = n.chars().collect();
        out.insert(n.to_string());
        // all case flips
        let k = chars.len().min(12);
        for mask in 0u32..(1u32 << k) {
            let s: String = chars.iter().enumerate().map(|(i, c)| if i < k && mask >> i & 1 == 1 { if c.is_lowercase() { c.to_ascii_uppercase() } else { c.to_ascii_lowercase() } } else { *c }).collect();
            out.insert(s);
        }
        // proper prefixes and suffixes
        for i in 0..chars.len() {
            out.insert(chars[..i].iter().collect());
            out.insert(chars[i..].iter().collect());
        }
        // one-character insertion / deletion / substitution
        let alphabet: Vec<char> = letters.iter().copied().chain(extra).collect();
        for i in 0..=chars.len() {
            for a in &alphabet {
                let mut v = chars.clone();
                v.insert(i, *a);
                out.insert(v.iter().collect());
                if i < chars.len() {
                    let mut v = chars.clone();
                    v[i] = *a;
                    out.insert(v.iter().collect());
                }
            }
            if i < chars.len() {
                let mut v = chars.clone();
                v.remove(i);
                out.insert(v.iter().collect());
            }
        }
        for ws in [" ", "  ", "\t", "\n", "\u{a0}", "\u{3000}"] {
            out.insert(format!("{ws}{n}"));
            out.insert(format!("{n}{ws}"));
            out.insert(format!("{ws}{n}{ws}"));
        }
        out.insert(n.replace('-', "_"));
        out.insert(n.replace('-', ""));
    }
    // every string of length <= 4 over the lower-case letters and '-' of the names
    let small: Vec<char> = letters.iter().copied().filter(|c| c.is_lowercase() || *c == '-').take(9).chain(['-']).collect();
    let mut cur: Vec<String> = vec![String::new()];
    for _ in 0..4 {
        let mut next = vec![];
        for s in &cur {
            for c in &small {
                let mut t = s.clone();
                t.push(*c);
                next.push(t);
            }
        }
        out.extend(next.iter().cloned());
        cur = next;
    }
    out.into_iter().collect()
}

fn c13_check(names: &[&str], default: &str) -> (u64, Vec<String>) {
    use leptos_i18n::reexports::icu::locid::{LanguageIdentifier, Locale as IcuLocale};
    let mut problems = vec![];
    let mut n = 0u64;
    let all = Locale::get_all();
    let got: Vec<&str> = all.iter().map(|l| l.as_str()).collect();
    let mut want: Vec<&str> = names.to_vec();
    want.retain(|x| *x != default);
    want.insert(0, default);
    let mut gs = got.clone(); gs.sort();
    let mut wsort = want.clone(); wsort.sort();
    if gs != wsort { problems.push(format!("get_all() is {got:?}, configured set {want:?}")); }
    if got.first() != Some(&default) { problems.push(format!("get_all() = {got:?} does not start with the default {default}")); }
    let mut dedup = gs.clone(); dedup.dedup();
    if dedup.len() != gs.len() { problems.push(format!("get_all() lists a locale twice: {got:?}")); }
    if Locale::default().as_str() != default { problems.push(format!("Default::default() is {}", Locale::default().as_str())); }
    let ld = icu_locid_transform::LocaleDirectionality::new();
    for l in all {
        let name = l.as_str();
        n += 1;
        if !names.contains(&name) { problems.push(format!("as_str() = {name:?} is not a configured name")); continue; }
        if l.to_string() != name { problems.push(format!("Display of {name} is {:?}", l.to_string())); }
        if AsRef::<str>::as_ref(l) != name { problems.push(format!("AsRef<str> of {name} differs")); }
        match serde_json::to_string(l) {
            Ok(s) if s == format!("\"{name}\"") => {}
            other => problems.push(format!("serde serialisation of {name} is {other:?}")),
        }
        match name.parse::<IcuLocale>() {
            Ok(icu) => {
                if *l.as_icu_locale() != icu { problems.push(format!("as_icu_locale() of {name} is {}", l.as_icu_locale())); }
                if *l.as_langid() != icu.id { problems.push(format!("as_langid() of {name} is {}", l.as_langid())); }
                if AsRef::<LanguageIdentifier>::as_ref(l) != &icu.id { problems.push(format!("AsRef<LanguageIdentifier> of {name} differs")); }
                let want_dir = match ld.get(&icu.id) {
                    Some(icu_locid_transform::Direction::LeftToRight) => "ltr",
                    Some(icu_locid_transform::Direction::RightToLeft) => "rtl",
                    _ => "auto",
                };
                if l.direction().as_str() != want_dir { problems.push(format!("direction() of {name} is {}, CLDR says {want_dir}", l.direction().as_str())); }
            }
            Err(e) => problems.push(format!("configured name {name} does not parse as an ICU locale: {e}")),
        }
        // scoped locale forwards identity
        let scoped = leptos_i18n::__private::scope_locale_util(*l, |k: <Locale as leptos_i18n::Locale>::Keys| k);
        if scoped.as_str() != name || scoped.to_string() != name || scoped.as_icu_locale() != l.as_icu_locale() || scoped.direction().as_str() != l.direction().as_str() || scoped.to_base_locale() != *l {
            problems.push(format!("ScopedLocale of {name} does not forward its identity"));
        }
    }
    // parsing: a string maps to a locale only if it is that locale's name
    for s in c13_strings(names) {
        n += 1;
        let exact = names.iter().position(|x| *x == s);
        let trimmed = names.iter().position(|x| *x == s.trim());
        let check = |what: &str, got: Option<&str>, problems: &mut Vec<String>| {
            match (exact, trimmed, got) {
                (Some(i), _, Some(g)) if g == names[i] => {}
                (Some(i), _, other) => problems.push(format!("{what}({s:?}) = {other:?}, expected {}", names[i])),
                // surrounding whitespace: accepted or refused, but never another locale
                (None, Some(i), Some(g)) if g == names[i] => {}
                (None, _, None) => {}
                (None, _, Some(g)) => problems.push(format!("{what}({s:?}) = {g}, but {s:?} is not a configured name")),
            }
        };
        check("from_str", Locale::from_str(&s).ok().map(|l| l.as_str()), &mut problems);
        let dec: Result<Locale, _> = <codee::string::FromToStringCodec as codee::Decoder<Locale>>::decode(&s);
        check("cookie codec decode", dec.ok().map(|l| l.as_str()), &mut problems);
        // serde: unknown strings give the default locale (never a non-default one)
        let js = serde_json::to_string(&s).unwrap();
        match serde_json::from_str::<Locale>(&js) {
            Ok(l) => {
                let g = l.as_str();
                let ok = match (exact, trimmed) {
                    (Some(i), _) => g == names[i],
                    (None, Some(i)) => g == names[i] || g == default,
                    (None, None) => g == default,
                };
                if !ok { problems.push(format!("serde deserialisation of {s:?} = {g}")); }
            }
            Err(_) => if exact.is_some() { problems.push(format!("serde deserialisation of the configured name {s:?} fails")); },
        }
    }
    // round trips
    for l in all {
        let name = l.as_str();
        if Locale::from_str(name) != Ok(*l) { problems.push(format!("from_str(as_str()) of {name} does not round-trip")); }
        let enc = <codee::string::FromToStringCodec as codee::Encoder<Locale>>::encode(l).unwrap_or_default();
        if enc != name { problems.push(format!("cookie codec encodes {name} as {enc:?}")); }
        if serde_json::from_str::<Locale>(&serde_json::to_string(l).unwrap()).ok() != Some(*l) { problems.push(format!("serde round trip of {name} fails")); }
    }
    (n, problems)
}
"##;

fn c13(tier: Tier) -> i32 {
    let rep = Reporter::new("C13", "L3", tier);
    // (configured list as written, default)
    let mut sets: Vec<(Vec<&str>, &str)> = vec![
        (vec!["en"], "en"),
        (vec!["en", "fr"], "en"),
        (vec!["fr", "en"], "en"),
        (vec!["en", "en-US", "en-GB"], "en-GB"),
        (vec!["ar", "he", "en", "fa"], "en"),
        (vec!["sr-Cyrl", "sr-Latn", "zh-Hant-TW", "zh-Hans"], "sr-Latn"),
        (vec!["de", "de-1996", "ca-valencia"], "de"),
        (vec!["fr", "de"], "en"),
    ];
    if tier == Tier::Thorough {
        sets.push((vec!["ur", "ps", "yi", "dv", "en", "az-Arab"], "en"));
        sets.push((vec!["pt-BR", "pt-PT", "pt", "es-419", "es"], "pt"));
    }
    let mut cases = vec![];
    for (i, (names, default)) in sets.iter().enumerate() {
        let mut cfg = Config::simple(default, names);
        cfg.locales = Some(names.iter().map(|s| s.to_string()).collect());
        let mut p = Project::new(cfg);
        for l in p.cfg.effective_locales() {
            p.set_file(None, &l, vec![("k".into(), st(&format!("[{l}]"))), ("g".into(), Val::Sub(vec![("s".into(), st("x"))]))]);
        }
        let mut c = Case::new(&format!("c13_{}_{i}", tier.name()), p.clone());
        c.probe.items.push_str(C13_ITEMS);
        let all = p.cfg.effective_locales();
        let list: Vec<String> = all.iter().map(|n| format!("{n:?}")).collect();
        c.add_summary(
            format!("{{ let (n, problems) = c13_check(&[{}], {default:?}); p($ID, format!(\"checked={{}} problems={{}}\", n, problems.len())); for (i, pr) in problems.iter().take(40).enumerate() {{ p(1_000_000 + i, pr.clone()); }} }}", list.join(", ")),
            format!("identifier round trip for locales {names:?} default {default}"),
            "problems=0",
        );
        // the text behind each locale is its own
        c.add_all_keys(&[Flavour::TdString], &[Num::I(0)], 1);
        cases.push(c);
    }
    execute(&rep, "C13", cases);
    rep.nontriv(sets.len() as u64 * 100);
    rep.sample(json!({"locales": sets[5].0, "default": sets[5].1, "near_miss_examples": ["SR-latn", "sr-Lat", "sr-Latn ", "sr_Latn", "zh-Hans-TW"]}));
    let mut cov = serde_json::Map::new();
    cov.insert("rule".into(), json!(format!("locale sets {:?} (default listed first / last / not at all; regions, scripts, variants, RTL languages); for each a probe crate whose generated enum is checked inside the probe: get_all (set, no repeats, default first), as_str/Display/AsRef<str>/serde == configured name, as_icu_locale/as_langid/AsRef == name.parse(), direction == icu_locid_transform::LocaleDirectionality, ScopedLocale forwarding, and FromStr / cookie codec (FromToStringCodec) / serde over every near-miss string: all case flips, every proper prefix and suffix, every one-character insertion/deletion/substitution over the letters of the names and - _ space tab, surrounding whitespace (6 kinds), separator changes, and every string of length <= 4 over the names' letters; a string maps to a locale only if it is exactly its name (surrounding whitespace may be accepted), anything else -> Err / default for serde", sets)));
    cov.insert("exhaustive".into(), json!(true));
    rep.finish(cov, &["ICU4X data defines CLDR directionality and identifier canonicalisation (trusted base)"])
}

fn main() {
    let args: Vec<String> = std::env::args().collect();
    let tier = Tier::from_env_or_args(&args);
    let code = match args.get(1).map(|s| s.as_str()).unwrap_or("") {
        "c01" => c01(tier),
        "c02" => c02(tier),
        "c13" => c13(tier),
        _ => {
            eprintln!("usage: vgen <c01|...> [--tier quick|thorough]");
            2
        }
    };
    std::process::exit(code);
}
