//! vgen: L3 orchestrator. Generates probe crates from ASTs, compiles them through the real
//! proc-macro + rustc, runs them and compares every record with the reference model.

mod probe;

use probe::*;
use serde_json::json;
use std::collections::BTreeMap;
use vmodel::ast::*;
use vmodel::enumerate::*;
use vmodel::model::*;
use vmodel::{Reporter, Tier};

pub struct Expect {
    pub probe: String,
    pub what: String,
    pub text: String,
    /// the record only has to end with `text`
    pub suffix: bool,
}

/// A probe under construction together with what each record must be.
pub struct Case {
    pub probe: Probe,
    pub expected: BTreeMap<usize, Expect>,
    pub next_id: usize,
}

impl Case {
    pub fn new(name: &str, project: Project) -> Case {
        Case { probe: Probe::new(name, project), expected: BTreeMap::new(), next_id: 0 }
    }
    pub fn add(&mut self, expr: String, what: String, text: String) {
        let id = self.next_id;
        self.next_id += 1;
        self.probe.stmts.push(format!("p({id}, {expr});"));
        self.expected.insert(id, Expect { probe: self.probe.name.clone(), what, text, suffix: false });
    }
    /// `for n in <iter>` loop in the probe: record id = base + index of n in `counts`
    pub fn add_count_loop(&mut self, iter_expr: &str, index_expr: &str, call_with_n: &str, what: &str, expected: Vec<Option<String>>) {
        let base = self.next_id;
        self.next_id += expected.len();
        self.probe.stmts.push(format!("for n in {iter_expr} {{ p({base} + ({index_expr}) as usize, {call_with_n}); }}"));
        for (i, e) in expected.into_iter().enumerate() {
            if let Some(text) = e {
                self.expected.insert(base + i, Expect { probe: self.probe.name.clone(), what: format!("{what} [#{i}]"), text, suffix: false });
            }
        }
    }
    /// a summary record that must end with `suffix`; the probe reports individual problems as records >= 1_000_000
    pub fn add_summary(&mut self, stmt: String, what: String, suffix: &str) {
        let id = self.next_id;
        self.next_id += 1;
        self.probe.stmts.push(stmt.replace("$ID", &id.to_string()));
        self.expected.insert(id, Expect { probe: self.probe.name.clone(), what, text: suffix.to_string(), suffix: true });
    }

    /// every key of the default locale x every locale x flavours x counts
    pub fn add_all_keys(&mut self, flavours: &[Flavour], counts: &[Num], view_every: usize) {
        let project = self.probe.project.clone();
        let m = Model::new(&project);
        let mut k = 0usize;
        for ns in m.namespaces() {
            for path in m.default_keys(&ns) {
                let sig = key_sig(&m, &ns, &path);
                let key = key_path_tokens(&ns, &path);
                k += 1;
                for loc in &m.locales {
                    for fl in flavours {
                        if *fl == Flavour::Td && view_every > 1 && k % view_every != 0 {
                            continue;
                        }
                        let cs: Vec<Num> = if sig.counts.is_empty() { vec![Num::I(0)] } else { counts.to_vec() };
                        for c in cs {
                            let Some((tail, env)) = args_for(&sig, *fl, c) else { continue };
                            let Some(text) = expected(&m, &ns, loc, &path, &env) else { continue };
                            let src = describe_key(&project, &ns, loc, &path);
                            self.add(call(*fl, &locale_variant(loc), &key, &tail), format!("{fl:?} {key} @{loc} count={c:?} value={src}"), text);
                        }
                    }
                }
            }
        }
    }
}

fn describe_key(p: &Project, ns: &Option<String>, loc: &str, path: &[String]) -> String {
    fn find<'a>(e: &'a [(String, Val)], path: &[String]) -> Option<&'a Val> {
        let (k, rest) = path.split_first()?;
        let v = &e.iter().find(|(n, _)| n == k)?.1;
        if rest.is_empty() {
            Some(v)
        } else if let Val::Sub(s) = v {
            find(s, rest)
        } else {
            None
        }
    }
    p.files.get(&(ns.clone(), loc.to_string())).and_then(|e| find(e, path)).map(val_json).unwrap_or_else(|| "<absent/merged>".into())
}

/// write, build, run and judge a set of cases
pub fn execute(rep: &Reporter, pid: &str, cases: Vec<Case>) {
    let _ = execute_reporting(rep, pid, cases);
}

/// as `execute`; returns the probes whose crate did not compile (each already reported as a violation)
pub fn execute_reporting(rep: &Reporter, pid: &str, cases: Vec<Case>) -> Vec<String> {
    let mut not_built = vec![];
    for c in &cases {
        if let Err(e) = c.probe.write() {
            vmodel::report::machinery_fail(&format!("cannot write probe {}: {e}", c.probe.name));
        }
    }
    if let Err(e) = write_workspace() {
        vmodel::report::machinery_fail(&format!("cannot write the L3 workspace: {e}"));
    }
    let names: Vec<&str> = cases.iter().map(|c| c.probe.name.as_str()).collect();
    let t = std::time::Instant::now();
    let b = build(&names);
    rep.count("build_seconds", t.elapsed().as_secs());
    for c in &cases {
        let exe = l3_target().join("debug").join(&c.probe.name);
        let failed = !b.ok && (b.stderr.contains(&format!("could not compile `{}`", c.probe.name)) || !exe.exists());
        if failed {
            // first error lines mentioning this crate
            let errs: Vec<&str> = b.stderr.lines().filter(|l| l.contains("error")).take(6).collect();
            if b.stderr.contains("could not compile `leptos_i18n") || b.stderr.contains("could not compile `leptos`") {
                vmodel::report::machinery_fail(&format!("the library itself does not build for the probes: {}", errs.join(" | ")));
            }
            rep.violation(
                format!("{pid}/L3: generated code does not compile for a valid project (probe {}): {}", c.probe.name, vmodel::report::truncate(&errs.join(" | "), 600)),
                json!({"probe_dir": c.probe.dir().display().to_string(), "stderr_tail": vmodel::report::truncate(&b.stderr, 3000)}),
            );
            not_built.push(c.probe.name.clone());
            continue;
        }
        match run(&c.probe.name) {
            Err(e) => rep.violation(format!("{pid}/L3: {e}"), json!({"probe_dir": c.probe.dir().display().to_string()})),
            Ok(records) => {
                for (id, text) in records.iter().filter(|(id, _)| **id >= 1_000_000) {
                    rep.violation(format!("{pid}/L3: probe {} reports: {}", c.probe.name, vmodel::report::truncate(text, 500)), json!({"record": id}));
                }
                for (id, exp) in &c.expected {
                    rep.eval(1);
                    match records.get(id) {
                        None => rep.violation(format!("{pid}/L3: probe {} produced no record for {}", c.probe.name, exp.what), json!({})),
                        Some(got) if exp.suffix => {
                            if !got.ends_with(&exp.text) {
                                rep.violation(format!("{pid}/L3: {} -> {:?}", exp.what, got), json!({"probe_dir": c.probe.dir().display().to_string()}));
                            } else if let Some(n) = got.split("checked=").nth(1).and_then(|t| t.split(' ').next()).and_then(|n| n.parse::<u64>().ok()) {
                                rep.eval(n);
                            }
                        }
                        Some(got) if exp.text.starts_with('^') => {
                            let ok = exp.text.split('|').any(|alt| got.starts_with(alt.trim_start_matches('^')));
                            if !ok {
                                rep.violation(format!("{pid}/L3: {} -> {}", exp.what, vmodel::report::truncate(got, 400)), json!({"probe_dir": c.probe.dir().display().to_string()}));
                            } else if got.starts_with("SKIP") {
                                rep.count("skipped_icu_cannot_format", 1);
                            }
                        }
                        Some(got) if *got != exp.text => rep.violation(
                            format!("{pid}/L3: {} -> {:?}, expected {:?}", exp.what, got, exp.text),
                            json!({"probe_dir": c.probe.dir().display().to_string(), "record": id}),
                        ),
                        Some(_) => {}
                    }
                }
            }
        }
    }
    not_built
}

const PAYLOADS: [&str; 12] = ["", " ", "  ", "é", "🎉", "\u{a0}", "\"", "\\", "\n", ">", "}", "a b"];

fn c01(tier: Tier) -> i32 {
    let rep = Reporter::new("C01", "L3", tier);
    let max_nodes = tier.pick(3, 4);
    let mut values: Vec<(Val, Val)> = vec![];
    for n in 1..=max_nodes {
        for (i, f) in forests(n, &["x", "y"], &["b", "i"]).into_iter().enumerate() {
            let mut a = f.clone();
            let mut c = i;
            label_texts(&mut a, &format!("en{}", values.len()), &PAYLOADS, &mut c);
            let mut b: Vec<Seg> = f.iter().rev().cloned().collect();
            let mut c2 = i + 5;
            label_texts(&mut b, &format!("fr{}", values.len()), &PAYLOADS, &mut c2);
            values.push((s(a), s(b)));
        }
    }
    // literal segments made of white space only (between two variables, sole child of a component, leading / trailing):
    // "nothing is dropped" holds for them too, in the string back-end as in the view
    {
        const BLANKS: [&str; 5] = [" ", "\u{a0}", "\t", "  ", "\n "];
        fn blank(segs: &mut [Seg], counter: &mut usize) -> usize {
            let mut n = 0;
            for s in segs {
                match s {
                    Seg::Text(t) => {
                        *t = BLANKS[*counter % BLANKS.len()].to_string();
                        *counter += 1;
                        n += 1;
                    }
                    Seg::Comp { children, .. } => n += blank(children, counter),
                    _ => {}
                }
            }
            n
        }
        let mut counter = 0usize;
        for n in 2..=3 {
            for f in forests(n, &["x", "y"], &["b"]) {
                let mut a = f.clone();
                let texts = blank(&mut a, &mut counter);
                if texts == 0 || texts == count_nodes(&a) {
                    continue;
                }
                let mut b: Vec<Seg> = f.iter().rev().cloned().collect();
                blank(&mut b, &mut counter);
                values.push((s(a), s(b)));
            }
        }
    }
    // whitespace inside tags and variables
    for ws in [[1u8, 1, 1, 1, 1], [2, 0, 0, 2, 1], [0, 2, 1, 0, 2]] {
        let mut a = vec![text("[w]"), comp("b", vec![var("x"), text("[in]")]), text("[tail]")];
        set_ws(&mut a, ws, [ws[0], ws[4]]);
        values.push((s(a.clone()), s(a)));
    }
    // literals of every JSON type
    for (a, b) in [
        (Val::UInt(7), Val::UInt(9)),
        (Val::Int(-3), Val::Int(4)),
        (Val::Float("1.5".into()), Val::Float("-2.25".into())),
        (Val::Bool(true), Val::Bool(false)),
        (Val::UInt(7), st("sept")),
        (st(""), Val::Bool(true)),
        (Val::UInt(u64::MAX), Val::Int(i64::MIN)),
    ] {
        values.push((a, b));
    }
    // wide values: the generator chunks long blocs into nested tuples
    for width in [27usize, 60] {
        let mut segs = vec![];
        for i in 0..width {
            segs.push(text(&format!("[w{width}.{i}]")));
            segs.push(if i % 3 == 2 { comp("b", vec![var("y")]) } else { var("x") });
        }
        let rev: Vec<Seg> = segs.iter().rev().cloned().collect();
        values.push((s(segs), s(rev)));
    }
    let mut cases = vec![];
    // container 0: top level; 1: nested subkeys; 2: two namespaces
    let per = 150;
    for (ci, chunk) in values.chunks(per).enumerate() {
        let mut en = vec![];
        let mut fr = vec![];
        for (i, (a, b)) in chunk.iter().enumerate() {
            en.push((format!("k{i}"), a.clone()));
            fr.push((format!("k{i}"), b.clone()));
        }
        let mut p = Project::new(Config::simple("en", &["en", "fr"]));
        p.set_file(None, "en", en.clone());
        p.set_file(None, "fr", fr.clone());
        let mut c = Case::new(&format!("c01_{}_top{ci}", tier.name()), p);
        c.add_all_keys(&[Flavour::TdString, Flavour::TdDisplay, Flavour::Td], &[Num::I(0)], tier.pick(3, 1));
        cases.push(c);
        if ci == 0 {
            let thin = |v: &Vec<(String, Val)>| v.iter().step_by(4).cloned().collect::<Vec<_>>();
            let mut p = Project::new(Config::simple("en", &["fr", "en"]).with_namespaces(&["first", "second"]));
            p.set_file(Some("first"), "en", vec![("g".into(), Val::Sub(vec![("h".into(), Val::Sub(thin(&en))), ("k0".into(), st("[decoy]"))]))]);
            p.set_file(Some("first"), "fr", vec![("g".into(), Val::Sub(vec![("h".into(), Val::Sub(thin(&fr))), ("k0".into(), st("[decoy-fr]"))]))]);
            p.set_file(Some("second"), "en", thin(&fr));
            p.set_file(Some("second"), "fr", thin(&en));
            let mut c = Case::new(&format!("c01_{}_containers", tier.name()), p);
            c.add_all_keys(&[Flavour::TdString, Flavour::Td], &[Num::I(0)], 4);
            cases.push(c);
        }
    }
    // every segment count around and beyond the tuple limit (26): the view generator chunks long
    // blocs into nested tuples, the chunking depends on N mod ceil(N/26)
    {
        let max_n = tier.pick(58, 112);
        let mut en = vec![];
        let mut fr = vec![];
        for n in 25..=max_n {
            let mk = |loc: &str, n: usize| {
                let mut segs = vec![];
                for i in 0..n {
                    segs.push(if i % 2 == 0 { text(&format!("[{loc}.w{n}.{i}]")) } else if i % 6 == 5 { comp("b", vec![var("y")]) } else { var("x") });
                }
                s(segs)
            };
            en.push((format!("w{n}"), mk("en", n)));
            // the other locale gets another length so that both parities / remainders meet
            fr.push((format!("w{n}"), mk("fr", n + 1)));
        }
        let mut p = Project::new(Config::simple("en", &["en", "fr"]));
        p.set_file(None, "en", en);
        p.set_file(None, "fr", fr);
        let mut c = Case::new(&format!("c01_{}_wide", tier.name()), p);
        c.add_all_keys(&[Flavour::TdString, Flavour::Td], &[Num::I(0)], 1);
        cases.push(c);
    }
    // tag look-alikes in front of a component: nothing of the text around them is dropped
    cases.push(tags_case_for("c01", tier));
    if tier == Tier::Thorough {
        // 17 locales: EitherOfWrapper nesting in the generated match
        let locs = ["en", "fr", "de", "it", "es", "pt", "nl", "sv", "da", "fi", "pl", "cs", "ru", "uk", "ja", "ko", "zh"];
        let mut p = Project::new(Config::simple("en", &locs));
        for l in locs {
            p.set_file(None, l, vec![("a".into(), s(vec![text(&format!("[{l}.a]")), var("x")])), ("b".into(), s(vec![comp("b", vec![text(&format!("[{l}.b]"))]), var("y")])), ("c".into(), st(&format!("[{l}.c]")))]);
        }
        let mut c = Case::new("c01_thorough_17locales", p);
        c.add_all_keys(&[Flavour::TdString, Flavour::Td], &[Num::I(0)], 1);
        cases.push(c);
    }
    let n_values = values.len();
    execute(&rep, "C01", cases);
    rep.nontriv(n_values as u64);
    rep.sample(json!({"probe_call": "td_string!(Locale::fr, k17, x = \"«x»\", <b> = \"b\").to_string()", "value_source": val_json(&values[17].1)}));
    let mut cov = serde_json::Map::new();
    cov.insert("rule".into(), json!(format!("every forest of Text|Var{{x,y}}|Comp{{b,i}} with <= {max_nodes} nodes (self-identifying text, rotating payloads incl. quotes, backslash, newline, NBSP, astral), every forest of 2-3 nodes whose text segments are white space only (space, NBSP, tab, two spaces, newline), whitespace variants inside tags and variables, every JSON literal type (same and mixed across locales), 27- and 60-segment values; placed at top level, in nested subkeys and in two namespaces with swapped values (thorough: a 17-locale project); each key in each locale through td_string!, td_display! and td! -> to_html() of a probe crate compiled with the real proc-macro; expected text from the reference renderer; distinct_nontrivial = distinct (en,fr) value pairs")));
    cov.insert("exhaustive".into(), json!(true));
    rep.finish(cov, &["view output is normalised like the repository's tests (comments, hydration keys and <!> markers stripped, entities decoded)"])
}

fn rbr(v: Val, counts: Vec<CountSpec>) -> Branch {
    Branch { value: Box::new(v), counts, map_form: false, value_first: false }
}

/// one key of every kind, at top level and nested, in two namespaces
pub fn kinds_entries(loc: &str, ns: &str) -> Vec<(String, Val)> {
    let t = |k: &str| format!("[{loc}.{ns}.{k}]");
    let leafs = |pre: &str| -> Vec<(String, Val)> {
        vec![
            ("lit".into(), st(&t(&format!("{pre}lit")))),
            ("num".into(), Val::UInt(if loc == "en" { 7 } else { 9 })),
            ("flag".into(), Val::Bool(loc == "en")),
            // float literals whose shortest, Debug and Display spellings differ; a negative integer
            ("fint".into(), Val::Float(if loc == "en" { "20.0" } else { "3.0" }.into())),
            ("fsmall".into(), Val::Float(if loc == "en" { "0.000001" } else { "0.5" }.into())),
            ("fbig".into(), Val::Float(if loc == "en" { "2e20" } else { "1e16" }.into())),
            ("ineg".into(), Val::Int(if loc == "en" { -3 } else { -40 })),
            ("interp".into(), s(vec![text(&t(&format!("{pre}interp"))), var("x"), text("|"), var_ws("y", 1, 1)])),
            ("compo".into(), s(vec![comp("b", vec![text(&t(&format!("{pre}compo"))), var("x")]), comp("i", vec![])])),
            (
                "range".into(),
                Val::Range(RangeDecl {
                    ty: Some("u8".into()),
                    branches: vec![
                        rbr(st(&t(&format!("{pre}range.0"))), vec![CountSpec::UInt(0)]),
                        rbr(s(vec![text(&t(&format!("{pre}range.1-2"))), var("x")]), vec![CountSpec::Str("1..=2".into())]),
                        // partly shadowed by the branch before it
                        rbr(st(&t(&format!("{pre}range.2or5"))), vec![CountSpec::Str("2 | 5".into())]),
                        rbr(s(vec![text(&t(&format!("{pre}range.fb"))), var("count")]), vec![]),
                    ],
                }),
            ),
            (
                "frange".into(),
                Val::Range(RangeDecl {
                    ty: Some("f32".into()),
                    // branches that overlap: an exact value and an alternative list written *after* the bounds that contain
                    // them (first match wins in every flavour: the view and the string back-ends are generated separately)
                    branches: vec![
                        rbr(st(&t(&format!("{pre}frange.lt1"))), vec![CountSpec::Str("..1.0".into())]),
                        rbr(st(&t(&format!("{pre}frange.1-5"))), vec![CountSpec::Str("1.0..=5.0".into())]),
                        rbr(st(&t(&format!("{pre}frange.2"))), vec![CountSpec::Float("2.0".into())]),
                        rbr(st(&t(&format!("{pre}frange.5or7"))), vec![CountSpec::Str("5 | 7.5".into())]),
                        rbr(s(vec![text(&t(&format!("{pre}frange.fb"))), var("count")]), vec![]),
                    ],
                }),
            ),
            // count-driven keys whose texts hold nothing but text (no variable, not even the count)
            ("pp_one".into(), st(&t(&format!("{pre}pp.one")))),
            ("pp_other".into(), st(&t(&format!("{pre}pp.other")))),
            (
                "rp".into(),
                Val::Range(RangeDecl { ty: Some("u8".into()), branches: vec![rbr(st(&t(&format!("{pre}rp.0-1"))), vec![CountSpec::Str("0..=1".into())]), rbr(st(&t(&format!("{pre}rp.fb"))), vec![])] }),
            ),
            ("plu_one".into(), s(vec![text(&t(&format!("{pre}plu.one"))), var("count")])),
            ("plu_other".into(), s(vec![text(&t(&format!("{pre}plu.other"))), var("count"), var("x")])),
            ("ord_ordinal_one".into(), s(vec![var("count"), text(&t(&format!("{pre}ord.one")))])),
            ("ord_ordinal_two".into(), s(vec![var("count"), text(&t(&format!("{pre}ord.two")))])),
            ("ord_ordinal_other".into(), s(vec![var("count"), text(&t(&format!("{pre}ord.other")))])),
        ]
    };
    let mut e = leafs("");
    let fkp = |k: &str| format!("{ns}:{k}");
    e.push(("fk".into(), s(vec![text("<"), fk(&fkp("interp")), text(">")])));
    e.push(("fk_args".into(), s(vec![fk_args(&fkp("range"), vec![("count", FkArg::Str(vec![var("n")])), ("x", FkArg::Str(vec![text("X")]))])])));
    e.push(("fk_lit".into(), s(vec![fk_args(&fkp("plu"), vec![("count", FkArg::UInt(1))])])));
    e.push(("g".into(), Val::Sub(vec![("h".into(), Val::Sub(leafs("g.h."))), ("top".into(), st(&t("g.top")))])));
    // literal segments that are nothing but blanks: between two variables, between two components, between a reference
    // and a variable, at both ends of a value (every flavour writes them)
    e.push(("ws_vars".into(), s(vec![var("first"), text(" "), var("last")])));
    e.push(("ws_comps".into(), s(vec![comp("b", vec![text(&t("ws.b"))]), text("  "), comp("i", vec![var("x")])])));
    e.push(("ws_fk".into(), s(vec![fk(&fkp("lit")), text(" "), var("owner"), text("\t")])));
    e.push(("ws_ends".into(), s(vec![text(" "), var("x"), text(" ")])));
    // long values: the view back-end nests more than 26 segments into sub-tuples, the string back-end does not
    for n in [26usize, 27, 29, 53] {
        let mut segs = vec![];
        for i in 0..n {
            segs.push(if i % 2 == 0 { text(&format!("[{loc}.{ns}.w{n}.{i}]")) } else { var("x") });
        }
        e.push((format!("w{n}"), s(segs)));
    }
    e
}

pub fn kinds_project() -> Project {
    let mut cfg = Config::simple("en", &["en", "fr", "de"]).with_namespaces(&["main", "other"]);
    cfg.inherits = vec![("de".into(), "fr".into())];
    let mut p = Project::new(cfg);
    for ns in ["main", "other"] {
        for loc in ["en", "fr"] {
            p.set_file(Some(ns), loc, kinds_entries(loc, ns));
        }
        // de: defines a few keys, nulls others (explicit default -> fr through inherits), misses the rest
        let mut de: Vec<(String, Val)> = vec![];
        for (k, v) in kinds_entries("de", ns) {
            match k.as_str() {
                "lit" | "interp" | "range" | "plu_one" | "plu_other" | "pp_one" | "pp_other" | "rp" => de.push((k, v)),
                "compo" | "frange" | "fk" => de.push((k, Val::Null)),
                "g" => de.push((k, Val::Sub(vec![("h".into(), Val::Null), ("top".into(), st(&format!("[de.{ns}.g.top]")))]))),
                _ => {}
            }
        }
        p.set_file(Some(ns), "de", de);
    }
    p
}

fn c02(tier: Tier) -> i32 {
    let rep = Reporter::new("C02", "L3", tier);
    let project = kinds_project();
    let m = Model::new(&project);
    let counts: Vec<Num> = vec![Num::I(0), Num::I(1), Num::I(2), Num::I(5)];
    // one probe crate per namespace half keeps compile units moderate
    let mut cases = vec![];
    let mut n_keys = 0u64;
    for (ci, ns) in m.namespaces().into_iter().enumerate() {
        let mut c = Case::new(&format!("c02_{}_{ci}", tier.name()), project.clone());
        c.probe.items.push_str(CTX_ITEMS);
        c.probe.items.push_str(LATE_ITEMS);
        for path in m.default_keys(&ns) {
            n_keys += 1;
            let sig = key_sig(&m, &ns, &path);
            let mut segments: Vec<String> = vec![];
            if let Some(n) = &ns {
                segments.push(ident(n));
            }
            segments.extend(path.iter().map(|k| ident(k)));
            let key = segments.join(".");
            for loc in &m.locales {
                for fl in ALL_FLAVOURS {
                    // thin out the (expensive to compile) view flavours in the quick tier
                    if tier == Tier::Quick && fl.is_view() && fl != Flavour::T && path.len() == 1 && !matches!(path[0].as_str(), "interp" | "compo" | "range" | "plu") {
                        continue;
                    }
                    let mut scopings = vec![Scoping::None];
                    for k in 1..segments.len() {
                        scopings.push(Scoping::At(k));
                        if k > 1 {
                            scopings.push(Scoping::Chained(k));
                        }
                        if fl.needs_ctx() {
                            scopings.push(Scoping::UseScoped(k));
                        }
                    }
                    let cs: Vec<Num> = if sig.counts.is_empty() { vec![Num::I(0)] } else { counts.clone() };
                    for sc in scopings {
                        // deep scoping variants only for string output (cheap to compile) unless thorough
                        if sc != Scoping::None && fl.is_view() && tier == Tier::Quick {
                            continue;
                        }
                        for cnt in &cs {
                            if sc != Scoping::None && *cnt != cs[0] && tier == Tier::Quick {
                                continue;
                            }
                            let Some((tail, env)) = args_for(&sig, fl, *cnt) else { continue };
                            let Some(text) = expected(&m, &ns, loc, &path, &env) else { continue };
                            c.add(scoped_call(fl, sc, &locale_variant(loc), &segments, &tail), format!("{fl:?} {sc:?} {key} @{loc} count={cnt:?}"), text);
                        }
                    }
                }
                // a view built under one locale and rendered after the context moved to another one shows the locale
                // being rendered - tracked (t!) or not (tu!): every flavour read at that moment gives that text
                for fl in [Flavour::T, Flavour::Tu] {
                    if path.len() > 1 && tier == Tier::Quick {
                        continue;
                    }
                    for from in &m.locales {
                        if from == loc {
                            continue;
                        }
                        let cnt = if sig.counts.is_empty() { Num::I(0) } else { Num::I(2) };
                        let Some((tail, env)) = args_for(&sig, fl, cnt) else { continue };
                        let Some(text) = expected(&m, &ns, loc, &path, &env) else { continue };
                        let scs: Vec<Scoping> = if segments.len() > 1 { vec![Scoping::None, Scoping::At(1)] } else { vec![Scoping::None] };
                        for sc in scs {
                            c.add(scoped_call_switch(fl, sc, &locale_variant(from), Some(&locale_variant(loc)), &segments, &tail), format!("{fl:?} {sc:?} {key} built @{from} rendered @{loc}"), text.clone());
                        }
                    }
                }
                // a view whose count closure gives another number when it is rendered than when it was built shows the
                // branch / form of the number at rendering time (count-driven keys, integer counts)
                if !sig.counts.is_empty() && sig.counts.values().all(|k| k.iter().all(|c| !matches!(c, CountKind::Range(t) if t.is_float()))) {
                    for fl in [Flavour::Td, Flavour::T, Flavour::Tu] {
                        if path.len() > 1 && tier == Tier::Quick && fl != Flavour::Td {
                            continue;
                        }
                        for (a, b) in [(1i64, 5i64), (5, 1), (0, 2), (2, 0)] {
                            LATE_COUNTS.store(true, std::sync::atomic::Ordering::Relaxed);
                            let r = args_for(&sig, fl, Num::I(b as i128));
                            LATE_COUNTS.store(false, std::sync::atomic::Ordering::Relaxed);
                            let Some((tail, env)) = r else { continue };
                            let Some(text) = expected(&m, &ns, loc, &path, &env) else { continue };
                            let call = scoped_call(fl, Scoping::None, &locale_variant(loc), &segments, &tail);
                            // `{ bindings.. html(mac!(..)) }` -> build, change the number, render
                            let Some(inner) = call.strip_prefix("{ ").and_then(|c| c.strip_suffix(" }")) else { continue };
                            let Some((pre, view)) = inner.rsplit_once("html(") else { continue };
                            let view = view.strip_suffix(')').unwrap_or(view);
                            c.add(format!("{{ set_late({a}); {pre}let v = {view}; set_late({b}); html(v) }}"), format!("{fl:?} {key} @{loc} count {a} when built, {b} when rendered"), text.clone());
                            // .. and with the closure the macro returns already called once (the view object exists, as after
                            // a first render) before the number changes: what is inside stays a function of the count
                            c.add(format!("{{ set_late({a}); {pre}let v = ({view})(); set_late({b}); html(v) }}"), format!("{fl:?} {key} @{loc} count {a} when the view object was made, {b} when rendered"), text);
                        }
                    }
                }
                // const accessor chain for plain literals
                if sig.is_empty() {
                    if let Ok(r) = m.resolve(&ns, loc, &path) {
                        if r.iter().all(|x| matches!(x, R::Text(_))) {
                            let chain: String = segments.iter().map(|s| format!(".{s}()")).collect();
                            let text = render(&r, &Env::default()).unwrap_or_default();
                            c.add(format!("{}.get_keys_const(){chain}.inner().to_string()", locale_variant(loc)), format!("const chain {key} @{loc}"), text);
                        }
                    }
                }
            }
        }
        cases.push(c);
    }
    // keys whose variable carries a formatter: every flavour must give what ICU4X gives for the locale - the string and
    // the view back-ends call different run-time helpers, and small / negative / fractional numbers, a locale with
    // non-Latin digits (bn) and one with a non-ASCII minus sign (sv) tell them apart
    {
        let locales = ["en", "bn", "sv"];
        let mut p = Project::new(Config::simple("en", &locales));
        let fmts: [(&str, &str, &str); 5] = [
            ("fnum", "number", "Auto"),
            ("fnever", "number(grouping_strategy: never)", "Never"),
            ("falways", "number(grouping_strategy: always)", "Always"),
            ("fmin2", "number(grouping_strategy: min2)", "Min2"),
            ("fauto", "number( grouping_strategy : auto )", "Auto"),
        ];
        for l in locales {
            p.set_file(None, l, fmts.iter().map(|(k, f, _)| (k.to_string(), s(vec![text(&format!("[{l}]")), var_fmt("v", &format!(" {f}"))]))).collect());
        }
        let mut c = Case::new(&format!("c02_{}_fmt", tier.name()), p);
        c.probe.items.push_str(C18_ITEMS);
        c.probe.items.push_str(CTX_ITEMS);
        let values = ["2024.0f64", "-15.0f64", "0.0f64", "1234567.5f64", "7i32", "-1234567i64", "42u8"];
        let as_f64 = |v: &str| v.trim_end_matches("f64").trim_end_matches("i32").trim_end_matches("i64").trim_end_matches("u8").parse::<f64>().unwrap();
        for (key, _, gs) in fmts {
            for l in locales {
                let lv = locale_variant(l);
                for (vi, v) in values.iter().enumerate() {
                    if tier == Tier::Quick && key != "fnever" && key != "fnum" && vi > 2 {
                        continue;
                    }
                    let direct = format!("d_num({l:?}, GroupingStrategy::{gs}, {:?})", as_f64(v));
                    for fl in ALL_FLAVOURS {
                        let mac = fl.macro_name();
                        let call = match (fl.needs_ctx(), fl.is_view()) {
                            (false, false) => format!("{mac}!({lv}, {key}, v = {v}).to_string()"),
                            (false, true) => format!("html({mac}!({lv}, {key}, v = move || {v}))"),
                            (true, false) => format!("{{ ctx().set_locale({lv}); {mac}!(ctx(), {key}, v = {v}).to_string() }}"),
                            (true, true) => format!("{{ ctx().set_locale({lv}); html({mac}!(ctx(), {key}, v = move || {v})) }}"),
                        };
                        let id = c.next_id;
                        c.next_id += 1;
                        c.probe.stmts.push(format!("cmp({id}, || {call}, \"[{l}]\", {direct});"));
                        c.expected.insert(id, Expect { probe: c.probe.name.clone(), what: format!("{fl:?} {key} @{l} value {v}"), text: "^OK".into(), suffix: false });
                    }
                }
            }
        }
        cases.push(c);
    }
    // .. and the other formatter families (date, time, datetime, list, currency; default and `short` lengths): the
    // string back-end and the view back-end assemble their output in different helpers
    {
        use vmodel::fmtspec::*;
        let locales = ["en", "fr", "de", "bn"];
        let picked: Vec<FmtCase> = all_cases()
            .into_iter()
            .filter(|c| matches!(c.family, "date" | "time" | "datetime" | "list" | "currency") && !c.text.contains("full") && !c.text.contains("long") && !c.text.contains("nonsense") && !c.text.contains("bogus"))
            .filter(|c| !c.text.contains('(') || c.text.contains("short") || c.text.contains("medium") || c.family == "list" || c.family == "currency")
            .collect();
        let mut fam_seen: BTreeMap<&str, usize> = BTreeMap::new();
        let picked: Vec<FmtCase> = picked
            .into_iter()
            .filter(|c| {
                let e = fam_seen.entry(c.family).or_insert(0);
                *e += 1;
                *e <= tier.pick(4, 12)
            })
            .collect();
        let mut p = Project::new(Config::simple("en", &locales));
        for l in locales {
            p.set_file(None, l, picked.iter().enumerate().map(|(i, c)| (format!("f{i}"), s(vec![text(&format!("[{l}]")), var_fmt("v", &format!(" {}", c.text))]))).collect());
        }
        let mut c = Case::new(&format!("c02_{}_fmt2", tier.name()), p);
        c.probe.items.push_str(C18_ITEMS);
        c.probe.items.push_str(CTX_ITEMS);
        for (i, fc) in picked.iter().enumerate() {
            let (sv, vv, dv): (String, String, String) = match fc.family {
                // (more fraction digits than a currency shows: nobody rounds on the way)
                "currency" => ("2000.505f64".into(), "move || 2000.505f64".into(), "2000.505".into()),
                "date" => ("the_date()".into(), "move || the_date()".into(), "()".into()),
                "time" => ("the_time()".into(), "move || the_time()".into(), "()".into()),
                "datetime" => ("the_datetime()".into(), "move || the_datetime()".into(), "()".into()),
                // (an item that is the empty string is still an item, in every flavour)
                _ => ("[\"A\", \"\", \"C\", \"D\"]".into(), "move || [\"A\", \"\", \"C\", \"D\"]".into(), "&[\"A\", \"\", \"C\", \"D\"]".into()),
            };
            for l in locales {
                let lv = locale_variant(l);
                let direct = fc.direct.replace("$L", &format!("{l:?}")).replace("$V", &dv);
                for fl in ALL_FLAVOURS {
                    let mac = fl.macro_name();
                    let call = match (fl.needs_ctx(), fl.is_view()) {
                        (false, false) => format!("{mac}!({lv}, f{i}, v = {sv}).to_string()"),
                        (false, true) => format!("html({mac}!({lv}, f{i}, v = {vv}))"),
                        (true, false) => format!("{{ ctx().set_locale({lv}); {mac}!(ctx(), f{i}, v = {sv}).to_string() }}"),
                        (true, true) => format!("{{ ctx().set_locale({lv}); html({mac}!(ctx(), f{i}, v = {vv})) }}"),
                    };
                    let id = c.next_id;
                    c.next_id += 1;
                    c.probe.stmts.push(format!("cmp({id}, || {call}, \"[{l}]\", {direct});"));
                    c.expected.insert(id, Expect { probe: c.probe.name.clone(), what: format!("{fl:?} {} @{l}", fc.text), text: "^OK|^SKIP-ICU".into(), suffix: false });
                }
            }
        }
        cases.push(c);
    }
    execute(&rep, "C02", cases);
    rep.nontriv(n_keys * m.locales.len() as u64);
    rep.sample(json!({"probe_call": "{ ctx().set_locale(Locale::de); let c = ctx(); let c = scope_i18n!(c, main); let c = scope_i18n!(c, g); t_string!(c, h.interp, x = \"«x»\", y = \"«y»\").to_string() }"}));
    let mut cov = serde_json::Map::new();
    cov.insert("rule".into(), json!("project with one key of every kind (string, number, bool, interpolation, components, u8 range, f32 range, cardinal plural, ordinal plural, a plural and a range made of plain text only, foreign keys plain / with renamed count / with literal count) at top level and at depth 3, in two namespaces, three locales (de inherits fr, holds explicit nulls and gaps); every key x every locale x 9 flavours (td/t/tu x view/string/display) x scoping at every proper prefix (one step, chained one segment at a time, use_i18n_scoped!) x counts {0,1,2,5}, plus the const accessor chain for plain literals, plus t! / tu! views built under every other locale and rendered after the context moved to the locale in question, plus td! / t! / tu! views of count-driven keys whose count closure changes its value between building and rendering; context flavours run on a natively created I18nContext whose locale is set before each call; every record must equal the reference rendering (hence all flavours agree pairwise); a second project (en, bn, sv) whose keys carry number formatters (default, never, always, min2, spaced spelling): each of the 9 flavours x 7 values (positive, negative, zero, fractional, i32 / i64 / u8 typed) must equal the direct ICU4X call for the locale; a third project (en, fr, de, bn) with date / time / datetime (default, short and medium lengths) / list / currency formatters read through all 9 flavours against direct ICU4X calls; quick tier thins view flavours under scoping"));
    cov.insert("exhaustive".into(), json!(tier == Tier::Thorough));
    rep.finish(cov, &["tu!/tu_string! read the context untracked: same value, no subscription (subscription is not observable here)"])
}

const C13_ITEMS: &str = r##"
use std::str::FromStr;
use leptos_i18n::Locale as _;

fn c13_strings(names: &[&str]) -> Vec<String> {
    let mut out: std::collections::BTreeSet<String> = Default::default();
    let mut letters: std::collections::BTreeSet<char> = Default::default();
    for n in names {
        for c in n.chars() {
            letters.insert(c);
            letters.extend(c.to_lowercase());
            letters.extend(c.to_uppercase());
        }
    }
    let extra = ['-', '_', ' ', '\t'];
    for n in names {
        let chars: Vec<char> = n.chars().collect();
        out.insert(n.to_string());
        // all case flips
        let k = chars.len().min(12);
        for mask in 0u32..(1u32 << k) {
            let s: String = chars.iter().enumerate().map(|(i, c)| if i < k && mask >> i & 1 == 1 { if c.is_lowercase() { c.to_ascii_uppercase() } else { c.to_ascii_lowercase() } } else { *c }).collect();
            out.insert(s);
        }
        // proper prefixes and suffixes
        for i in 0..chars.len() {
            out.insert(chars[..i].iter().collect());
            out.insert(chars[i..].iter().collect());
        }
        // one-character insertion / deletion / substitution
        let alphabet: Vec<char> = letters.iter().copied().chain(extra).collect();
        for i in 0..=chars.len() {
            for a in &alphabet {
                let mut v = chars.clone();
                v.insert(i, *a);
                out.insert(v.iter().collect());
                if i < chars.len() {
                    let mut v = chars.clone();
                    v[i] = *a;
                    out.insert(v.iter().collect());
                }
            }
            if i < chars.len() {
                let mut v = chars.clone();
                v.remove(i);
                out.insert(v.iter().collect());
            }
        }
        for ws in [" ", "  ", "\t", "\n", "\u{a0}", "\u{3000}"] {
            out.insert(format!("{ws}{n}"));
            out.insert(format!("{n}{ws}"));
            out.insert(format!("{ws}{n}{ws}"));
        }
        out.insert(n.replace('-', "_"));
        out.insert(n.replace('-', ""));
    }
    // every string of length <= 4 over the lower-case letters and '-' of the names
    let small: Vec<char> = letters.iter().copied().filter(|c| c.is_lowercase() || *c == '-').take(9).chain(['-']).collect();
    let mut cur: Vec<String> = vec![String::new()];
    for _ in 0..4 {
        let mut next = vec![];
        for s in &cur {
            for c in &small {
                let mut t = s.clone();
                t.push(*c);
                next.push(t);
            }
        }
        out.extend(next.iter().cloned());
        cur = next;
    }
    out.into_iter().collect()
}

fn c13_check(names: &[&str], default: &str) -> (u64, Vec<String>) {
    use leptos_i18n::reexports::icu::locid::{LanguageIdentifier, Locale as IcuLocale};
    let mut problems = vec![];
    let mut n = 0u64;
    let all = Locale::get_all();
    let got: Vec<&str> = all.iter().map(|l| l.as_str()).collect();
    let mut want: Vec<&str> = names.to_vec();
    want.retain(|x| *x != default);
    want.insert(0, default);
    let mut gs = got.clone(); gs.sort();
    let mut wsort = want.clone(); wsort.sort();
    if gs != wsort { problems.push(format!("get_all() is {got:?}, configured set {want:?}")); }
    if got.first() != Some(&default) { problems.push(format!("get_all() = {got:?} does not start with the default {default}")); }
    let mut dedup = gs.clone(); dedup.dedup();
    if dedup.len() != gs.len() { problems.push(format!("get_all() lists a locale twice: {got:?}")); }
    if Locale::default().as_str() != default { problems.push(format!("Default::default() is {}", Locale::default().as_str())); }
    let ld = icu_locid_transform::LocaleDirectionality::new();
    for l in all {
        let name = l.as_str();
        n += 1;
        if !names.contains(&name) { problems.push(format!("as_str() = {name:?} is not a configured name")); continue; }
        if l.to_string() != name { problems.push(format!("Display of {name} is {:?}", l.to_string())); }
        if AsRef::<str>::as_ref(l) != name { problems.push(format!("AsRef<str> of {name} differs")); }
        match serde_json::to_string(l) {
            Ok(s) if s == format!("\"{name}\"") => {}
            other => problems.push(format!("serde serialisation of {name} is {other:?}")),
        }
        match name.parse::<IcuLocale>() {
            Ok(icu) => {
                if *l.as_icu_locale() != icu { problems.push(format!("as_icu_locale() of {name} is {}", l.as_icu_locale())); }
                if *l.as_langid() != icu.id { problems.push(format!("as_langid() of {name} is {}", l.as_langid())); }
                if AsRef::<LanguageIdentifier>::as_ref(l) != &icu.id { problems.push(format!("AsRef<LanguageIdentifier> of {name} differs")); }
                let want_dir = match ld.get(&icu.id) {
                    Some(icu_locid_transform::Direction::LeftToRight) => "ltr",
                    Some(icu_locid_transform::Direction::RightToLeft) => "rtl",
                    _ => "auto",
                };
                if l.direction().as_str() != want_dir { problems.push(format!("direction() of {name} is {}, CLDR says {want_dir}", l.direction().as_str())); }
            }
            Err(e) => problems.push(format!("configured name {name} does not parse as an ICU locale: {e}")),
        }
        // scoped locale forwards identity
        let scoped = leptos_i18n::__private::scope_locale_util(*l, |k: <Locale as leptos_i18n::Locale>::Keys| k);
        if scoped.as_str() != name || scoped.to_string() != name || scoped.as_icu_locale() != l.as_icu_locale() || scoped.direction().as_str() != l.direction().as_str() || scoped.to_base_locale() != *l {
            problems.push(format!("ScopedLocale of {name} does not forward its identity"));
        }
        // ... and compares / hashes like the locale it wraps (reactive memos rely on `==`)
        for other in all {
            let so = leptos_i18n::__private::scope_locale_util(*other, |k: <Locale as leptos_i18n::Locale>::Keys| k);
            if (scoped == so) != (l == other) {
                problems.push(format!("ScopedLocale({name}) == ScopedLocale({}) is {}", other.as_str(), scoped == so));
            }
        }
    }
    // parsing: a string maps to a locale only if it is that locale's name
    for s in c13_strings(names) {
        n += 1;
        let exact = names.iter().position(|x| *x == s);
        let trimmed = names.iter().position(|x| *x == s.trim());
        let check = |what: &str, got: Option<&str>, problems: &mut Vec<String>| {
            match (exact, trimmed, got) {
                (Some(i), _, Some(g)) if g == names[i] => {}
                (Some(i), _, other) => problems.push(format!("{what}({s:?}) = {other:?}, expected {}", names[i])),
                // surrounding whitespace: accepted or refused, but never another locale
                (None, Some(i), Some(g)) if g == names[i] => {}
                (None, _, None) => {}
                (None, _, Some(g)) => problems.push(format!("{what}({s:?}) = {g}, but {s:?} is not a configured name")),
            }
        };
        check("from_str", Locale::from_str(&s).ok().map(|l| l.as_str()), &mut problems);
        let dec: Result<Locale, _> = <codee::string::FromToStringCodec as codee::Decoder<Locale>>::decode(&s);
        check("cookie codec decode", dec.ok().map(|l| l.as_str()), &mut problems);
        // serde: unknown strings give the default locale (never a non-default one)
        let js = serde_json::to_string(&s).unwrap();
        match serde_json::from_str::<Locale>(&js) {
            Ok(l) => {
                let g = l.as_str();
                let ok = match (exact, trimmed) {
                    (Some(i), _) => g == names[i],
                    (None, Some(i)) => g == names[i] || g == default,
                    (None, None) => g == default,
                };
                if !ok { problems.push(format!("serde deserialisation of {s:?} = {g}")); }
            }
            Err(_) => if exact.is_some() { problems.push(format!("serde deserialisation of the configured name {s:?} fails")); },
        }
    }
    // round trips
    for l in all {
        let name = l.as_str();
        if Locale::from_str(name) != Ok(*l) { problems.push(format!("from_str(as_str()) of {name} does not round-trip")); }
        let enc = <codee::string::FromToStringCodec as codee::Encoder<Locale>>::encode(l).unwrap_or_default();
        if enc != name { problems.push(format!("cookie codec encodes {name} as {enc:?}")); }
        if serde_json::from_str::<Locale>(&serde_json::to_string(l).unwrap()).ok() != Some(*l) { problems.push(format!("serde round trip of {name} fails")); }
        // .. also when the format cannot lend the name from its input: a reader, a Value, a JSON string with an escape
        let js = serde_json::to_string(l).unwrap();
        if serde_json::from_reader::<_, Locale>(js.as_bytes()).ok() != Some(*l) { problems.push(format!("serde round trip of {name} through a reader fails")); }
        if serde_json::from_value::<Locale>(serde_json::Value::String(name.to_string())).ok() != Some(*l) { problems.push(format!("serde round trip of {name} through serde_json::Value fails")); }
        let mut esc = String::from("\"");
        for (i, c) in name.chars().enumerate() { if i == 0 { esc.push_str(&format!("\\u{:04x}", c as u32)); } else { esc.push(c); } }
        esc.push('"');
        if serde_json::from_str::<Locale>(&esc).ok() != Some(*l) { problems.push(format!("serde deserialisation of {name} written with an escape ({esc}) fails")); }
        // formats that are not self-describing (bincode, postcard) replay the very calls the two impls make: what
        // Serialize writes must be what Deserialize asks for
        let wrote = serde::Serialize::serialize(l, RecSer).unwrap_or_else(|e| format!("error:{e}"));
        let asks = match <Locale as serde::Deserialize>::deserialize(RecDe) { Err(e) => e.to_string(), Ok(_) => "nothing".to_string() };
        let fits = (wrote == format!("str:{name}") && (asks == "str" || asks == "string")) || (wrote.starts_with("unit_variant:") && asks == "enum");
        if !fits { problems.push(format!("serde: Serialize of {name} writes `{wrote}` but Deserialize asks the format for `{asks}`: no round trip through a format that is not self-describing")); }
    }
    (n, problems)
}

type SErr = serde::de::value::Error;
struct RecSer;
macro_rules! other { ($($f:ident: $t:ty),*) => { $(fn $f(self, _v: $t) -> Result<String, SErr> { Ok(concat!("other:", stringify!($f)).to_string()) })* } }
impl serde::Serializer for RecSer {
    type Ok = String;
    type Error = SErr;
    type SerializeSeq = serde::ser::Impossible<String, SErr>;
    type SerializeTuple = serde::ser::Impossible<String, SErr>;
    type SerializeTupleStruct = serde::ser::Impossible<String, SErr>;
    type SerializeTupleVariant = serde::ser::Impossible<String, SErr>;
    type SerializeMap = serde::ser::Impossible<String, SErr>;
    type SerializeStruct = serde::ser::Impossible<String, SErr>;
    type SerializeStructVariant = serde::ser::Impossible<String, SErr>;
    other!(serialize_bool: bool, serialize_i8: i8, serialize_i16: i16, serialize_i32: i32, serialize_i64: i64, serialize_u8: u8, serialize_u16: u16, serialize_u32: u32, serialize_u64: u64, serialize_f32: f32, serialize_f64: f64, serialize_char: char, serialize_bytes: &[u8]);
    fn serialize_str(self, v: &str) -> Result<String, SErr> { Ok(format!("str:{v}")) }
    fn serialize_none(self) -> Result<String, SErr> { Ok("other:none".into()) }
    fn serialize_some<T: ?Sized + serde::Serialize>(self, _v: &T) -> Result<String, SErr> { Ok("other:some".into()) }
    fn serialize_unit(self) -> Result<String, SErr> { Ok("other:unit".into()) }
    fn serialize_unit_struct(self, _n: &'static str) -> Result<String, SErr> { Ok("other:unit_struct".into()) }
    fn serialize_unit_variant(self, n: &'static str, i: u32, v: &'static str) -> Result<String, SErr> { Ok(format!("unit_variant:{n}:{i}:{v}")) }
    fn serialize_newtype_struct<T: ?Sized + serde::Serialize>(self, _n: &'static str, _v: &T) -> Result<String, SErr> { Ok("other:newtype_struct".into()) }
    fn serialize_newtype_variant<T: ?Sized + serde::Serialize>(self, _n: &'static str, _i: u32, _v: &'static str, _x: &T) -> Result<String, SErr> { Ok("other:newtype_variant".into()) }
    fn serialize_seq(self, _l: Option<usize>) -> Result<Self::SerializeSeq, SErr> { Err(serde::ser::Error::custom("other:seq")) }
    fn serialize_tuple(self, _l: usize) -> Result<Self::SerializeTuple, SErr> { Err(serde::ser::Error::custom("other:tuple")) }
    fn serialize_tuple_struct(self, _n: &'static str, _l: usize) -> Result<Self::SerializeTupleStruct, SErr> { Err(serde::ser::Error::custom("other:tuple_struct")) }
    fn serialize_tuple_variant(self, _n: &'static str, _i: u32, _v: &'static str, _l: usize) -> Result<Self::SerializeTupleVariant, SErr> { Err(serde::ser::Error::custom("other:tuple_variant")) }
    fn serialize_map(self, _l: Option<usize>) -> Result<Self::SerializeMap, SErr> { Err(serde::ser::Error::custom("other:map")) }
    fn serialize_struct(self, _n: &'static str, _l: usize) -> Result<Self::SerializeStruct, SErr> { Err(serde::ser::Error::custom("other:struct")) }
    fn serialize_struct_variant(self, _n: &'static str, _i: u32, _v: &'static str, _l: usize) -> Result<Self::SerializeStructVariant, SErr> { Err(serde::ser::Error::custom("other:struct_variant")) }
}
/// answers every request with an error naming the request
struct RecDe;
macro_rules! asks { ($($f:ident => $n:literal),*) => { $(fn $f<V: serde::de::Visitor<'de>>(self, _v: V) -> Result<V::Value, SErr> { Err(serde::de::Error::custom($n)) })* } }
impl<'de> serde::Deserializer<'de> for RecDe {
    type Error = SErr;
    asks!(deserialize_any => "any", deserialize_bool => "bool", deserialize_i8 => "i8", deserialize_i16 => "i16", deserialize_i32 => "i32", deserialize_i64 => "i64", deserialize_u8 => "u8", deserialize_u16 => "u16", deserialize_u32 => "u32", deserialize_u64 => "u64", deserialize_f32 => "f32", deserialize_f64 => "f64", deserialize_char => "char", deserialize_str => "str", deserialize_string => "string", deserialize_bytes => "bytes", deserialize_byte_buf => "byte_buf", deserialize_option => "option", deserialize_unit => "unit", deserialize_seq => "seq", deserialize_map => "map", deserialize_identifier => "identifier", deserialize_ignored_any => "ignored_any");
    fn deserialize_unit_struct<V: serde::de::Visitor<'de>>(self, _n: &'static str, _v: V) -> Result<V::Value, SErr> { Err(serde::de::Error::custom("unit_struct")) }
    fn deserialize_newtype_struct<V: serde::de::Visitor<'de>>(self, _n: &'static str, _v: V) -> Result<V::Value, SErr> { Err(serde::de::Error::custom("newtype_struct")) }
    fn deserialize_tuple<V: serde::de::Visitor<'de>>(self, _l: usize, _v: V) -> Result<V::Value, SErr> { Err(serde::de::Error::custom("tuple")) }
    fn deserialize_tuple_struct<V: serde::de::Visitor<'de>>(self, _n: &'static str, _l: usize, _v: V) -> Result<V::Value, SErr> { Err(serde::de::Error::custom("tuple_struct")) }
    fn deserialize_struct<V: serde::de::Visitor<'de>>(self, _n: &'static str, _f: &'static [&'static str], _v: V) -> Result<V::Value, SErr> { Err(serde::de::Error::custom("struct")) }
    fn deserialize_enum<V: serde::de::Visitor<'de>>(self, _n: &'static str, _f: &'static [&'static str], _v: V) -> Result<V::Value, SErr> { Err(serde::de::Error::custom("enum")) }
}
"##;

fn c13(tier: Tier) -> i32 {
    let rep = Reporter::new("C13", "L3", tier);
    // (configured list as written, default)
    let mut sets: Vec<(Vec<&str>, &str)> = vec![
        (vec!["en"], "en"),
        (vec!["en", "fr"], "en"),
        (vec!["fr", "en"], "en"),
        (vec!["en", "en-US", "en-GB"], "en-GB"),
        (vec!["ar", "he", "en", "fa"], "en"),
        (vec!["sr-Cyrl", "sr-Latn", "zh-Hant-TW", "zh-Hans"], "sr-Latn"),
        (vec!["de", "de-1996", "ca-valencia"], "de"),
        (vec!["fr", "de"], "en"),
        // names that are valid but not in canonical BCP-47 spelling: the string form is the configured name
        (vec!["en", "pt-br", "zh-hant-tw", "sr_Latn"], "pt-br"),
        // one language written in scripts of opposite direction
        (vec!["en", "pa", "pa-Arab", "uz-Arab", "uz"], "en"),
    ];
    if tier == Tier::Thorough {
        sets.push((vec!["EN", "en-gb", "Fr", "AR"], "Fr"));
        sets.push((vec!["ks", "ks-Deva", "az-Arab", "az", "sd-Deva", "sd", "he"], "he"));
        sets.push((vec!["ur", "ps", "yi", "dv", "en", "az-Arab"], "en"));
        sets.push((vec!["pt-BR", "pt-PT", "pt", "es-419", "es"], "pt"));
    }
    let mut cases = vec![];
    for (i, (names, default)) in sets.iter().enumerate() {
        let mut cfg = Config::simple(default, names);
        cfg.locales = Some(names.iter().map(|s| s.to_string()).collect());
        let mut p = Project::new(cfg);
        for l in p.cfg.effective_locales() {
            p.set_file(None, &l, vec![("k".into(), st(&format!("[{l}]"))), ("g".into(), Val::Sub(vec![("s".into(), st("x"))]))]);
        }
        let mut c = Case::new(&format!("c13_{}_{i}", tier.name()), p.clone());
        c.probe.items.push_str(C13_ITEMS);
        let all = p.cfg.effective_locales();
        let list: Vec<String> = all.iter().map(|n| format!("{n:?}")).collect();
        c.add_summary(
            format!("{{ let (n, problems) = c13_check(&[{}], {default:?}); p($ID, format!(\"checked={{}} problems={{}}\", n, problems.len())); for (i, pr) in problems.iter().take(40).enumerate() {{ p(1_000_000 + i, pr.clone()); }} }}", list.join(", ")),
            format!("identifier round trip for locales {names:?} default {default}"),
            "problems=0",
        );
        // the text behind each locale is its own
        c.add_all_keys(&[Flavour::TdString], &[Num::I(0)], 1);
        cases.push(c);
    }
    execute(&rep, "C13", cases);
    rep.nontriv(sets.len() as u64 * 100);
    rep.sample(json!({"locales": sets[5].0, "default": sets[5].1, "near_miss_examples": ["SR-latn", "sr-Lat", "sr-Latn ", "sr_Latn", "zh-Hans-TW"]}));
    let mut cov = serde_json::Map::new();
    cov.insert("rule".into(), json!(format!("locale sets {:?} (default listed first / last / not at all; regions, scripts, variants, RTL languages); for each a probe crate whose generated enum is checked inside the probe: get_all (set, no repeats, default first), as_str/Display/AsRef<str>/serde == configured name, as_icu_locale/as_langid/AsRef == name.parse(), direction == icu_locid_transform::LocaleDirectionality, ScopedLocale forwarding, Serialize and Deserialize making matching calls (a string written and a string asked for: the round trip through formats that are not self-describing), and FromStr / cookie codec (FromToStringCodec) / serde over every near-miss string: all case flips, every proper prefix and suffix, every one-character insertion/deletion/substitution over the letters of the names and - _ space tab, surrounding whitespace (6 kinds), separator changes, and every string of length <= 4 over the names' letters; a string maps to a locale only if it is exactly its name (surrounding whitespace may be accepted), anything else -> Err / default for serde", sets)));
    cov.insert("exhaustive".into(), json!(true));
    rep.finish(cov, &["ICU4X data defines CLDR directionality and identifier canonicalisation (trusted base)"])
}

// ---------------------------------------------------------------------------------------------
// C17: translations embedded in the server-rendered page (dynamic_load + ssr)
// ---------------------------------------------------------------------------------------------

mod jslit;

const C17_ITEMS: &str = r##"
fn render_page(touch: impl Fn() + Clone + Send + Sync + 'static) -> String {
    render_page2(|| {}, touch)
}
/// `eager` runs while the provider's children are being built (a `t_string!` in a component body), `lazy` when
/// the view is rendered (a `t!` view, a closure)
fn render_page2(eager: impl Fn() + Clone + Send + Sync + 'static, touch: impl Fn() + Clone + Send + Sync + 'static) -> String {
    struct Noop;
    impl any_spawner::CustomExecutor for Noop {
        fn spawn(&self, _f: any_spawner::PinnedFuture<()>) {}
        fn spawn_local(&self, _f: any_spawner::PinnedLocalFuture<()>) {}
        fn poll_local(&self) {}
    }
    let _ = any_spawner::Executor::init_custom_executor(Noop);
    let owner = Owner::new();
    let html = owner.with(|| {
        let opts = leptos_i18n::context::UseLocalesOptions::default().ssr_lang_header_getter(|| None);
        view! {
            <I18nContextProvider enable_cookie=false ssr_lang_header_getter=opts>
                {eager(); "head"}
                <p>{move || { touch(); "body" }}</p>
            </I18nContextProvider>
        }
        .to_html()
    });
    html
}
/// as `render_page2`, but the view is walked once with `dry_resolve()` before it is rendered - what a streamed
/// render does with everything below a `<Suspense>` boundary
fn render_page_dry(eager: impl Fn() + Clone + Send + Sync + 'static, touch: impl Fn() + Clone + Send + Sync + 'static) -> String {
    struct Noop;
    impl any_spawner::CustomExecutor for Noop {
        fn spawn(&self, _f: any_spawner::PinnedFuture<()>) {}
        fn spawn_local(&self, _f: any_spawner::PinnedLocalFuture<()>) {}
        fn poll_local(&self) {}
    }
    let _ = any_spawner::Executor::init_custom_executor(Noop);
    let owner = Owner::new();
    owner.with(|| {
        let opts = leptos_i18n::context::UseLocalesOptions::default().ssr_lang_header_getter(|| None);
        let mut v = view! {
            <I18nContextProvider enable_cookie=false ssr_lang_header_getter=opts>
                {eager(); "head"}
                <p>{move || { touch(); "body" }}</p>
            </I18nContextProvider>
        };
        v.dry_resolve();
        v.to_html()
    })
}
/// `outer` is read under the page's provider, `inner` below a `<I18nSubContextProvider>` nested in it (eagerly while
/// its children are built when `inner_eager`, else at render time)
fn render_page_sub(outer: impl Fn() + Clone + Send + Sync + 'static, inner: impl Fn() + Clone + Send + Sync + 'static, inner_eager: bool) -> String {
    struct Noop;
    impl any_spawner::CustomExecutor for Noop {
        fn spawn(&self, _f: any_spawner::PinnedFuture<()>) {}
        fn spawn_local(&self, _f: any_spawner::PinnedLocalFuture<()>) {}
        fn poll_local(&self) {}
    }
    let _ = any_spawner::Executor::init_custom_executor(Noop);
    let owner = Owner::new();
    owner.with(|| {
        let opts = leptos_i18n::context::UseLocalesOptions::default().ssr_lang_header_getter(|| None);
        let inner2 = inner.clone();
        view! {
            <I18nContextProvider enable_cookie=false ssr_lang_header_getter=opts>
                <p>{move || { outer(); "outer" }}</p>
                <I18nSubContextProvider initial_locale=Signal::derive(|| Locale::en) ssr_lang_header_getter=leptos_i18n::context::UseLocalesOptions::default().ssr_lang_header_getter(|| None)>
                    {if inner_eager { inner2(); } "sub"}
                    <p>{move || { if !inner_eager { inner(); } "inner" }}</p>
                </I18nSubContextProvider>
            </I18nContextProvider>
        }
        .to_html()
    })
}
"##;

fn c17(tier: Tier, pid: &str) -> i32 {
    let rep = Reporter::new(pid, "L3", tier);
    let nasty: Vec<char> = vec!['"', '\\', '\u{0}', '\u{1}', '\u{1f}', '\u{7f}', '\u{a0}', '\u{ad}', '\u{200b}', '\u{2028}', '\u{feff}', '\u{301}', '\u{1f600}', 'a'];
    let mut strings: Vec<String> = vec![];
    for a in &nasty {
        for b in &nasty {
            strings.push(format!("{a}{b}"));
        }
    }
    for sp in ["</script>", "</SCRIPT ", "<!--", "]]>", "\u{2029}", "'", "`", "${x}", "<script>", "</script>\\", "\n", "\r\n", "-->", "<!-- <script>", "é🎉", "plain text"] {
        strings.push(sp.to_string());
        strings.push(format!("he said \"hi\" \\ {sp} end"));
    }
    // every sequence of <= 2 (thorough 3) HTML-tokenizer-relevant tokens: comment open/close, script open/close
    let toks = ["<!--", "<script>", "<script ", "</script>", "-->", "<!-->", "x"];
    // (an opening tag followed by its closing tag is a component in the value grammar, not text)
    let is_text = |s: &str| s.find("<script").map(|i| !s[i..].contains("</script>")).unwrap_or(true);
    for a in toks {
        for b in toks {
            strings.push(format!("{a}{b}"));
            if tier == Tier::Thorough {
                for c in toks {
                    strings.push(format!("{a}{b}{c}"));
                }
            }
        }
    }
    strings.retain(|s| is_text(s));
    // the same token sequences, each alone in a translation unit of its own (third project): what one string
    // does to the tokenizer state is then not undone by a later string of the same unit
    let mut tok_strings: Vec<String> = toks.iter().map(|t| t.to_string()).collect();
    for a in toks {
        for b in toks {
            tok_strings.push(format!("{a}{b}"));
            for c in toks {
                if tier == Tier::Thorough || c == "x" {
                    tok_strings.push(format!("{a}{b}{c}"));
                }
            }
        }
    }
    tok_strings.retain(|s| is_text(s));
    tok_strings.sort();
    tok_strings.dedup();
    let units = [("en", "one"), ("en", "two"), ("fr", "one"), ("fr", "two")];
    let per_file = (strings.len() + 3) / 4;
    let mut cases = vec![];
    let mut n_pages = 0u64;
    // project A: namespaces; project B: no namespaces
    for namespaced in [true, false] {
        // (the flat project names its second locale in a spelling that is not the canonical one: the name a unit is
        // embedded under is the configured name)
        let l2 = if namespaced { "fr" } else { "pt-br" };
        let units: Vec<(&str, &str)> = units.iter().map(|(l, n)| (if *l == "fr" { l2 } else { *l }, *n)).collect();
        let mut cfg = Config::simple("en", &["en", l2]);
        if namespaced {
            cfg = cfg.with_namespaces(&["one", "two"]);
        }
        let mut p = Project::new(cfg);
        let mut tables: BTreeMap<(String, String), Vec<String>> = BTreeMap::new();
        for (ui, (loc, ns)) in units.iter().enumerate() {
            if !namespaced && *ns == "two" {
                continue;
            }
            let chunk: Vec<String> = strings.iter().skip(if namespaced { ui * per_file } else { (ui / 2) * 2 * per_file }).take(if namespaced { per_file } else { 2 * per_file }).cloned().collect();
            let mut e: Vec<(String, Val)> = chunk.iter().enumerate().map(|(i, sv)| (format!("s{i:03}"), st(sv))).collect();
            // the same key set in both locales (fr holds the en strings reversed) + an interpolation
            if *loc == l2 {
                let vals: Vec<Val> = e.iter().rev().map(|(_, v)| v.clone()).collect();
                for (i, v) in vals.into_iter().enumerate() {
                    e[i].1 = v;
                }
            }
            e.push(("greet".into(), s(vec![text(&format!("[{loc}.{ns}] \"")), var("x"), text("\" </script>")])));
            // a plain key the second locale leaves to the default (null): read in either locale it is the DEFAULT's unit
            // that is used
            if *ns == "one" {
                e.push(("nul".into(), if *loc == "en" { st("[en.nul] only \"here\" </script>") } else { Val::Null }));
            }
            tables.insert((loc.to_string(), ns.to_string()), chunk);
            p.set_file(if namespaced { Some(ns) } else { None }, loc, e);
        }
        let mut c = Case::new(&format!("c17_{}_{}", tier.name(), if namespaced { "ns" } else { "flat" }), p.clone());
        c.probe.features = vec!["dynamic_load"];
        c.probe.items.push_str(C17_ITEMS);
        // the table each unit exports through the server function
        let live_units: Vec<(&str, &str)> = units.iter().copied().filter(|(_, ns)| namespaced || *ns == "one").collect();
        for (loc, ns) in &live_units {
            let id = if namespaced { format!("I18nTranslationUnitsId::{ns}") } else { "()".to_string() };
            c.add(
                format!("serde_json::to_string(&I18nKeys::__i18n_request_translations__({}, {id})).unwrap()", locale_variant(loc)),
                format!("TABLE {loc} {ns}"),
                String::new(),
            );
        }
        // pages: every ordered subset of touched units (+ a locale switch mid-render)
        let mut seqs: Vec<Vec<usize>> = vec![vec![]];
        let n = live_units.len();
        for mask in subsets(n) {
            let members: Vec<usize> = (0..n).filter(|i| mask >> i & 1 == 1).collect();
            if members.is_empty() {
                continue;
            }
            for perm in permutations(members.len()) {
                seqs.push(perm.iter().map(|i| members[*i]).collect());
            }
        }
        for seq in &seqs {
            let mut body = String::new();
            for u in seq {
                let (loc, ns) = live_units[*u];
                let key = if namespaced { format!("{ns}.s000") } else { "s000".to_string() };
                body.push_str(&format!("let _ = futures::executor::block_on(async {{ td_string!({}, {key}).await.to_string() }}); ", locale_variant(loc)));
            }
            c.add(format!("render_page(move || {{ {body} }})"), format!("PAGE touched {:?}", seq.iter().map(|u| live_units[*u]).collect::<Vec<_>>()), String::new());
            n_pages += 1;
            // .. and with the view walked once (dry_resolve) before it is rendered: units read once, eagerly, are still
            // units the request used
            if seq.len() == 1 || seq.len() == 2 {
                c.add(format!("render_page_dry(move || {{ {body} }}, || {{}})"), format!("PAGE dry-resolved eager touched {:?}", seq.iter().map(|u| live_units[*u]).collect::<Vec<_>>()), String::new());
                c.add(format!("render_page_dry(|| {{}}, move || {{ {body} }})"), format!("PAGE dry-resolved lazy touched {:?}", seq.iter().map(|u| live_units[*u]).collect::<Vec<_>>()), String::new());
                n_pages += 2;
            }
            // the same units read while the component body is built (eagerly), and the first eagerly / the rest lazily
            if !seq.is_empty() && (seq.len() <= 2 || tier == Tier::Thorough) {
                c.add(format!("render_page2(move || {{ {body} }}, || {{}})"), format!("PAGE eager touched {:?}", seq.iter().map(|u| live_units[*u]).collect::<Vec<_>>()), String::new());
                n_pages += 1;
                if seq.len() > 1 {
                    let (loc, ns) = live_units[seq[0]];
                    let key = if namespaced { format!("{ns}.s000") } else { "s000".to_string() };
                    let first = format!("let _ = futures::executor::block_on(async {{ td_string!({}, {key}).await.to_string() }}); ", locale_variant(loc));
                    let rest = body.strip_prefix(first.as_str()).expect("first unit of the body");
                    c.add(format!("render_page2(move || {{ {first} }}, move || {{ {rest} }})"), format!("PAGE first-eager touched {:?}", seq.iter().map(|u| live_units[*u]).collect::<Vec<_>>()), String::new());
                    n_pages += 1;
                }
            }
        }
        // a page whose only read is the plain key that the second locale leaves to the default
        for l in ["en", l2] {
            let key = if namespaced { "one.nul" } else { "nul" };
            c.add(
                format!("render_page(move || {{ let _ = futures::executor::block_on(async {{ td_string!({}, {key}).await.to_string() }}); }})", locale_variant(l)),
                format!("PAGE defaulted-plain-key read in {l} touched [(\"en\", \"one\")]"),
                String::new(),
            );
            n_pages += 1;
        }
        // through the context, with a locale switch in the middle of the render
        let k1 = if namespaced { "one.greet" } else { "greet" };
        let k2 = if namespaced { "two.s001" } else { "s001" };
        c.add(
            format!("render_page(move || {{ let i18n = use_i18n(); let _ = futures::executor::block_on(async {{ t_string!(i18n, {k1}, x = \"v\").await.to_string() }}); i18n.set_locale({}); let _ = futures::executor::block_on(async {{ t_string!(i18n, {k2}).await.to_string() }}); }})", locale_variant(l2)),
            format!("PAGE switch en:{k1} -> fr:{k2}"),
            String::new(),
        );
        n_pages += 1;
        // units read only below a sub-context provider nested in the page's provider are units used by the request
        for (o, i) in [(None, 0usize), (Some(0usize), live_units.len() - 1), (Some(live_units.len() - 1), 0), (Some(0), 0)] {
            for eager in [false, true] {
                let read = |u: usize| {
                    let (loc, ns) = live_units[u];
                    let key = if namespaced { format!("{ns}.s000") } else { "s000".to_string() };
                    format!("let _ = futures::executor::block_on(async {{ td_string!({}, {key}).await.to_string() }}); ", locale_variant(loc))
                };
                let outer = o.map(read).unwrap_or_default();
                let mut touched = vec![];
                if let Some(o) = o {
                    touched.push(live_units[o]);
                }
                if !touched.contains(&live_units[i]) {
                    touched.push(live_units[i]);
                }
                c.add(format!("render_page_sub(move || {{ {outer} }}, move || {{ {} }}, {eager})", read(i)), format!("PAGE sub-context ({}) touched {touched:?}", if eager { "eager" } else { "lazy" }), String::new());
                n_pages += 1;
            }
        }
        cases.push((c, tables, namespaced));
    }
    {
        let ns_names: Vec<String> = (0..tok_strings.len()).map(|i| format!("t{i:03}")).collect();
        let mut ns_refs: Vec<&str> = ns_names.iter().map(|s| s.as_str()).collect();
        ns_refs.push("vars");
        ns_refs.push("vars2");
        // a namespace whose NAME is not its Rust identifier: the embedded unit id is the name
        ns_refs.push("dash-ns");
        let mut p = Project::new(Config::simple("en", &["en"]).with_namespaces(&ns_refs));
        let mut tables: BTreeMap<(String, String), Vec<String>> = BTreeMap::new();
        p.set_file(Some("vars"), "en", vec![("amount".into(), s(vec![var("n")])), ("both".into(), s(vec![var("a"), var("b")]))]);
        tables.insert(("en".to_string(), "vars".to_string()), vec![]);
        p.set_file(Some("vars2"), "en", vec![("only".into(), s(vec![var("z")]))]);
        tables.insert(("en".to_string(), "vars2".to_string()), vec![]);
        p.set_file(Some("dash-ns"), "en", vec![("s".into(), st("dashed")), ("tail".into(), st("ok")), ("v".into(), s(vec![var("z")]))]);
        tables.insert(("en".to_string(), "dash-ns".to_string()), vec!["dashed".to_string(), "ok".to_string()]);
        for (ns, sv) in ns_names.iter().zip(&tok_strings) {
            p.set_file(Some(ns), "en", vec![("s".into(), st(sv)), ("tail".into(), st("ok"))]);
            tables.insert(("en".to_string(), ns.clone()), vec![sv.clone(), "ok".to_string()]);
        }
        let mut c = Case::new(&format!("c17_{}_tok", tier.name()), p.clone());
        c.probe.features = vec!["dynamic_load"];
        c.probe.items.push_str(C17_ITEMS);
        // units whose string table is EMPTY (values made of variables only), alone and next to other units
        c.add("serde_json::to_string(&I18nKeys::__i18n_request_translations__(Locale::en, I18nTranslationUnitsId::vars)).unwrap()".to_string(), "TABLE en vars".to_string(), String::new());
        c.add(
            "render_page(move || { let _ = futures::executor::block_on(async { td_string!(Locale::en, vars.amount, n = 42).await.to_string() }); })".to_string(),
            "PAGE touched [(\"en\", \"vars\")]".to_string(),
            String::new(),
        );
        c.add(
            "render_page(move || { let _ = futures::executor::block_on(async { td_string!(Locale::en, vars.both, a = 1, b = 2).await.to_string() }); let _ = futures::executor::block_on(async { td_string!(Locale::en, t000.tail).await.to_string() }); })".to_string(),
            "PAGE touched [(\"en\", \"vars\"), (\"en\", \"t000\")]".to_string(),
            String::new(),
        );
        c.add(
            "render_page(move || { let _ = futures::executor::block_on(async { td_string!(Locale::en, t000.tail).await.to_string() }); let _ = futures::executor::block_on(async { td_string!(Locale::en, vars.amount, n = 1).await.to_string() }); })".to_string(),
            "PAGE touched [(\"en\", \"t000\"), (\"en\", \"vars\")]".to_string(),
            String::new(),
        );
        // two units with empty tables and one with strings: whatever order the registry hands them out in, an
        // empty one is followed by another unit
        c.add("serde_json::to_string(&I18nKeys::__i18n_request_translations__(Locale::en, I18nTranslationUnitsId::vars2)).unwrap()".to_string(), "TABLE en vars2".to_string(), String::new());
        for order in [["vars.amount, n = 1", "vars2.only, z = 2", "t000.tail"], ["t000.tail", "vars2.only, z = 2", "vars.amount, n = 1"], ["vars2.only, z = 2", "t000.tail", "vars.amount, n = 1"]] {
            let body: String = order.iter().map(|k| format!("let _ = futures::executor::block_on(async {{ td_string!(Locale::en, {k}).await.to_string() }}); ")).collect();
            c.add(format!("render_page(move || {{ {body} }})"), "PAGE touched [(\"en\", \"vars\"), (\"en\", \"vars2\"), (\"en\", \"t000\")]".to_string(), String::new());
            c.add(format!("render_page2(move || {{ {body} }}, || {{}})"), "PAGE eager touched [(\"en\", \"vars\"), (\"en\", \"vars2\"), (\"en\", \"t000\")]".to_string(), String::new());
            n_pages += 2;
        }
        c.add("serde_json::to_string(&I18nKeys::__i18n_request_translations__(Locale::en, I18nTranslationUnitsId::dash_ns)).unwrap()".to_string(), "TABLE en dash-ns".to_string(), String::new());
        c.add(
            "render_page(move || { let _ = futures::executor::block_on(async { td_string!(Locale::en, dash_ns.s).await.to_string() }); })".to_string(),
            "PAGE touched [(\"en\", \"dash-ns\")]".to_string(),
            String::new(),
        );
        // a unit whose only read is the VIEW of a key that holds no literal text (the unit's other keys do): it is a unit
        // the request used; likewise the view of a key of a unit with an empty table
        c.add(
            "render_page(move || { let _ = leptos::prelude::IntoView::into_view(td!(Locale::en, dash_ns.v, z = 1)).to_html(); })".to_string(),
            "PAGE view-of-a-variable-only-key touched [(\"en\", \"dash-ns\")]".to_string(),
            String::new(),
        );
        c.add(
            "render_page(move || { let _ = leptos::prelude::IntoView::into_view(td!(Locale::en, vars.amount, n = 42)).to_html(); })".to_string(),
            "PAGE view-of-a-variable-only-key touched [(\"en\", \"vars\")]".to_string(),
            String::new(),
        );
        n_pages += 2;
        // the unit id also travels through serde (server function arguments): name out, name in
        c.add(
            "{ let j = serde_json::to_string(&I18nTranslationUnitsId::dash_ns).unwrap(); let back: Result<I18nTranslationUnitsId, _> = serde_json::from_str(&j); format!(\"{j} {}\", back.is_ok()) }".to_string(),
            "UNITID dash-ns".to_string(),
            "\"dash-ns\" true".to_string(),
        );
        n_pages += 4;
        for ns in &ns_names {
            c.add(format!("serde_json::to_string(&I18nKeys::__i18n_request_translations__(Locale::en, I18nTranslationUnitsId::{ns})).unwrap()"), format!("TABLE en {ns}"), String::new());
        }
        for ns in &ns_names {
            c.add(
                format!("render_page(move || {{ let _ = futures::executor::block_on(async {{ td_string!(Locale::en, {ns}.tail).await.to_string() }}); }})"),
                format!("PAGE touched [(\"en\", \"{ns}\")]"),
                String::new(),
            );
            n_pages += 1;
        }
        cases.push((c, tables, true));
    }
    // run
    let mut plain_cases = vec![];
    let mut metas = vec![];
    for (mut c, tables, namespaced) in cases {
        // what the client makes of each exported table: the payload of the server function read back through the
        // library's own client-side type (the reader of the server-fn answer in hydrate mode and of the build helper's
        // files in csr mode)
        let table_ids: Vec<(usize, String)> = c.expected.iter().filter(|(_, e)| e.what.starts_with("TABLE ")).map(|(id, e)| (*id, e.what.clone())).collect();
        for (id, what) in table_ids {
            let head = format!("p({id}, ");
            let Some(stmt) = c.probe.stmts.iter().find(|st| st.starts_with(&head)).cloned() else { continue };
            let expr = stmt[head.len()..].trim_end_matches(");").to_string();
            c.add(
                format!("{{ let payload: String = {expr}; match serde_json::from_str::<leptos_i18n::__private::fetch_translations::LocaleServerFnOutputClient>(&payload) {{ Ok(t) => serde_json::to_string(&t.0).unwrap(), Err(e) => format!(\"CLIENT DECODE ERROR: {{e}}\") }} }}"),
                what.replacen("TABLE ", "CLIENT ", 1),
                String::new(),
            );
        }
        metas.push((c.probe.name.clone(), c.expected.iter().map(|(k, v)| (*k, v.what.clone())).collect::<BTreeMap<_, _>>(), tables, namespaced));
        // expectations are judged below, not by `execute`
        plain_cases.push(Case { probe: c.probe, expected: BTreeMap::new(), next_id: c.next_id });
    }
    execute(&rep, pid, plain_cases);
    for (name, whats, tables, namespaced) in metas {
        let Ok(records) = run(&name) else { continue };
        // exported tables per unit
        let mut exported: BTreeMap<(String, String), Vec<String>> = BTreeMap::new();
        for (id, what) in &whats {
            if let Some(rest) = what.strip_prefix("TABLE ") {
                let (loc, ns) = rest.split_once(' ').unwrap();
                let Some(js) = records.get(id) else { continue };
                match serde_json::from_str::<Vec<String>>(js) {
                    Ok(v) => {
                        // every literal of the file is in the table
                        let want: std::collections::BTreeSet<&String> = tables[&(loc.to_string(), ns.to_string())].iter().collect();
                        let got: std::collections::BTreeSet<&String> = v.iter().collect();
                        if !want.is_subset(&got) {
                            rep.violation(format!("{pid}/L3: server-function table of ({loc},{ns}) lacks literals of the file, e.g. {:?}", want.difference(&got).take(3).collect::<Vec<_>>()), json!({}));
                        }
                        exported.insert((loc.to_string(), ns.to_string()), v);
                    }
                    Err(e) => rep.violation(format!("{pid}/L3: server-function table of ({loc},{ns}) is not JSON: {e}"), json!({})),
                }
                rep.eval(1);
            }
        }
        for (id, what) in &whats {
            if let Some(rest) = what.strip_prefix("CLIENT ") {
                rep.eval(1);
                let (loc, ns) = rest.split_once(' ').unwrap();
                let got = records.get(id).cloned().unwrap_or_default();
                let decoded = serde_json::from_str::<Vec<String>>(&got).ok();
                if let Some(t) = exported.get(&(loc.to_string(), ns.to_string())) {
                    if decoded.as_ref() != Some(t) {
                        rep.violation(format!("{pid}/L3: the client-side reader (LocaleServerFnOutputClient) of the table of ({loc},{ns}) gives {} instead of the exported table", vmodel::report::truncate(&got, 200)), json!({}));
                    }
                }
            }
        }
        for (id, what) in &whats {
            if let Some(ns) = what.strip_prefix("UNITID ") {
                rep.eval(1);
                let want = format!("\"{ns}\" true");
                if records.get(id) != Some(&want) {
                    rep.violation(format!("{pid}/L3: the translation unit id of namespace {ns} serialises / parses back as {:?}, expected {want:?}", records.get(id)), json!({}));
                }
            }
        }
        for (id, what) in &whats {
            let Some(desc) = what.strip_prefix("PAGE ") else { continue };
            rep.eval(1);
            let Some(html) = records.get(id) else {
                rep.violation(format!("{pid}/L3: no page rendered for {desc}"), json!({}));
                continue;
            };
            // which units did the page touch?
            let mut want_units: std::collections::BTreeSet<(String, String)> = Default::default();
            for (loc, ns) in tables.keys() {
                if desc.contains(&format!("(\"{loc}\", \"{ns}\")")) {
                    want_units.insert((loc.to_string(), ns.to_string()));
                }
            }
            if desc.starts_with("switch") {
                want_units.insert(("en".into(), "one".into()));
                want_units.insert((if namespaced { "fr" } else { "pt-br" }.into(), if namespaced { "two".into() } else { "one".into() }));
            }
            match jslit::extract_and_decode(html) {
                Err(e) => rep.violation(
                    format!("{pid}/L3: page touching {desc} (namespaced={namespaced}): embedded script is not a valid `window.__LEPTOS_I18N_TRANSLATIONS = [..];` statement: {e}"),
                    json!({"page_head": vmodel::report::truncate(html, 600)}),
                ),
                Ok(units) => {
                    let got_units: std::collections::BTreeSet<(String, String)> = units.iter().map(|u| (u.locale.clone(), u.id.clone().unwrap_or_else(|| "one".into()))).collect();
                    if got_units != want_units || units.len() != want_units.len() {
                        rep.violation(format!("{pid}/L3: page touching {desc} embeds units {got_units:?}, expected exactly {want_units:?}"), json!({}));
                    }
                    for u in &units {
                        let key = (u.locale.clone(), u.id.clone().unwrap_or_else(|| "one".into()));
                        if let Some(t) = exported.get(&key) {
                            if *t != u.values {
                                let i = t.iter().zip(&u.values).position(|(a, b)| a != b).unwrap_or(t.len().min(u.values.len()));
                                rep.violation(
                                    format!("{pid}/L3: page touching {desc}: embedded strings of unit {key:?} differ from the unit's table at index {i}: {:?} vs {:?}", u.values.get(i), t.get(i)),
                                    json!({}),
                                );
                            }
                        }
                        if namespaced != u.id.is_some() {
                            rep.violation(format!("{pid}/L3: unit id {:?} with namespaced={namespaced}", u.id), json!({}));
                        }
                    }
                }
            }
        }
    }
    rep.nontriv(n_pages);
    rep.sample(json!({"strings": ["\"\\", "</script>", "he said \"hi\" \\ </script> end", "\u{2028}a"]}));
    let mut cov = serde_json::Map::new();
    cov.insert("rule".into(), json!("two probe crates built with dynamic_load + ssr (two namespaces x two locales; no namespaces): translation strings = all 196 two-character strings over 14 hostile characters plus </script>, </SCRIPT , <!--, -->, ]]>, U+2029, quotes, backtick, ${x}, newlines alone and inside a sentence with quotes and backslashes, and every sequence of <= 2 (thorough 3) tokens over <!--, <script>, <script , </script>, -->, <!-->, x; pages = <I18nContextProvider> rendered natively to HTML for every ordered subset of touched units (65 with namespaces, 5 without) and a context-driven render with a locale switch in the middle; third probe crate: every such token sequence of <= 2 tokens (+ a trailing x; thorough <= 3) alone in a namespace of its own, one page per namespace, plus two namespaces whose values are variables only (empty string tables) rendered alone, before / after another unit and both together with a third unit in three orders (an empty table is then never the last unit written), every page of <= 2 units also walked once with dry_resolve() before rendering (what a streamed render does below a Suspense boundary), and with the units read eagerly - while the provider's children are built, as a t_string! in a component body does - and with the first unit eager and the rest lazy, and a namespace whose name (`dash-ns`) differs from its Rust identifier, also read only through the view of a key without literal text; oracle: the <script> element is cut the way the WHATWG tokenizer cuts it (script data / escaped / double escaped states: after `<!--` then `<script` an end tag no longer closes the element), every script element of the page is evaluated in document order - each body must be `window.__LEPTOS_I18N_TRANSLATIONS = <array literal>;` and the value of the last one is what the client finds -, it is read by an ECMAScript literal reader (all JS escapes, no raw line terminators in strings), and its decoded value must list exactly the touched (locale, unit) pairs, each with the unit's table as exported by the generated server function; each exported table, serialised as the server function's answer, is read back through the library's client-side type LocaleServerFnOutputClient and must be the same list"));
    cov.insert("exhaustive".into(), json!(true));
    rep.finish(cov, &["the hydrate-side consumer (init_translations, serde_wasm_bindgen) needs a browser: not executed"])
}

// ---------------------------------------------------------------------------------------------
// C12 (L3 half): negotiation on the GENERATED enum (which locale is the default, what get_all lists)
// ---------------------------------------------------------------------------------------------

const C12_ITEMS: &str = r##"
use leptos_i18n::Locale as _;
use leptos_i18n::reexports::icu::locid::LanguageIdentifier as Lid;

fn c12_matches(s: &Lid, r: &Lid) -> bool {
    (s.language.is_empty() || s.language == r.language)
        && (s.script.is_none() || s.script == r.script)
        && (s.region.is_none() || s.region == r.region)
        && (s.variants.is_empty() || s.variants == r.variants)
}

/// every request list of length <= 2 over `universe`; the answer must follow the statement
fn c12_check(configured_default: &str, universe: &[&str]) -> (u64, Vec<String>) {
    let supported = Locale::get_all();
    let mut problems = vec![];
    let mut n = 0u64;
    let mut lists: Vec<Vec<&str>> = vec![vec![]];
    for a in universe {
        lists.push(vec![a]);
        for b in universe {
            lists.push(vec![a, b]);
        }
    }
    for reqs in &lists {
        n += 1;
        let answer = Locale::find_locale(reqs);
        let parsed: Vec<Option<Lid>> = reqs.iter().map(|r| Lid::try_from_bytes(r.as_bytes()).ok()).collect();
        let mut decisive = None;
        for r in parsed.iter().flatten() {
            if supported.iter().any(|s| c12_matches(s.as_langid(), r)) {
                decisive = Some(r.clone());
                break;
            }
        }
        match decisive {
            None => {
                if answer.as_str() != configured_default {
                    problems.push(format!("find_locale({reqs:?}): nothing matches, expected the configured default {configured_default}, got {}", answer.as_str()));
                }
            }
            Some(r) => {
                if !c12_matches(answer.as_langid(), &r) {
                    problems.push(format!("find_locale({reqs:?}): the answer {} does not match the first matchable request {r}", answer.as_str()));
                } else if let Some(exact) = supported.iter().find(|s| s.as_langid() == &r) {
                    if *exact != answer {
                        problems.push(format!("find_locale({reqs:?}): exact match {} passed over for {}", exact.as_str(), answer.as_str()));
                    }
                }
            }
        }
    }
    (n, problems)
}
"##;

fn c12(tier: Tier) -> i32 {
    let rep = Reporter::new("C12", "L3", tier);
    // (configured list as written, default): default listed first / last / in the middle / not at all
    let mut sets: Vec<(Vec<&str>, &str)> = vec![
        (vec!["en", "fr"], "en"),
        (vec!["fr", "en"], "en"),
        (vec!["en", "fr"], "de"),
        (vec!["fr", "de-DE", "en-GB"], "de"),
        (vec!["en", "en-US", "en-GB", "fr-CA"], "en-GB"),
    ];
    if tier == Tier::Thorough {
        sets.push((vec!["fr", "en", "de"], "en"));
        sets.push((vec!["de-Latn-DE", "de-DE", "de"], "de-DE"));
        sets.push((vec!["fr"], "en"));
        sets.push((vec!["zh-Hant-TW", "zh-Hans", "sr-Cyrl"], "sr-Latn"));
    }
    let universe = ["en", "en-US", "en-GB", "fr", "fr-FR", "fr-CA", "de", "de-DE", "de-Latn-DE", "de-DE-1996", "zh-Hant", "sr", "it", "und", "en-us", "garbage!", " fr", ""];
    let mut cases = vec![];
    for (i, (names, default)) in sets.iter().enumerate() {
        let mut cfg = Config::simple(default, names);
        cfg.locales = Some(names.iter().map(|s| s.to_string()).collect());
        let mut p = Project::new(cfg);
        for l in p.cfg.effective_locales() {
            p.set_file(None, &l, vec![("k".into(), st(&format!("[{l}]")))]);
        }
        let mut c = Case::new(&format!("c12_{}_{i}", tier.name()), p.clone());
        c.probe.items.push_str(C12_ITEMS);
        let list: Vec<String> = universe.iter().map(|n| format!("{n:?}")).collect();
        c.add_summary(
            format!("{{ let (n, problems) = c12_check({default:?}, &[{}]); p($ID, format!(\"checked={{}} problems={{}}\", n, problems.len())); for (i, pr) in problems.iter().take(40).enumerate() {{ p(1_000_000 + i, pr.clone()); }} }}", list.join(", ")),
            format!("negotiation on the generated enum for locales {names:?} default {default}"),
            "problems=0",
        );
        cases.push(c);
    }
    execute(&rep, "C12", cases);
    rep.nontriv(sets.len() as u64);
    rep.sample(json!({"locales": sets[2].0, "default": sets[2].1, "requests": ["ja", "garbage!"], "expected": "de"}));
    let mut cov = serde_json::Map::new();
    cov.insert("rule".into(), json!(format!("locale sets {sets:?} (default listed first / last / not at all) compiled through the proc-macro; inside the probe Locale::find_locale on every request list of length <= 2 over {universe:?}: no matchable request -> the CONFIGURED default; otherwise the answer matches the first matchable request (exactly if an exact match exists)")));
    cov.insert("exhaustive".into(), json!(true));
    rep.finish(cov, &["the relational oracle is the one of the RT engine, restated inside the probe"])
}

// ---------------------------------------------------------------------------------------------
// C18: formatter output == direct ICU4X, for the locale being rendered; cache histories
// ---------------------------------------------------------------------------------------------

const C18_ITEMS: &str = r##"
use leptos_i18n::reexports::fixed_decimal::FixedDecimal;
use leptos_i18n::reexports::icu::calendar::{Date, DateTime, Time, AnyCalendar};
use leptos_i18n::reexports::icu::datetime::{options::length, DateFormatter, DateTimeFormatter, TimeFormatter};
use leptos_i18n::reexports::icu::decimal::{options::{FixedDecimalFormatterOptions, GroupingStrategy}, FixedDecimalFormatter};
use leptos_i18n::reexports::icu::list::{ListFormatter, ListLength};
use leptos_i18n::reexports::icu::currency::{formatter::{CurrencyCode, CurrencyFormatter}, options::{CurrencyFormatterOptions, Width as CurrencyWidth}};
use leptos_i18n::reexports::icu::locid::Locale as IcuLocale;
use leptos_i18n::formatting::*;

fn dl(l: &str) -> leptos_i18n::reexports::icu::provider::DataLocale { (&l.parse::<IcuLocale>().unwrap()).into() }
fn fd(v: f64) -> FixedDecimal { FixedDecimal::try_from_f64(v, leptos_i18n::reexports::fixed_decimal::FloatPrecision::Floating).unwrap() }
type D = Result<String, String>;
fn es<E: std::fmt::Debug>(e: E) -> String { format!("{e:?}") }
fn d_num(l: &str, gs: GroupingStrategy, v: f64) -> D {
    Ok(FixedDecimalFormatter::try_new(&dl(l), FixedDecimalFormatterOptions::from(gs)).map_err(es)?.format_to_string(&fd(v)))
}
fn d_cur(l: &str, w: CurrencyWidth, code: &str, v: f64) -> D {
    let f = CurrencyFormatter::try_new(&dl(l), CurrencyFormatterOptions::from(w)).map_err(es)?;
    Ok(writeable_to_string(&f.format_fixed_decimal(&fd(v), CurrencyCode(tinystr_of(code)))))
}
fn tinystr_of(code: &str) -> tinystr::TinyAsciiStr<3> { code.parse().unwrap() }
fn writeable_to_string<W: writeable::Writeable>(w: &W) -> String { let mut s = String::new(); w.write_to(&mut s).unwrap(); s }
fn the_date() -> Date<AnyCalendar> { Date::try_new_iso_date(1970, 1, 2).unwrap().to_any() }
fn the_time() -> Time { Time::try_new(14, 34, 28, 0).unwrap() }
fn the_datetime() -> DateTime<AnyCalendar> { DateTime::new(the_date(), the_time()) }
fn d_date(l: &str, len: length::Date, _v: ()) -> D { DateFormatter::try_new_with_length(&dl(l), len).map_err(es)?.format_to_string(&the_date()).map_err(es) }
fn d_time(l: &str, len: length::Time, _v: ()) -> D { Ok(TimeFormatter::try_new_with_length(&dl(l), len).map_err(es)?.format_to_string(&the_time())) }
fn d_datetime(l: &str, d: length::Date, t: length::Time, _v: ()) -> D {
    let opts = length::Bag::from_date_time_style(d, t);
    DateTimeFormatter::try_new(&dl(l), opts.into()).map_err(es)?.format_to_string(&the_datetime()).map_err(es)
}
fn d_list(l: &str, ty: &str, len: ListLength, v: &[&'static str]) -> D {
    let f = match ty {
        "And" => ListFormatter::try_new_and_with_length(&dl(l), len),
        "Or" => ListFormatter::try_new_or_with_length(&dl(l), len),
        _ => ListFormatter::try_new_unit_with_length(&dl(l), len),
    }
    .map_err(es)?;
    Ok(f.format_to_string(v.iter()))
}
/// `observed` is only evaluated when ICU4X itself can format with these options
fn cmp(id: usize, observed: impl FnOnce() -> String, prefix: &str, expected: D) {
    match expected {
        Err(e) => p(id, format!("SKIP-ICU-UNSUPPORTED {e}")),
        Ok(expected) => {
            let expected = format!("{prefix}{expected}");
            let observed = observed();
            if observed == expected { p(id, format!("OK {expected}")) } else { p(id, format!("MISMATCH observed {observed:?} direct-ICU {expected:?}")) }
        }
    }
}
/// documented options ICU4X cannot honour: what does the library do? (run last: a panic poisons the cache lock)
fn probe_unsupported(id: usize, what: &str, call: impl FnOnce() -> String + std::panic::UnwindSafe, expected: D) {
    if expected.is_ok() { p(id, "OK supported".to_string()); return; }
    std::panic::set_hook(Box::new(|_| {}));
    match std::panic::catch_unwind(call) {
        Ok(s) => p(id, format!("OK library answered {s:?} where ICU4X refuses")),
        Err(e) => {
            let msg = e.downcast_ref::<String>().cloned().or_else(|| e.downcast_ref::<&str>().map(|s| s.to_string())).unwrap_or_default();
            p(id, format!("PANIC rendering documented option `{what}` panics: {msg}"))
        }
    }
}
"##;


/// C18, build WITHOUT icu_compiled_data: the formatters come from a derived IcuDataProvider
const C18_PROVIDER_ITEMS: &str = r##"
use icu_decimal::{options::{FixedDecimalFormatterOptions, GroupingStrategy}, FixedDecimalFormatter};
use icu_list::{ListFormatter, ListLength};
use icu_experimental::dimension::currency::{formatter::{CurrencyCode, CurrencyFormatter}, options::{CurrencyFormatterOptions, Width as CurrencyWidth}};
use icu_provider::{DataError, DataProvider, DataRequest, DataResponse};
use leptos_i18n::formatting::*;

#[derive(leptos_i18n::custom_provider::IcuDataProvider)]
pub struct HarnessProvider;
macro_rules! delegate {
    ($marker:path, $baked:path) => {
        impl DataProvider<$marker> for HarnessProvider {
            fn load(&self, req: DataRequest) -> Result<DataResponse<$marker>, DataError> { DataProvider::<$marker>::load(&$baked, req) }
        }
    };
}
delegate!(icu_plurals::provider::CardinalV1Marker, icu_plurals::provider::Baked);
delegate!(icu_plurals::provider::OrdinalV1Marker, icu_plurals::provider::Baked);
delegate!(icu_decimal::provider::DecimalSymbolsV1Marker, icu_decimal::provider::Baked);
delegate!(icu_list::provider::AndListV1Marker, icu_list::provider::Baked);
delegate!(icu_list::provider::OrListV1Marker, icu_list::provider::Baked);
delegate!(icu_list::provider::UnitListV1Marker, icu_list::provider::Baked);
delegate!(icu_experimental::dimension::provider::currency::CurrencyEssentialsV1Marker, icu_experimental::provider::Baked);

fn dl(l: &str) -> icu_provider::DataLocale { (&l.parse::<icu_locid::Locale>().unwrap()).into() }
fn fd(v: f64) -> fixed_decimal::FixedDecimal { fixed_decimal::FixedDecimal::try_from_f64(v, fixed_decimal::FloatPrecision::Floating).unwrap() }
type D = Result<String, String>;
fn es<E: std::fmt::Debug>(e: E) -> String { format!("{e:?}") }
fn d_num(l: &str, gs: GroupingStrategy, v: f64) -> D {
    Ok(FixedDecimalFormatter::try_new(&dl(l), FixedDecimalFormatterOptions::from(gs)).map_err(es)?.format_to_string(&fd(v)))
}
fn d_cur(l: &str, w: CurrencyWidth, code: &str, v: f64) -> D {
    let f = CurrencyFormatter::try_new(&dl(l), CurrencyFormatterOptions::from(w)).map_err(es)?;
    let mut s = String::new();
    writeable::Writeable::write_to(&f.format_fixed_decimal(&fd(v), CurrencyCode(code.parse().unwrap())), &mut s).unwrap();
    Ok(s)
}
fn d_list(l: &str, ty: &str, len: ListLength, v: &[&'static str]) -> D {
    let f = match ty {
        "And" => ListFormatter::try_new_and_with_length(&dl(l), len),
        "Or" => ListFormatter::try_new_or_with_length(&dl(l), len),
        _ => ListFormatter::try_new_unit_with_length(&dl(l), len),
    }
    .map_err(es)?;
    Ok(f.format_to_string(v.iter()))
}
fn cmp(id: usize, observed: impl FnOnce() -> String, prefix: &str, expected: D) {
    match expected {
        Err(e) => p(id, format!("SKIP-ICU-UNSUPPORTED {e}")),
        Ok(expected) => {
            let expected = format!("{prefix}{expected}");
            let observed = observed();
            if observed == expected { p(id, format!("OK {expected}")) } else { p(id, format!("MISMATCH observed {observed:?} direct-ICU {expected:?}")) }
        }
    }
}
/// the same comparison with the library call made on a thread of its own (the provider was registered on the main one)
fn cmp_thread(id: usize, observed: impl FnOnce() -> String + Send + 'static, prefix: &str, expected: D) {
    let r = std::thread::spawn(move || std::panic::catch_unwind(std::panic::AssertUnwindSafe(observed))).join();
    let msg = |e: Box<dyn std::any::Any + Send>| e.downcast_ref::<String>().cloned().or_else(|| e.downcast_ref::<&str>().map(|s| s.to_string())).unwrap_or_default();
    match r {
        Ok(Ok(s)) => cmp(id, move || s, prefix, expected),
        Ok(Err(e)) | Err(e) => p(id, format!("PANIC on a thread other than the one that registered the provider: {}", msg(e))),
    }
}
"##;

fn c18(tier: Tier) -> i32 {
    use vmodel::fmtspec::*;
    let rep = Reporter::new("C18", "L3", tier);
    let cases = all_cases();
    // locales: fr-CA holds explicit nulls: it renders fr's declarations with fr-CA's formatting
    // (bn: a locale whose default digits are not the Latin ones - no number, however small, is locale independent)
    // (en-GB next to en: one language, other list patterns and date orders - formatters are per locale, not per language)
    let locales = ["en", "fr", "de", "ja", "ar", "bn", "fr-CA", "en-GB"];
    let mut cfg = Config::simple("en", &locales);
    cfg.inherits = vec![("fr-CA".into(), "fr".into())];
    let mut p = Project::new(cfg);
    for l in locales {
        let mut e = vec![];
        for (i, c) in cases.iter().enumerate() {
            if l == "fr-CA" {
                e.push((format!("f{i}"), Val::Null));
            } else {
                e.push((format!("f{i}"), s(vec![text(&format!("[{l}]")), var_fmt("v", &format!(" {}", c.text))])));
            }
            // a key that takes the formatted key in through a reference (with and without an unrelated argument): the
            // placeholder keeps its formatter on the way
            if i % 7 == 0 && l != "fr-CA" {
                e.push((format!("g{i}"), s(vec![text("<"), fk(&format!("f{i}")), text(">")])));
                e.push((format!("h{i}"), s(vec![text("<"), fk_args(&format!("f{i}"), vec![("unrelated", FkArg::Str(vec![text("x")]))]), text(">")])));
            } else if i % 7 == 0 {
                e.push((format!("g{i}"), Val::Null));
                e.push((format!("h{i}"), Val::Null));
            }
        }
        p.set_file(None, l, e);
    }
    // split over several probe crates to keep compile units moderate
    let per = tier.pick(40, 30);
    let mut built = vec![];
    // (.. whole numbers beyond the 64-bit integers, the negative zero)
    // (.. four integer digits: where `min2` and `auto` part in locales that group from the fourth digit on)
    let num_values: Vec<f64> = vec![1234567.891, 1234.0, 0.0, 42.0, -42.0, -9999.5, 1e19, 6.022e23, -0.0, 9007199254740993.0];
    let lists: Vec<&str> = vec!["[\"A\", \"B\", \"C\"]", "[\"A\"]", "[\"A\", \"B\"]", "[\"\"; 0]", "[\"A\", \"\", \"C\"]"];
    // position of each declaration inside its family: the quick tier runs the view / format-macro flavours on the
    // first two declarations of every family and on every third of the rest
    let mut fam_seen: BTreeMap<&str, usize> = BTreeMap::new();
    let fam_idx: Vec<usize> = cases
        .iter()
        .map(|c| {
            let e = fam_seen.entry(c.family).or_insert(0);
            *e += 1;
            *e - 1
        })
        .collect();
    for (ci, chunk) in cases.chunks(per).enumerate() {
        let mut c = Case::new(&format!("c18_{}_{ci}", tier.name()), p.clone());
        c.probe.items.push_str(C18_ITEMS);
        for (j, fc) in chunk.iter().enumerate() {
            let i = ci * per + j;
            let early = fam_idx[i] < 2;
            // (every other declaration meets the locales in the reverse order: which of two locales of one language
            // builds its formatter first must not matter)
            let order: Vec<&str> = if i % 2 == 1 { locales.iter().rev().copied().collect() } else { locales.to_vec() };
            for l in order {
                let lv = locale_variant(l);
                let src = if l == "fr-CA" { "fr" } else { l };
                let values: Vec<(String, String, String)> = match fc.family {
                    // (value for string flavours, value for the view flavour, V of the direct call)
                    "number" | "currency" => num_values.iter().map(|v| (format!("{v:?}f64"), format!("move || {v:?}f64"), format!("{v:?}"))).collect(),
                    "date" => vec![("the_date()".into(), "move || the_date()".into(), "()".into())],
                    "time" => vec![("the_time()".into(), "move || the_time()".into(), "()".into())],
                    "datetime" => vec![("the_datetime()".into(), "move || the_datetime()".into(), "()".into())],
                    _ => lists.iter().map(|v| (v.to_string(), format!("move || {v}"), format!("&{v}"))).collect(),
                };
                for (vi, (sv, vv, dv)) in values.iter().enumerate() {
                    if tier == Tier::Quick && vi > 0 && !(l == "en" || l == "ar" || l == "bn") {
                        continue;
                    }
                    let direct = fc.direct.replace("$L", &format!("{l:?}")).replace("$V", dv);
                    let prefix = format!("\"[{src}]\"");
                    let id = c.next_id;
                    c.next_id += 1;
                    c.probe.stmts.push(format!("cmp({id}, || td_string!({lv}, f{i}, v = {sv}).to_string(), {prefix}, {direct});"));
                    c.expected.insert(id, Expect { probe: c.probe.name.clone(), what: format!("td_string {} @{l} value {dv}", fc.text), text: "^OK|^SKIP-ICU".into(), suffix: false });
                    if i % 7 == 0 && vi == 0 {
                        for k in ["g", "h"] {
                            let id = c.next_id;
                            c.next_id += 1;
                            c.probe.stmts.push(format!("cmp({id}, || td_string!({lv}, {k}{i}, v = {sv}).to_string().trim_start_matches('<').trim_end_matches('>').to_string(), {prefix}, {direct});"));
                            c.expected.insert(id, Expect { probe: c.probe.name.clone(), what: format!("td_string of a key referencing the key with {} @{l}", fc.text), text: "^OK|^SKIP-ICU".into(), suffix: false });
                        }
                    }
                    if vi == 0 && (tier == Tier::Thorough || i % 3 == 0 || early) {
                        let id = c.next_id;
                        c.next_id += 1;
                        c.probe.stmts.push(format!("cmp({id}, || html(td!({lv}, f{i}, v = {vv})), {prefix}, {direct});"));
                        c.expected.insert(id, Expect { probe: c.probe.name.clone(), what: format!("td {} @{l}", fc.text), text: "^OK|^SKIP-ICU".into(), suffix: false });
                    }
                    if vi == 0 && fc.macro_ok && (tier == Tier::Thorough || i % 2 == 0 || early) && !fc.text.contains("nonsense") {
                        let id = c.next_id;
                        c.next_id += 1;
                        let fsv = if matches!(fc.family, "date" | "time" | "datetime") { format!("&{sv}") } else { sv.clone() };
                        c.probe.stmts.push(format!("cmp({id}, || td_format_string!({lv}, {fsv}, formatter: {}).to_string(), \"\", {direct});", fc.text));
                        c.expected.insert(id, Expect { probe: c.probe.name.clone(), what: format!("td_format_string {} @{l}", fc.text), text: "^OK|^SKIP-ICU".into(), suffix: false });
                        // the two other back-ends of the format macros
                        let id = c.next_id;
                        c.next_id += 1;
                        c.probe.stmts.push(format!("cmp({id}, || td_format_display!({lv}, {fsv}, formatter: {}).to_string(), \"\", {direct});", fc.text));
                        c.expected.insert(id, Expect { probe: c.probe.name.clone(), what: format!("td_format_display {} @{l}", fc.text), text: "^OK|^SKIP-ICU".into(), suffix: false });
                        let id = c.next_id;
                        c.next_id += 1;
                        c.probe.stmts.push(format!("cmp({id}, || html(td_format!({lv}, {vv}, formatter: {})), \"\", {direct});", fc.text));
                        c.expected.insert(id, Expect { probe: c.probe.name.clone(), what: format!("td_format (view) {} @{l}", fc.text), text: "^OK|^SKIP-ICU".into(), suffix: false });
                    }
                }
            }
        }
        built.push(c);
    }
    // cache histories: the same formatter lookups in every order; results must not depend on what ran before
    {
        let mut c = Case::new(&format!("c18_{}_hist", tier.name()), p.clone());
        c.probe.items.push_str(C18_ITEMS);
        // 6 lookups colliding pairwise on locale or on options
        let look = [
            ("en", "Auto"), ("en", "Never"), ("fr", "Auto"), ("fr", "Never"), ("fr-CA", "Auto"), ("ar", "Never"),
        ];
        let key_of = |gs: &str| cases.iter().position(|c| c.family == "number" && c.debug == format!("Number({gs})")).unwrap();
        let depth = tier.pick(4, 5);
        let mut body = String::from("fn hist(seq: &[usize]) -> String { let mut out = vec![]; for s in seq { out.push(match s {\n");
        for (li, (l, gs)) in look.iter().enumerate() {
            body.push_str(&format!("{li} => td_string!({}, f{}, v = 1234567.891f64).to_string(),\n", locale_variant(l), key_of(gs)));
        }
        body.push_str("_ => String::new() }); } out.join(\"|\") }\n");
        c.probe.items.push_str(&body);
        // expected per lookup, independent of position
        let mut exp_fn = String::from("fn hist_expected(seq: &[usize]) -> String { let mut out = vec![]; for s in seq { out.push(match s {\n");
        for (li, (l, gs)) in look.iter().enumerate() {
            let src = if *l == "fr-CA" { "fr" } else { l };
            exp_fn.push_str(&format!("{li} => format!(\"[{src}]{{}}\", d_num({l:?}, GroupingStrategy::{gs}, 1234567.891).unwrap()),\n"));
        }
        exp_fn.push_str("_ => String::new() }); } out.join(\"|\") }\n");
        c.probe.items.push_str(&exp_fn);
        c.probe.items.push_str(&format!(
            "fn all_histories() -> (u64, Vec<String>) {{ let n = {}usize; let depth = {depth}usize; let mut bad = vec![]; let mut count = 0u64; let mut seq = vec![0usize; depth]; loop {{ for len in 1..=depth {{ if seq[len..].iter().all(|x| *x == 0) {{ count += 1; let got = hist(&seq[..len]); let want = hist_expected(&seq[..len]); if got != want {{ bad.push(format!(\"history {{:?}}: {{got}} vs {{want}}\", &seq[..len])); }} }} }} let mut i = depth; loop {{ if i == 0 {{ return (count, bad); }} i -= 1; seq[i] += 1; if seq[i] < n {{ break; }} seq[i] = 0; }} }} }}\n",
            look.len()
        ));
        c.add_summary(
            "{ let (n, bad) = all_histories(); p($ID, format!(\"checked={} problems={}\", n, bad.len())); for (i, b) in bad.iter().take(20).enumerate() { p(1_000_000 + i, b.clone()); } }".to_string(),
            format!("cache histories of length <= {depth} over 6 colliding lookups"),
            "problems=0",
        );
        built.push(c);
    }
    // on a context: a view created under one locale and rendered after the context moved to another one must
    // format for the locale being rendered (t_format! / tu_format! and t! over formatted keys)
    {
        let mut c = Case::new(&format!("c18_{}_ctx", tier.name()), p.clone());
        c.probe.items.push_str(C18_ITEMS);
        c.probe.items.push_str(CTX_ITEMS);
        let ctx_locales = ["en", "fr", "de", "ar"];
        for (i, fc) in cases.iter().enumerate() {
            if !(fam_idx[i] < 1 && fc.macro_ok && !fc.text.contains("nonsense")) {
                continue;
            }
            let (vv, dv): (String, String) = match fc.family {
                "number" | "currency" => ("move || 1234567.891f64".into(), "1234567.891".into()),
                "date" => ("move || the_date()".into(), "()".into()),
                "time" => ("move || the_time()".into(), "()".into()),
                "datetime" => ("move || the_datetime()".into(), "()".into()),
                _ => ("move || [\"A\", \"B\", \"C\"]".into(), "&[\"A\", \"B\", \"C\"]".into()),
            };
            for a in ctx_locales {
                for b in ctx_locales {
                    if a == b {
                        continue;
                    }
                    let direct = fc.direct.replace("$L", &format!("{b:?}")).replace("$V", &dv);
                    for mac in ["t_format", "tu_format"] {
                        let id = c.next_id;
                        c.next_id += 1;
                        c.probe.stmts.push(format!("cmp({id}, || {{ ctx().set_locale({}); let v = {mac}!(ctx(), {vv}, formatter: {}); ctx().set_locale({}); html(v) }}, \"\", {direct});", locale_variant(a), fc.text, locale_variant(b)));
                        c.expected.insert(id, Expect { probe: c.probe.name.clone(), what: format!("{mac}!({}) created under {a}, rendered under {b}", fc.text), text: "^OK|^SKIP-ICU".into(), suffix: false });
                    }
                    let id = c.next_id;
                    c.next_id += 1;
                    c.probe.stmts.push(format!("cmp({id}, || {{ ctx().set_locale({}); let v = t!(ctx(), f{i}, v = {vv}); ctx().set_locale({}); html(v) }}, \"[{b}]\", {direct});", locale_variant(a), locale_variant(b)));
                    c.expected.insert(id, Expect { probe: c.probe.name.clone(), what: format!("t!(key with {}) created under {a}, rendered under {b}", fc.text), text: "^OK|^SKIP-ICU".into(), suffix: false });
                }
            }
        }
        built.push(c);
    }
    // documented options that ICU4X's formatter refuses: the library must not take the process down
    {
        let mut c = Case::new(&format!("c18_{}_unsupported", tier.name()), p.clone());
        c.probe.items.push_str(C18_ITEMS);
        for (i, fc) in cases.iter().enumerate() {
            if !matches!(fc.family, "time" | "datetime") {
                continue;
            }
            let direct = fc.direct.replace("$L", "\"en\"").replace("$V", "()");
            let sv = if fc.family == "time" { "the_time()" } else { "the_datetime()" };
            let id = c.next_id;
            c.next_id += 1;
            c.probe.stmts.push(format!("probe_unsupported({id}, {:?}, || td_string!(Locale::en, f{i}, v = {sv}).to_string(), {direct});", fc.text));
            c.expected.insert(id, Expect { probe: c.probe.name.clone(), what: format!("documented option `{}` at run time", fc.text), text: "^OK".into(), suffix: false });
        }
        built.push(c);
    }
    let n_cases = cases.len();
    execute(&rep, "C18", built);
    // the same declarations of the number / currency / list families in a build WITHOUT icu_compiled_data:
    // formatters come from a derived IcuDataProvider (second probe workspace)
    {
        let plocales = ["en", "fr", "ar", "bn"];
        let pcases: Vec<&FmtCase> = cases.iter().filter(|c| matches!(c.family, "number" | "currency" | "list")).collect();
        let mut pp = Project::new(Config::simple("en", &plocales));
        for l in plocales {
            let e: Vec<(String, Val)> = pcases.iter().enumerate().map(|(i, c)| (format!("f{i}"), s(vec![text(&format!("[{l}]")), var_fmt("v", &format!(" {}", c.text))]))).collect();
            pp.set_file(None, l, e);
        }
        let mut c = Case::new(&format!("c18_{}_provider", tier.name()), pp);
        c.probe.base_features = Some(vec!["ssr", "interpolate_display", "plurals", "format_nums", "format_list", "format_currency"]);
        c.probe.extra_deps = "icu_plurals = { version = \"1.5\", features = [\"compiled_data\"] }\nicu_decimal = { version = \"1.5\", features = [\"compiled_data\"] }\nicu_list = { version = \"1.5\", features = [\"compiled_data\"] }\nicu_experimental = { version = \"0.1\", features = [\"compiled_data\"] }\nicu_provider = \"1.5\"\nfixed_decimal = { version = \"0.5\", features = [\"ryu\"] }\n".to_string();
        c.probe.items.push_str(C18_PROVIDER_ITEMS);
        c.probe.stmts.push("leptos_i18n::custom_provider::set_icu_data_provider(HarnessProvider);".to_string());
        for (i, fc) in pcases.iter().enumerate() {
            for l in plocales {
                let lv = locale_variant(l);
                let values: Vec<(String, String)> = match fc.family {
                    "number" | "currency" => num_values.iter().map(|v| (format!("{v:?}f64"), format!("{v:?}"))).collect(),
                    _ => lists.iter().map(|v| (v.to_string(), format!("&{v}"))).collect(),
                };
                for (vi, (sv, dv)) in values.iter().enumerate() {
                    if tier == Tier::Quick && vi > 1 {
                        continue;
                    }
                    let direct = fc.direct.replace("$L", &format!("{l:?}")).replace("$V", dv);
                    let id = c.next_id;
                    c.next_id += 1;
                    c.probe.stmts.push(format!("cmp({id}, || td_string!({lv}, f{i}, v = {sv}).to_string(), \"[{l}]\", {direct});"));
                    c.expected.insert(id, Expect { probe: c.probe.name.clone(), what: format!("custom provider: td_string {} @{l} value {dv}", fc.text), text: "^OK|^SKIP-ICU".into(), suffix: false });
                }
            }
        }
        // .. and from other threads: first uses of a formatter there, and formatters the main thread already built
        for (i, fc) in pcases.iter().enumerate() {
            if i % 4 != 0 {
                continue;
            }
            for l in plocales {
                let lv = locale_variant(l);
                let (sv, dv): (String, String) = match fc.family {
                    "number" | "currency" => ("-1234.5f64".into(), "-1234.5".into()),
                    _ => ("[\"X\", \"Y\"]".into(), "&[\"X\", \"Y\"]".into()),
                };
                let direct = fc.direct.replace("$L", &format!("{l:?}")).replace("$V", &dv);
                let id = c.next_id;
                c.next_id += 1;
                c.probe.stmts.push(format!("cmp_thread({id}, || td_string!({lv}, f{i}, v = {sv}).to_string(), \"[{l}]\", {direct});"));
                c.expected.insert(id, Expect { probe: c.probe.name.clone(), what: format!("custom provider, another thread: td_string {} @{l}", fc.text), text: "^OK|^SKIP-ICU".into(), suffix: false });
            }
        }
        select_workspace(true);
        execute(&rep, "C18", vec![c]);
        select_workspace(false);
    }
    rep.nontriv(n_cases as u64 * locales.len() as u64);
    rep.sample(json!({"key": "[fr]{{ v, currency(width: narrow; currency_code: EUR) }}", "probe": "cmp(id, td_string!(Locale::fr_CA, f27, v = 1234567.891f64).to_string(), format!(\"[fr]{}\", d_cur(\"fr-CA\", CurrencyWidth::Narrow, \"EUR\", 1234567.891)))"}));
    let mut cov = serde_json::Map::new();
    cov.insert("rule".into(), json!(format!("{n_cases} formatter declarations (every name x every documented argument value + omitted + invalid, unknown argument, swapped order) as keys of a project with locales en, fr, de, ja, ar, bn (non-Latin default digits) and fr-CA (all keys null, inherits fr: fr's declaration rendered for fr-CA); every seventh declaration also through a key that references the formatted key (`$t(f)`, `$t(f, unrelated argument)`); for each key x locale x values (numbers 1234567.891, 1234, 0, 42, -42, -9999.5, 1e19, 6.022e23, -0.0, 2^53+1; a fixed date, time, datetime; lists of 3, 1, 2, 0 items) td_string! (all), td! -> html and td_format_string! / td_format_display! / td_format! -> html (quick: the first two declarations of every family and every second or third of the rest) are compared inside the probe with a direct ICU4X call for the locale being rendered; on a context: for the first declaration of every family and every ordered pair of 4 locales, a t_format! / tu_format! / t! view created under the first locale and rendered after set_locale to the second must format for the second; cache histories: every sequence of length <= {} over 6 number-formatter lookups that collide pairwise on locale or on options, each element compared with its direct-ICU value whatever ran before; the number / currency / list declarations again in a probe built WITHOUT icu_compiled_data whose formatters come from a derived IcuDataProvider (set_icu_data_provider) - on the registering thread and on threads spawned afterwards", tier.pick(4, 5))));
    cov.insert("exhaustive".into(), json!(tier == Tier::Thorough));
    rep.finish(cov, &["ICU4X formatting with compiled data is the reference (trusted base)", "thread interleavings of the cache are the loom engine's part of this check"])
}

// ---------------------------------------------------------------------------------------------
// L3 halves of C03 .. C08
// ---------------------------------------------------------------------------------------------

fn c03(tier: Tier) -> i32 {
    let rep = Reporter::new("C03", "L3", tier);
    let locales = ["en", "fr", "de"];
    let maps = vmodel::gen::inherits_maps(&locales);
    let mut cases = vec![];
    let mut n_keys = 0u64;
    for (mi, m) in maps.iter().enumerate() {
        // quick: maps with a non-default target or a cycle, every third of the rest
        let interesting = m.iter().any(|(k, v)| v != "en" && k != v) || m.iter().any(|(k, v)| k == v);
        if tier == Tier::Quick && !interesting && mi % 3 != 0 {
            continue;
        }
        let (full, _) = vmodel::gen::build_project(&locales, m);
        // keep the value kinds x presence patterns, a third of the group combinations, the deep group
        let mut p = Project::new(full.cfg.clone());
        for ((ns, loc), entries) in &full.files {
            let kept: Vec<(String, Val)> = entries
                .iter()
                .filter(|(k, _)| !k.starts_with('g') || k[1..].parse::<usize>().map(|i| i % 5 == mi % 5).unwrap_or(true))
                .cloned()
                .collect();
            p.set_file(ns.as_deref(), loc, kept);
        }
        let mut c = Case::new(&format!("c03_{}_m{mi}", tier.name()), p);
        c.add_all_keys(&[Flavour::TdString], &[Num::I(0), Num::I(1), Num::I(5)], 1);
        n_keys += c.expected.len() as u64;
        cases.push(c);
    }
    if tier == Tier::Thorough {
        // one four-locale chain project
        let l4 = ["en", "fr", "de", "it"];
        for m in [vec![("it", "de"), ("de", "fr")], vec![("it", "de"), ("de", "it"), ("fr", "it")], vec![("fr", "fr"), ("de", "fr"), ("it", "en")]] {
            let m: Vec<(String, String)> = m.into_iter().map(|(a, b)| (a.to_string(), b.to_string())).collect();
            let (full, _) = vmodel::gen::build_project(&l4, &m);
            let mut p = Project::new(full.cfg.clone());
            for ((ns, loc), entries) in &full.files {
                let kept: Vec<(String, Val)> = entries.iter().filter(|(k, _)| !k.starts_with('g') || k[1..].parse::<usize>().map(|i| i % 40 == 3).unwrap_or(true)).cloned().collect();
                p.set_file(ns.as_deref(), loc, kept);
            }
            let mut c = Case::new(&format!("c03_thorough_l4_{}", cases.len()), p);
            c.add_all_keys(&[Flavour::TdString, Flavour::Td], &[Num::I(0), Num::I(1)], 7);
            cases.push(c);
        }
    }
    execute(&rep, "C03", cases);
    rep.nontriv(n_keys);
    rep.sample(json!({"inherits": maps[7], "probe_call": "td_string!(Locale::de, str4).to_string()"}));
    let mut cov = serde_json::Map::new();
    cov.insert("rule".into(), json!("locales en*, fr, de: inherits maps (quick: every map with a non-default target, a self-reference or a cycle and a third of the others; thorough: all 16 + three 4-locale chain/cycle maps); per map a probe crate with one key per (value kind x defined/null/absent pattern), a fifth of the group-state combinations and the depth-3 group; every key in every locale through td_string! (counts 0,1,5 for ranges/plurals): the self-identifying text shows which locale's value the generated match arm uses"));
    cov.insert("exhaustive".into(), json!(tier == Tier::Thorough));
    rep.finish(cov, &[])
}

fn c04(tier: Tier) -> i32 {
    let rep = Reporter::new("C04", "L3", tier);
    let mut cases = vec![];
    let mut n_decl = 0u64;
    let mk_branch = |tag: &str, counts: Vec<CountSpec>, map_form: bool| Branch { value: Box::new(s(vec![text(&format!("[{tag}]")), var("count")])), counts, map_form, value_first: false };
    let cs = |t: &str| CountSpec::Str(t.to_string());
    for ty in [NumTy::I8, NumTy::U8, NumTy::I16, NumTy::I32, NumTy::I64, NumTy::U16, NumTy::U32, NumTy::U64, NumTy::F32, NumTy::F64] {
        let (lo, hi) = ty.min_max();
        let mut decls: Vec<RangeDecl> = vec![];
        let tn = Some(ty.name().to_string());
        let t = |i: usize, b: usize| format!("{}.{i}.{b}", ty.name());
        if ty.is_float() {
            let specs: Vec<Vec<CountSpec>> = vec![vec![cs("0")], vec![cs("..0.5")], vec![cs("..=0.5")], vec![cs("0.5..")], vec![cs("-1.5..2.25")], vec![cs("-1.5..=2.25")], vec![cs("0|1|2.25")], vec![CountSpec::Float("0.5".into()), cs("1..=2.25")], vec![CountSpec::UInt(1)]];
            for (i, a) in specs.iter().enumerate() {
                for (j, b) in specs.iter().enumerate() {
                    if tier == Tier::Quick && (i + j) % 3 != 0 {
                        continue;
                    }
                    let k = decls.len();
                    decls.push(RangeDecl { ty: tn.clone(), branches: vec![mk_branch(&t(k, 0), a.clone(), k % 2 == 0), mk_branch(&t(k, 1), b.clone(), false), mk_branch(&t(k, 2), vec![], k % 3 == 0)] });
                }
            }
        } else {
            let b: Vec<i128> = [lo, lo + 1, -1, 0, 1, 2, hi - 1, hi].into_iter().filter(|x| *x >= lo && *x <= hi).collect::<std::collections::BTreeSet<_>>().into_iter().collect();
            let mut specs: Vec<Vec<CountSpec>> = vec![];
            for &x in &b {
                specs.push(vec![if x < 0 { CountSpec::Int(x as i64) } else { CountSpec::UInt(x as u64) }]);
                specs.push(vec![cs(&format!("..{x}"))]);
                specs.push(vec![cs(&format!("..={x}"))]);
                specs.push(vec![cs(&format!("{x}.."))]);
                for &y in &b {
                    if y > x {
                        specs.push(vec![cs(&format!("{x}..{y}"))]);
                        specs.push(vec![cs(&format!("{x}..={y}"))]);
                    }
                }
            }
            specs.push(vec![cs(&format!("{} | {}..={}", b[0], b[1], b[b.len() - 1]))]);
            specs.retain(|sp| !matches!(parse_count_spec(ty, &sp[0]), Err(_)));
            // one-branch + fallback for every spec; two-branch pairs thinned
            for a in &specs {
                let k = decls.len();
                decls.push(RangeDecl { ty: tn.clone(), branches: vec![mk_branch(&t(k, 0), a.clone(), k % 2 == 1), mk_branch(&t(k, 1), vec![], false)] });
            }
            let step = tier.pick(17, 5);
            for (i, a) in specs.iter().enumerate() {
                for (j, c) in specs.iter().enumerate() {
                    if (i * 31 + j) % step != 0 {
                        continue;
                    }
                    let k = decls.len();
                    decls.push(RangeDecl { ty: tn.clone(), branches: vec![mk_branch(&t(k, 0), a.clone(), false), mk_branch(&t(k, 1), c.clone(), k % 2 == 0), mk_branch(&t(k, 2), vec![cs("_")], false)] });
                }
            }
            // full cover without fallback
            if ty == NumTy::U8 || ty == NumTy::I8 {
                let k = decls.len();
                decls.push(RangeDecl { ty: tn.clone(), branches: vec![mk_branch(&t(k, 0), vec![cs(&format!("..={}", lo + 1))], false), mk_branch(&t(k, 1), vec![cs(&format!("{}..{}", lo + 2, hi))], false), mk_branch(&t(k, 2), vec![cs(&format!("{hi}"))], false)] });
            }
        }
        decls.retain(|d| range_decl_status(d) == DeclStatus::Accept);
        n_decl += decls.len() as u64;
        // implicit i32 uses the same declarations without the type element
        let mut p = Project::new(Config::simple("en", &["en"]));
        let entries: Vec<(String, Val)> = decls.iter().enumerate().map(|(i, d)| (format!("r{i}"), Val::Range(d.clone()))).collect();
        p.set_file(None, "en", entries);
        let mut c = Case::new(&format!("c04_{}_{}", tier.name(), ty.name()), p.clone());
        // counts: every value for 8-bit types, boundary neighbourhoods otherwise
        let (iter_expr, index_expr, counts): (String, String, Vec<Num>) = if ty == NumTy::I8 {
            ("i8::MIN..=i8::MAX".into(), "(n as i32 + 128)".into(), (lo..=hi).map(Num::I).collect())
        } else if ty == NumTy::U8 {
            ("u8::MIN..=u8::MAX".into(), "n".into(), (lo..=hi).map(Num::I).collect())
        } else if ty.is_float() {
            let base = [-1.5f64, 0.0, 0.5, 1.0, 2.25, 3.0];
            let mut v: Vec<f64> = vec![];
            for x in base {
                if ty == NumTy::F32 {
                    let f = x as f32;
                    v.extend([f.next_down() as f64, f as f64, f.next_up() as f64]);
                } else {
                    v.extend([x.next_down(), x, x.next_up()]);
                }
            }
            // .. and the counts no comparison orders: NaN is in no span (`(a..b).contains(&NAN)` is false), the
            // infinities are beyond every finite bound
            v.extend([f64::NAN, f64::INFINITY, f64::NEG_INFINITY]);
            let tyn = ty.name();
            let lits: Vec<String> = v
                .iter()
                .map(|f| {
                    if f.is_nan() {
                        format!("{tyn}::NAN")
                    } else if *f == f64::INFINITY {
                        format!("{tyn}::INFINITY")
                    } else if *f == f64::NEG_INFINITY {
                        format!("{tyn}::NEG_INFINITY")
                    } else if ty == NumTy::F32 {
                        format!("{:?}f32", *f as f32)
                    } else {
                        format!("{f:?}f64")
                    }
                })
                .collect();
            (format!("[{}].into_iter().enumerate()", lits.join(", ")), "n.0".into(), v.into_iter().map(Num::F).collect())
        } else {
            let b: Vec<i128> = [lo, lo + 1, -1, 0, 1, 2, hi - 1, hi].into_iter().filter(|x| *x >= lo && *x <= hi).collect();
            let mut v: std::collections::BTreeSet<i128> = Default::default();
            for x in b {
                for d in -2..=2 {
                    if x + d >= lo && x + d <= hi {
                        v.insert(x + d);
                    }
                }
            }
            let lits: Vec<String> = v.iter().map(|i| format!("{i}{}", ty.name())).collect();
            (format!("[{}].into_iter().enumerate()", lits.join(", ")), "n.0".into(), v.into_iter().map(Num::I).collect())
        };
        let m = Model::new(&p);
        let enumerated = !(ty == NumTy::I8 || ty == NumTy::U8);
        for (i, _) in decls.iter().enumerate() {
            let path = vec![format!("r{i}")];
            let exp_s: Vec<Option<String>> = counts
                .iter()
                .map(|n| {
                    let mut env = Env { html_tags: true, ..Default::default() };
                    env.counts.insert("count".into(), *n);
                    expected(&m, &None, "en", &path, &env)
                })
                .collect();
            let nexpr = if enumerated { "n.1" } else { "n" };
            c.add_count_loop(&iter_expr, &index_expr, &format!("td_string!(Locale::en, r{i}, count = {nexpr}).to_string()"), &format!("{} r{i} {}", ty.name(), val_json(&Val::Range(decls[i].clone()))), exp_s);
            // the view back-end for a subset
            // (all of the float declarations: their if-chains are generated separately for views and for strings)
            if i % tier.pick(9, 3) == 0 || ty.is_float() {
                let exp_v: Vec<Option<String>> = counts
                    .iter()
                    .map(|n| {
                        let mut env = Env { html_tags: true, empty_child_space: true, ..Default::default() };
                        env.counts.insert("count".into(), *n);
                        expected(&m, &None, "en", &path, &env)
                    })
                    .collect();
                c.add_count_loop(&iter_expr, &index_expr, &format!("{{ let c = {nexpr}; html(td!(Locale::en, r{i}, count = move || c)) }}"), &format!("{} view r{i}", ty.name()), exp_v);
            }
        }
        cases.push(c);
    }
    execute(&rep, "C04", cases);
    rep.nontriv(n_decl);
    rep.sample(json!({"probe_stmt": "for n in i8::MIN..=i8::MAX { p(base + (n as i32 + 128) as usize, td_string!(Locale::en, r17, count = n).to_string()); }"}));
    let mut cov = serde_json::Map::new();
    cov.insert("rule".into(), json!("one probe crate per numeric type (10): every one-branch declaration over the bound alphabet (exact, ..b, ..=b, a.., a..b, a..=b, alternatives) with a fallback, a thinned set of two-branch pairs in both syntaxes, a full cover without fallback for i8/u8; the generated match / if-chain is executed for ALL 256 counts (i8, u8) or every value within +-2 of a bound and the extremes (wider ints; next_up/next_down neighbours, NaN and both infinities for floats) through td_string! and, for a subset, td! -> html; expected branch and `{{ count }}` text from the model's own spec parser + Rust comparison semantics"));
    cov.insert("exhaustive".into(), json!(tier == Tier::Thorough));
    rep.finish(cov, &["only declarations rustc can prove exhaustive (fallback or full cover) can be compiled; the rest is decided at L1"])
}

fn c05(tier: Tier) -> i32 {
    let rep = Reporter::new("C05", "L3", tier);
    // variants of one language whose CLDR rules differ (pt: one for 0 and 1; pt-PT: one for 1 only) are rendered
    // in one process, in both orders (second and third probe): what one locale does must not leak into the other
    let main_locales: Vec<&str> = tier.pick(vec!["en", "ru", "ar", "pt", "pt-PT"], vec!["en", "fr", "ru", "ar", "pl", "ja", "cy", "he", "lt", "ga", "pt", "pt-PT", "en-GB", "fr-CA", "es", "es-419"]);
    let five = [Form::Zero, Form::One, Form::Two, Form::Few, Form::Many];
    let all_masks: Vec<u32> = tier.pick(vec![1, 2, 5, 10, 21, 31], (1..32).collect());
    let variants: Vec<(String, Vec<&str>, Vec<u32>)> = vec![
        (format!("c05_{}", tier.name()), main_locales.clone(), all_masks.clone()),
        (format!("c05_{}_ptpt_first", tier.name()), vec!["pt-PT", "pt", "en"], vec![2, 31]),
        (format!("c05_{}_pt_first", tier.name()), vec!["pt", "pt-PT", "en"], vec![2, 31]),
        // leptos_i18n built WITHOUT icu_compiled_data: the rules come from a user data provider
        // (#[derive(IcuDataProvider)] + set_icu_data_provider), cardinal and ordinal
        (format!("c05_{}_provider", tier.name()), vec!["en", "fr", "cy", "ru"], vec![2, 31]),
    ];
    let mut cases = vec![];
    let mut n = 0;
    let mut nontriv = 0;
    for (case_name, locales, masks) in &variants {
    let locales = locales.clone();
    let masks = masks.clone();
    let mut p = Project::new(Config::simple(locales[0], &locales));
    for l in &locales {
        let mut e = vec![];
        for &mask in &masks {
            for ordinal in [false, true] {
                let base = format!("p{mask}{}", if ordinal { "o" } else { "c" });
                for (i, f) in five.iter().enumerate() {
                    if mask >> i & 1 == 1 {
                        e.push((format!("{base}{}_{}", if ordinal { "_ordinal" } else { "" }, f.suffix()), s(vec![text(&format!("[{l}.{base}.{}]", f.suffix())), var("count")])));
                    }
                }
                e.push((format!("{base}{}_other", if ordinal { "_ordinal" } else { "" }), s(vec![text(&format!("[{l}.{base}.other]")), var("count")])));
            }
        }
        p.set_file(None, l, e);
    }
    let m = Model::new(&p);
    let mut c = Case::new(case_name, p.clone());
    c.probe.items.push_str(CTX_ITEMS);
    c.probe.items.push_str(LATE_ITEMS);
    if case_name.ends_with("_provider") {
        c.probe.base_features = Some(vec!["ssr", "interpolate_display", "plurals"]);
        c.probe.extra_deps = "icu_plurals = { version = \"1.5\", features = [\"compiled_data\"] }\nicu_provider = \"1.5\"\n".to_string();
        c.probe.items.push_str(
            r##"
use icu_plurals::provider::{CardinalV1Marker, OrdinalV1Marker};
use icu_provider::{DataError, DataProvider, DataRequest, DataResponse};
#[derive(leptos_i18n::custom_provider::IcuDataProvider)]
pub struct HarnessProvider;
impl DataProvider<CardinalV1Marker> for HarnessProvider {
    fn load(&self, req: DataRequest) -> Result<DataResponse<CardinalV1Marker>, DataError> { DataProvider::<CardinalV1Marker>::load(&icu_plurals::provider::Baked, req) }
}
impl DataProvider<OrdinalV1Marker> for HarnessProvider {
    fn load(&self, req: DataRequest) -> Result<DataResponse<OrdinalV1Marker>, DataError> { DataProvider::<OrdinalV1Marker>::load(&icu_plurals::provider::Baked, req) }
}
"##,
        );
        c.probe.stmts.push("leptos_i18n::custom_provider::set_icu_data_provider(HarnessProvider);".to_string());
    }
    let counts: Vec<Num> = (0..=200).map(Num::I).collect();
    for l in &locales {
        for &mask in &masks {
            for ordinal in [false, true] {
                let base = format!("p{mask}{}", if ordinal { "o" } else { "c" });
                let path = vec![base.clone()];
                let exp: Vec<Option<String>> = counts
                    .iter()
                    .map(|n| {
                        let mut env = Env { html_tags: true, ..Default::default() };
                        env.counts.insert("count".into(), *n);
                        expected(&m, &None, l, &path, &env)
                    })
                    .collect();
                c.add_count_loop("0u64..=200", "n", &format!("td_string!({}, {base}, count = n).to_string()", locale_variant(l)), &format!("plural {base} @{l}"), exp);
            }
        }
        // td_plural! / td_plural_ordinal!: the category itself
        for ordinal in [false, true] {
            let mac = if ordinal { "leptos_i18n::td_plural_ordinal" } else { "leptos_i18n::td_plural" };
            let exp: Vec<Option<String>> = (0..=200).map(|n| Some(category_int(l, ordinal, n).suffix().to_string())).collect();
            // the fallback spelled `other`, only some forms given (the rest falls to the fallback), and the
            // context forms t_plural! / t_plural_ordinal! (a closure reading the context's locale)
            c.add_count_loop(
                "0u64..=200",
                "n",
                &format!("{{ let f = {mac}!({}, count = move || n, zero => \"zero\", one => \"one\", two => \"two\", few => \"few\", many => \"many\", other => \"other\", _ => \"never\"); f.to_string() }}", locale_variant(l)),
                &format!("{mac} (other spelled) @{l}"),
                exp.clone(),
            );
            let exp_partial: Vec<Option<String>> = (0..=200)
                .map(|n| {
                    let cat = category_int(l, ordinal, n);
                    Some(if matches!(cat, Form::One | Form::Few) { cat.suffix().to_string() } else { "rest".to_string() })
                })
                .collect();
            c.add_count_loop(
                "0u64..=200",
                "n",
                &format!("{{ let f = {mac}!({}, count = move || n, few => \"few\", one => \"one\", _ => \"rest\"); f.to_string() }}", locale_variant(l)),
                &format!("{mac} (two forms + fallback) @{l}"),
                exp_partial,
            );
            let cmac = if ordinal { "leptos_i18n::t_plural_ordinal" } else { "leptos_i18n::t_plural" };
            c.add_count_loop(
                "0u64..=200",
                "n",
                &format!("{{ ctx().set_locale({}); let f = {cmac}!(ctx(), count = move || n, zero => \"zero\", one => \"one\", two => \"two\", few => \"few\", many => \"many\", _ => \"other\"); f().to_string() }}", locale_variant(l)),
                &format!("{cmac} (context) @{l}"),
                exp.clone(),
            );
            c.add_count_loop(
                "0u64..=200",
                "n",
                &format!("{{ let f = {mac}!({}, count = move || n, zero => \"zero\", one => \"one\", two => \"two\", few => \"few\", many => \"many\", _ => \"other\"); f.to_string() }}", locale_variant(l)),
                &format!("{mac} @{l}"),
                exp,
            );
        }
    }
    // view back-end on the full-form keys
    for l in &locales {
        for base in ["p31c", "p31o"] {
            if !masks.contains(&31) {
                continue;
            }
            let path = vec![base.to_string()];
            let exp: Vec<Option<String>> = (0..=30)
                .map(|n| {
                    let mut env = Env { html_tags: true, empty_child_space: true, ..Default::default() };
                    env.counts.insert("count".into(), Num::I(n));
                    expected(&m, &None, l, &path, &env)
                })
                .collect();
            c.add_count_loop("0u64..=30", "n", &format!("html(td!({}, {base}, count = move || n))", locale_variant(l)), &format!("plural view {base} @{l}"), exp.clone());
            // the view object made while the count closure gave another number (of another category, most of the time):
            // the form is chosen when the view is rendered
            c.add_count_loop(
                "0u64..=30",
                "n",
                &format!("{{ set_late((n as i64 * 7 + 3) % 31); let v = (td!({}, {base}, count = move || late_count() as u64))(); set_late(n as i64); html(v) }}", locale_variant(l)),
                &format!("plural view {base} @{l}, made under another count"),
                exp,
            );
        }
    }
    n += c.expected.len();
    nontriv += masks.len() * 2 * locales.len();
    cases.push(c);
    }
    // the provider probe is built in the workspace whose leptos_i18n has no compiled data
    let (plain, provider): (Vec<Case>, Vec<Case>) = cases.into_iter().partition(|c| !c.probe.name.ends_with("_provider"));
    execute(&rep, "C05", plain);
    select_workspace(true);
    execute(&rep, "C05", provider);
    select_workspace(false);
    rep.nontriv(nontriv as u64);
    let (locales, masks) = (main_locales, all_masks);
    rep.sample(json!({"probe_stmt": "for n in 0u64..=200 { p(base + n as usize, td_string!(Locale::ru, p21c, count = n).to_string()); }", "records": n}));
    let mut cov = serde_json::Map::new();
    cov.insert("rule".into(), json!(format!("locales {locales:?}; plural keys for form subsets {masks:?} (+ other), cardinal and ordinal; the generated `match category_for(count)` is executed for counts 0..=200 through td_string! (all), td! -> html (full-form keys, 0..=30; also with the view object made while the count closure gave another number), and td_plural!/td_plural_ordinal! (the category itself; `_` and `other` fallbacks, all or two forms given) and t_plural!/t_plural_ordinal! on a context and compared with ICU4X category_for called by the harness for the locale being rendered; two further probes render pt and pt-PT (same language, different CLDR rules at 0) in one process in either order; a fourth is built WITHOUT icu_compiled_data and takes the rules from a derived IcuDataProvider installed with set_icu_data_provider")));
    cov.insert("exhaustive".into(), json!(tier == Tier::Thorough));
    rep.finish(cov, &["ICU4X compiled CLDR data is the trusted base"])
}

fn c06(tier: Tier) -> i32 {
    let rep = Reporter::new("C06", "L3", tier);
    use vmodel::gen::*;
    let no_ns = |_: usize| -> Option<&'static str> { None };
    // every depth-1 chain (15 x 7) and a thinned depth-2 set as keys of a few probe crates:
    // key names are prefixed so that many chains share one project
    let mut chains: Vec<(Vec<Refk>, Leaf)> = vec![];
    for r in REFS {
        for l in LEAVES {
            chains.push((vec![r], l));
        }
    }
    let step = tier.pick(11, 3);
    for (i, rt) in tuples(REFS.len(), 2).into_iter().enumerate() {
        for (j, l) in LEAVES.iter().enumerate() {
            if (i * 7 + j) % step == 0 {
                chains.push((vec![REFS[rt[0]], REFS[rt[1]]], *l));
            }
        }
    }
    let mut cases = vec![];
    let per = 40;
    let mut n_chains = 0u64;
    for (ci, chunk) in chains.chunks(per).enumerate() {
        let mut files: BTreeMap<String, Vec<(String, Val)>> = BTreeMap::new();
        for (k, (refs, leaf)) in chunk.iter().enumerate() {
            // skip chains the statement rejects or leaves open, and the recorded fk-inside-component finding;
            // formatted variables need typed values (the C18 probes' business): L1 only
            if refs.contains(&Refk::InComp) || *leaf == Leaf::Formatted {
                continue;
            }
            let perm: Vec<usize> = (0..=refs.len()).collect();
            let mut probe_p = Project::new(Config::simple("en", &["en", "fr"]));
            for loc in ["en", "fr"] {
                let e: Vec<(String, Val)> = chain_entries(refs, *leaf, &perm, loc, &no_ns).into_iter().flat_map(|(_, x)| x).collect();
                probe_p.set_file(None, loc, e);
            }
            let mm = Model::new(&probe_p);
            let ok = mm.namespaces().iter().all(|ns| mm.default_keys(ns).iter().all(|path| mm.locales.iter().all(|l| mm.resolve(ns, l, path).is_ok())));
            // count typing conflicts make the whole project an error: keep such chains out of the shared project
            let mut conflict = false;
            for path in mm.default_keys(&None) {
                let sig = key_sig(&mm, &None, &path);
                if sig.counts.values().any(|k| k.len() > 1) {
                    conflict = true;
                }
            }
            if !ok || conflict {
                continue;
            }
            n_chains += 1;
            // rename a,b,c -> c<k>a ...
            let rename = |name: &str| format!("c{k}{name}");
            for loc in ["en", "fr"] {
                let entries = probe_p.files.get(&(None, loc.to_string())).unwrap();
                let renamed: Vec<(String, Val)> = entries.iter().map(|(n, v)| (rename(n), rename_fk(v, &rename))).collect();
                files.entry(loc.to_string()).or_default().extend(renamed);
            }
        }
        if files.is_empty() {
            // every chain of this chunk is outside the space (rejected, open, or the recorded finding)
            continue;
        }
        let mut p = Project::new(Config::simple("en", &["en", "fr"]));
        for (loc, e) in files {
            p.set_file(None, &loc, e);
        }
        let mut c = Case::new(&format!("c06_{}_{ci}", tier.name()), p);
        c.add_all_keys(&[Flavour::TdString, Flavour::Td], &[Num::I(0), Num::I(1), Num::I(2), Num::I(5)], 5);
        cases.push(c);
    }
    execute(&rep, "C06", cases);
    rep.nontriv(n_chains);
    rep.sample(json!({"chain": "c7a = $t(c7b, {\"count\": \" {{n}} \"}), c7b = plural", "probe_call": "td_string!(Locale::fr, c7a, n = 1i64, x = \"«x»\").to_string()"}));
    let mut cov = serde_json::Map::new();
    cov.insert("rule".into(), json!("every depth-1 reference chain (14 referencing forms x 7 target kinds; the recorded fk-inside-component form is left to L1) and a thinned depth-2 set, each under its own key prefix in shared two-locale probe projects; every key (referencing and referenced) in every locale through td_string! and, for a fifth, td! -> html with counts {0,1,2,5}: the generated code must render what pure substitution gives"));
    cov.insert("exhaustive".into(), json!(false));
    rep.finish(cov, &["chains whose count typing conflicts or that the statement rejects cannot be compiled: decided at L1"])
}

fn rename_fk(v: &Val, rename: &dyn Fn(&str) -> String) -> Val {
    fn segs(sg: &[Seg], rename: &dyn Fn(&str) -> String) -> Vec<Seg> {
        sg.iter()
            .map(|x| match x {
                Seg::Fk { path, args, ws } => Seg::Fk {
                    path: {
                        let mut parts: Vec<String> = path.split('.').map(String::from).collect();
                        parts[0] = rename(&parts[0]);
                        parts.join(".")
                    },
                    ws: *ws,
                    args: args
                        .iter()
                        .map(|(k, a)| (k.clone(), match a {
                            FkArg::Str(s) => FkArg::Str(segs(s, rename)),
                            o => o.clone(),
                        }))
                        .collect(),
                },
                Seg::Comp { name, ws, children } => Seg::Comp { name: name.clone(), ws: *ws, children: segs(children, rename) },
                o => o.clone(),
            })
            .collect()
    }
    match v {
        Val::Str(s) => Val::Str(segs(s, rename)),
        Val::Range(r) => Val::Range(RangeDecl { ty: r.ty.clone(), branches: r.branches.iter().map(|b| Branch { value: Box::new(rename_fk(&b.value, rename)), ..b.clone() }).collect() }),
        o => o.clone(),
    }
}

/// C07 / C08: what compiles and what does not
/// text that looks like a tag but is not one (`<br>`, `<br/>`, `<a href="x">`, `1 < 2`), none / one / two / three of
/// them before, between and after real components, with ASCII and multi-byte text around: the components are found
/// and nothing else of the text is lost
fn tags_case_for(prefix: &str, tier: Tier) -> Case {
    let mut values: Vec<(String, String, String)> = vec![
        ("t0".into(), "1 < 2 et 3 > 2 <b>x</b>".into(), "1 < 2 et 3 > 2 <b>x</b>".into()),
        ("t1".into(), "<br/> then <b>x</b>".into(), "<br/> then <b>x</b>".into()),
        ("t2".into(), "<a href=\\\"x\\\"> then <b>x</b>".into(), "<a href=\"x\"> then <b>x</b>".into()),
        ("t3".into(), "</x> then <b>x</b> end".into(), "</x> then <b>x</b> end".into()),
        ("t4".into(), "a <1> b <b>x</b>".into(), "a <1> b <b>x</b>".into()),
        ("t5".into(), "<b>x</b> then 1 < 2".into(), "<b>x</b> then 1 < 2".into()),
    ];
    let alikes = ["<br>", "<hr/>", "<p>"];
    let texts = ["line", "l\u{e9}g\u{e8}re \u{1f600}"];
    let mut k = 0;
    for n in 0..=3usize {
        for t in texts {
            // n look-alikes before the component, one after it
            let mut v = String::new();
            for i in 0..n {
                v.push_str(&format!("{t} {i}{}", alikes[i % alikes.len()]));
            }
            v.push_str(&format!("{t} last, <b>bold {t}</b> end {t}<br>tail"));
            values.push((format!("u{k}"), v.clone(), v));
            k += 1;
            // .. and between two components
            let mut w = format!("<b>{t}</b>");
            for i in 0..n {
                w.push_str(&format!(" {i}{}", alikes[(i + 1) % alikes.len()]));
            }
            w.push_str(&format!(" {t} <b>second</b>"));
            values.push((format!("u{k}"), w.clone(), w));
            k += 1;
        }
    }
    let mut tp = Project::new(Config::simple("en", &["en", "fr"]));
    for l in ["en", "fr"] {
        tp.set_file(None, l, values.iter().map(|(k, v, _)| (k.to_string(), Val::RawJson(format!("\"{v}\"")))).collect());
    }
    let mut tc = Case::new(&format!("{prefix}_{}_tags", tier.name()), tp);
    for (k, _, want) in &values {
        for l in ["en", "fr"] {
            tc.add(format!("td_string!({}, {k}, <b> = \"b\").to_string()", locale_variant(l)), format!("td_string {k} @{l} (tag look-alikes next to a component)"), want.to_string());
        }
    }
    tc
}

fn c07_c08(tier: Tier, pid: &str) -> i32 {
    let rep = Reporter::new(pid, "L3", tier);
    // project: per-locale kinds differ; surplus and misspelt keys do not exist
    let mut p = Project::new(Config::simple("en", &["en", "fr", "de"]));
    let rb = |v: Val, counts: Vec<CountSpec>| Branch { value: Box::new(v), counts, map_form: false, value_first: false };
    p.set_file(
        None,
        "en",
        vec![
            ("k1".into(), st("[en.k1]")),
            ("k2".into(), s(vec![text("[en.k2]"), var("x")])),
            ("k3".into(), s(vec![comp("b", vec![text("[en.k3]")])])),
            ("k4".into(), Val::Range(RangeDecl { ty: Some("u8".into()), branches: vec![rb(st("[en.k4.0]"), vec![CountSpec::UInt(0)]), rb(s(vec![text("[en.k4.fb]"), var("count")]), vec![])] })),
            ("k5_one".into(), st("[en.k5.one]")),
            ("k5_other".into(), s(vec![text("[en.k5.other]"), var("count")])),
            ("k6".into(), st("[en.k6]")),
            ("g".into(), Val::Sub(vec![("inner".into(), st("[en.g.inner]"))])),
        ],
    );
    p.set_file(
        None,
        "fr",
        vec![
            ("k1".into(), s(vec![text("[fr.k1]"), var("y")])),
            ("k2".into(), st("[fr.k2]")),
            ("k3".into(), s(vec![text("[fr.k3]"), var("z"), comp("i", vec![])])),
            ("k4".into(), s(vec![text("[fr.k4]"), var("w")])),
            ("k5".into(), Val::Null),
            ("k6".into(), s(vec![fk_args("k5", vec![("count", FkArg::Str(vec![var("n")]))])])),
            ("g".into(), Val::Sub(vec![("inner".into(), s(vec![text("[fr.g.inner]"), var("v")]))])),
            ("only_fr".into(), st("[fr.surplus]")),
        ],
    );
    p.set_file(None, "de", vec![("k1".into(), Val::Null), ("k2".into(), s(vec![comp("b", vec![var("x")])])), ("k3".into(), Val::Null), ("k4".into(), Val::Null), ("k6".into(), Val::Null), ("g".into(), Val::Null)]);
    // the same component used several times in one value - side by side, nested in itself, nested in another one and
    // used again later (either order): the builder has ONE field per component, the generated view shares it
    {
        fn names(segs: &[Seg], out: &mut Vec<String>) {
            for sg in segs {
                if let Seg::Comp { name, children, .. } = sg {
                    out.push(name.clone());
                    names(children, out);
                }
            }
        }
        let mut k = 0usize;
        for n in 2..=tier.pick(3, 4) {
            for f in forests(n, &["x"], &["b", "i"]) {
                let mut ns = vec![];
                names(&f, &mut ns);
                let distinct: std::collections::BTreeSet<&String> = ns.iter().collect();
                if ns.len() < 2 || distinct.len() == ns.len() {
                    continue;
                }
                let mut a = f.clone();
                let mut c0 = k;
                label_texts(&mut a, &format!("en.r{k}"), &[""], &mut c0);
                let mut b: Vec<Seg> = f.iter().rev().cloned().collect();
                let mut c1 = k;
                label_texts(&mut b, &format!("fr.r{k}"), &[""], &mut c1);
                p.files.get_mut(&(None, "en".to_string())).unwrap().push((format!("r{k}"), s(a)));
                p.files.get_mut(&(None, "fr".to_string())).unwrap().push((format!("r{k}"), s(b)));
                p.files.get_mut(&(None, "de".to_string())).unwrap().push((format!("r{k}"), Val::Null));
                k += 1;
            }
        }
    }
    let m = Model::new(&p);
    let mut c = Case::new(&format!("{}_{}", pid.to_lowercase(), tier.name()), p.clone());
    // positive: exactly the union compiles and renders in every locale
    c.add_all_keys(&[Flavour::TdString, Flavour::Td], &[Num::I(0), Num::I(3)], 1);
    // negative bins: omit each member in turn / unknown argument / unknown key / surplus key
    let mut negatives: Vec<(String, String, &'static str)> = vec![]; // (bin name, statement, expected reason substring)
    for path in m.default_keys(&None) {
        // (the repeated-component keys are positive probes only: one [[bin]] per omitted argument of each would
        // multiply the compile time for no new shape of argument set)
        if path[0].len() > 1 && path[0].starts_with('r') && path[0][1..].chars().all(|ch| ch.is_ascii_digit()) {
            continue;
        }
        let sig = key_sig(&m, &None, &path);
        let key = key_path_tokens(&None, &path);
        let Some((tail, _)) = args_for(&sig, Flavour::TdString, Num::I(0)) else { continue };
        let args: Vec<&str> = tail.trim_start_matches(", ").split(", ").filter(|a| !a.is_empty()).collect();
        for (i, _) in args.iter().enumerate() {
            let rest: Vec<&str> = args.iter().enumerate().filter(|(j, _)| *j != i).map(|(_, a)| *a).collect();
            let t = if rest.is_empty() { String::new() } else { format!(", {}", rest.join(", ")) };
            negatives.push((format!("neg_{}_{i}", key.replace('.', "_")), format!("let _ = td_string!(Locale::en, {key}{t}).to_string();"), "omitted"));
        }
        negatives.push((format!("neg_{}_extra", key.replace('.', "_")), format!("let _ = td_string!(Locale::en, {key}{tail}, not_an_argument = 1).to_string();"), "unknown-argument"));
    }
    negatives.push(("neg_surplus".into(), "let _ = td_string!(Locale::fr, only_fr).to_string();".into(), "surplus-key"));
    negatives.push(("neg_misspelt".into(), "let _ = td_string!(Locale::en, k11).to_string();".into(), "unknown-key"));
    negatives.push(("neg_group_as_value".into(), "let _ = td_string!(Locale::en, g).to_string();".into(), "group-as-value"));
    negatives.push(("neg_value_as_group".into(), "let _ = td_string!(Locale::en, k1.inner).to_string();".into(), "value-as-group"));
    // a positive control bin: the machinery can tell success from failure
    negatives.push(("pos_control".into(), "let _ = td_string!(Locale::en, k1, y = \"v\").to_string();".into(), "control"));
    for (name, stmt, _) in &negatives {
        c.probe.extra_bins.push((name.clone(), format!("#![allow(warnings)]\nuse leptos::prelude::*;\nleptos_i18n::load_locales!();\nuse i18n::*;\nfn main() {{ {stmt} }}\n")));
    }
    let name = c.probe.name.clone();
    let dir = c.probe.dir();
    // text that looks like a tag but is not one (`<br/>`, `<a href="x">`, `1 < 2`), standing before a real component:
    // the component is still found, the look-alike stays text
    let mut tags_case = None;
    if pid == "C08" {
        tags_case = Some(tags_case_for("c08", tier));
    }
    if let Some(tc) = tags_case {
        let _ = execute_reporting(&rep, pid, vec![tc]);
    }
    // namespaces declared in an order that is not the alphabetical one, each with its own key set and its own
    // argument sets: every key of every namespace renders its own text with exactly its own arguments
    if pid == "C07" {
        let orders: Vec<Vec<&str>> = if tier == Tier::Thorough {
            permutations(3).into_iter().map(|pm| pm.iter().map(|i| ["alpha", "mid", "zeta"][*i]).collect()).collect()
        } else {
            vec![vec!["zeta", "alpha", "mid"]]
        };
        let mut ns_cases = vec![];
        for (oi, order) in orders.iter().enumerate() {
            let mut np = Project::new(Config::simple("en", &["fr", "en"]).with_namespaces(order));
            for l in ["en", "fr"] {
                np.set_file(Some("alpha"), l, vec![("a1".into(), st(&format!("[{l}.alpha.a1]"))), ("shared".into(), s(vec![text(&format!("[{l}.alpha.shared]")), var("x")]))]);
                np.set_file(
                    Some("mid"),
                    l,
                    vec![
                        ("m1".into(), s(vec![text(&format!("[{l}.mid.m1]")), var("y"), comp("b", vec![text("in")])])),
                        ("m2_one".into(), st(&format!("[{l}.mid.m2.one]"))),
                        ("m2_other".into(), s(vec![text(&format!("[{l}.mid.m2.other]")), var("count")])),
                        ("shared".into(), st(&format!("[{l}.mid.shared]"))),
                        ("g".into(), Val::Sub(vec![("inner".into(), st(&format!("[{l}.mid.g.inner]")))])),
                    ],
                );
                np.set_file(Some("zeta"), l, vec![("shared".into(), s(vec![text(&format!("[{l}.zeta.shared]")), var("z"), var("w")])), ("z1".into(), st(&format!("[{l}.zeta.z1]"))), ("z2".into(), st(&format!("[{l}.zeta.z2]"))), ("z3".into(), st(&format!("[{l}.zeta.z3]")))]);
            }
            let mut nc = Case::new(&format!("c07_{}_nsorder{oi}", tier.name()), np);
            nc.add_all_keys(&[Flavour::TdString, Flavour::Td], &[Num::I(1), Num::I(3)], 1);
            ns_cases.push(nc);
        }
        rep.count("namespace_declaration_orders", ns_cases.len() as u64);
        let _ = execute_reporting(&rep, pid, ns_cases);
    }
    if !execute_reporting(&rep, pid, vec![c]).is_empty() {
        // the crate holding load_locales!() does not compile at all (reported above): no bin of it can tell anything
        let mut cov = serde_json::Map::new();
        cov.insert("rule".into(), json!("the probe crate did not compile: negative probes not run"));
        cov.insert("exhaustive".into(), json!(false));
        return rep.finish(cov, &[]);
    }
    let bins: Vec<String> = negatives.iter().map(|n| n.0.clone()).collect();
    let res = check_bins(&name, &bins);
    for (bin, stmt, why) in &negatives {
        rep.eval(1);
        let (ok, msg) = res.get(bin).cloned().unwrap_or((false, "no verdict".into()));
        if *why == "control" {
            if !ok {
                vmodel::report::machinery_fail(&format!("the positive control bin does not compile: {msg}"));
            }
            continue;
        }
        if ok {
            rep.violation(format!("{pid}/L3: `{stmt}` compiles although it must not ({why})"), json!({"probe_dir": dir.display().to_string(), "bin": bin}));
        } else if msg.contains("cargo check failed") {
            vmodel::report::machinery_fail(&format!("cargo check of the negative probes failed: {msg}"));
        }
    }
    rep.nontriv(negatives.len() as u64);
    rep.sample(json!({"must_not_compile": negatives[0].1, "reason": negatives[0].2}));
    rep.sample(json!({"must_not_compile": "let _ = td_string!(Locale::fr, only_fr).to_string();", "reason": "surplus key is unreachable"}));
    let mut cov = serde_json::Map::new();
    cov.insert("rule".into(), json!("three-locale project whose keys mix kinds across locales (string / variables / components / range / plural / renamed-count foreign key / null) plus a surplus key and a group, plus every forest of <= 3 (thorough 4) nodes over {text, x, <b>, <i>} in which a component name occurs more than once (side by side, nested in itself, nested in another and used again later; the other locale holds the mirrored value); C07: three namespaces with different key sets and argument sets declared in a non-alphabetical order (thorough: all 6 orders); positive: every default-locale key with exactly the union of arguments compiles and renders the reference text in every locale (td_string!, td!); negative: one [[bin]] per omitted argument of every key, per unknown argument, and for a surplus key, a misspelt key, a group used as a value and a value used as a group - each checked with `cargo check --message-format=json` and required NOT to compile (a positive control bin must compile)"));
    cov.insert("exhaustive".into(), json!(true));
    rep.finish(cov, &["the compile error of a negative probe is attributed to the probed call: each bin contains nothing else"])
}

// ---------------------------------------------------------------------------------------------
// C15 (L3 half): "otherwise the default" on GENERATED enums whose default is declared first / last / in the middle /
// not at all (the RT engine's own enum is one fixed configuration)
// ---------------------------------------------------------------------------------------------

const C15_ITEMS: &str = r##"
use leptos_i18n::Locale as _;
fn exec() {
    struct Noop;
    impl any_spawner::CustomExecutor for Noop {
        fn spawn(&self, _f: any_spawner::PinnedFuture<()>) {}
        fn spawn_local(&self, _f: any_spawner::PinnedLocalFuture<()>) {}
        fn poll_local(&self) {}
    }
    let _ = any_spawner::Executor::init_custom_executor(Noop);
}
fn header(accept: Option<&'static str>) -> leptos_i18n::context::UseLocalesOptions {
    leptos_i18n::context::UseLocalesOptions::default().ssr_lang_header_getter(move || accept.map(String::from))
}
/// initial locale of a main context for this Accept-Language header (no cookie)
fn resolve_main(accept: Option<&'static str>) -> String {
    exec();
    Owner::new().with(|| {
        let opts = leptos_i18n::context::I18nContextOptions::<Locale>::default().enable_cookie(false).ssr_lang_header_getter(header(accept));
        leptos_i18n::context::init_i18n_context_with_options::<Locale>(opts).get_locale_untracked().as_str().to_string()
    })
}
/// .. of a sub-context without parent, cookie or initial locale
fn resolve_orphan_sub(accept: Option<&'static str>) -> String {
    exec();
    Owner::new().with(|| leptos_i18n::context::init_i18n_subcontext_with_options::<Locale>(None, None, None, Some(header(accept))).get_locale_untracked().as_str().to_string())
}
fn resolve_fn(accept: Option<&'static str>) -> String {
    exec();
    Owner::new().with(|| {
        let opts = leptos_i18n::context::I18nContextOptions::<Locale>::default().enable_cookie(false).ssr_lang_header_getter(header(accept));
        leptos_i18n::locale::resolve_locale_with_options::<Locale>(opts).as_str().to_string()
    })
}
"##;

fn c15(tier: Tier) -> i32 {
    let rep = Reporter::new("C15", "L3", tier);
    // (declared locales, default)
    let configs: Vec<(Vec<&str>, &str)> = vec![(vec!["fr", "de"], "en"), (vec!["fr", "de", "en"], "en"), (vec!["fr", "en", "de"], "en"), (vec!["en", "fr", "de"], "en"), (vec!["de"], "fr"), (vec!["en-GB", "fr-CA"], "pt-BR"), (vec!["en", "zh", "fr", "sr-Latn"], "en"), (vec!["en", "de", "de-1996", "fr"], "en"), (vec!["ca-valencia", "de-CH-1996", "de-CH"], "en")];
    let headers: Vec<Option<&str>> = vec![None, Some(""), Some("it"), Some("xx,yy"), Some("garbage!!"), Some("fr"), Some("de"), Some("en"), Some("it,de"), Some("de,fr"), Some("fr-CA,it"), Some("pt"), Some("en-US,en-GB"), Some("zh-Hant-TW,fr;q=0.8"), Some("zh-Hans"), Some("sr-Cyrl,zh-TW"), Some("sr-Latn-RS,fr"), Some("de-DE"), Some("de-1996"), Some("it,de-CH"), Some("ca"), Some("ca-ES-valencia,de"), Some("de-CH-1996"), Some("xx,yy,it,es,nl,sv,de"), Some("it,es,nl,sv,da,fi,nb,fr"), Some("it,es,nl,sv,da,fi,nb,zh-Hant,sr-Latn")];
    let mut cases = vec![];
    for (ci, (locales, default)) in configs.iter().enumerate() {
        let mut p = Project::new(Config::simple(default, locales));
        let eff = p.cfg.effective_locales();
        for l in &eff {
            p.set_file(None, l, vec![("k".into(), st(&format!("[{l}]")))]);
        }
        let mut c = Case::new(&format!("c15_{}_{ci}", tier.name()), p);
        c.probe.items.push_str(C15_ITEMS);
        for h in &headers {
            // the C12 oracle on the configured names: first entry some locale matches (exactly or as a less specific
            // form); an exact match wins; nothing matchable -> the default
            let want: Vec<String> = {
                let mut out = vec![];
                // (language, script, region, variants); anything else in the tag makes it unusable for this small oracle
                let parse = |t: &str| -> Option<(String, Option<String>, Option<String>, Vec<String>)> {
                    let t = t.split(';').next().unwrap_or("");
                    let mut it = t.split('-').peekable();
                    let lang = it.next()?.to_string();
                    if lang.len() < 2 || lang.len() > 3 || !lang.chars().all(|c| c.is_ascii_alphabetic()) {
                        return None;
                    }
                    let mut script = None;
                    if let Some(p) = it.peek() {
                        if p.len() == 4 && p.chars().all(|c| c.is_ascii_alphabetic()) {
                            script = Some(p.to_lowercase());
                            it.next();
                        }
                    }
                    let mut region = None;
                    if let Some(p) = it.peek() {
                        if p.len() == 2 && p.chars().all(|c| c.is_ascii_alphabetic()) {
                            region = Some(p.to_uppercase());
                            it.next();
                        }
                    }
                    let mut variants = vec![];
                    for v in it {
                        let ok = v.chars().all(|c| c.is_ascii_alphanumeric()) && ((5..=8).contains(&v.len()) || (v.len() == 4 && v.chars().next().is_some_and(|c| c.is_ascii_digit())));
                        if !ok {
                            return None;
                        }
                        variants.push(v.to_lowercase());
                    }
                    variants.sort();
                    Some((lang.to_lowercase(), script, region, variants))
                };
                if let Some(h) = h {
                    for entry in h.split(',') {
                        let Some(r) = parse(entry) else { continue };
                        let sup: Vec<(String, (String, Option<String>, Option<String>, Vec<String>))> = eff.iter().filter_map(|n| parse(n).map(|p| (n.clone(), p))).collect();
                        if let Some((n, _)) = sup.iter().find(|(_, p)| *p == r) {
                            out = vec![n.clone()];
                            break;
                        }
                        let m: Vec<String> = sup.iter().filter(|(_, p)| p.0 == r.0 && (p.1.is_none() || p.1 == r.1) && (p.2.is_none() || p.2 == r.2) && (p.3.is_empty() || p.3 == r.3)).map(|(n, _)| n.clone()).collect();
                        if !m.is_empty() {
                            out = m;
                            break;
                        }
                    }
                }
                if out.is_empty() {
                    out = vec![default.to_string()];
                }
                out
            };
            let hx = match h {
                None => "None".to_string(),
                Some(t) => format!("Some({t:?})"),
            };
            for f in ["resolve_main", "resolve_orphan_sub", "resolve_fn"] {
                let id = c.next_id;
                c.next_id += 1;
                c.probe.stmts.push(format!("p({id}, format!(\"<{{}}>\", {f}({hx})));"));
                let alts: Vec<String> = want.iter().map(|w| format!("^<{w}>")).collect();
                c.expected.insert(id, Expect { probe: c.probe.name.clone(), what: format!("{f} locales {locales:?} default {default} Accept-Language {h:?}"), text: alts.join("|"), suffix: false });
            }
        }
        cases.push(c);
    }
    let n = cases.len() as u64;
    execute(&rep, "C15", cases);
    rep.nontriv(n * headers.len() as u64);
    rep.sample(json!({"locales": ["fr", "de"], "default": "en", "Accept-Language": "it", "expected": "en"}));
    let mut cov = serde_json::Map::new();
    cov.insert("rule".into(), json!(format!("probe crates for configurations {configs:?} (default declared first / in the middle / last / not at all): for Accept-Language in {headers:?} (no cookie) the initial locale of a main context, of a sub-context without parent / cookie / initial locale, and resolve_locale_with_options must be the best match for the header (first matchable entry, exact match preferred) and otherwise the configured default")));
    cov.insert("exhaustive".into(), json!(true));
    rep.finish(cov, &["cookies, parents and explicit initial locales are the RT engine's part of this check"])
}

fn main() {
    let args: Vec<String> = std::env::args().collect();
    let tier = Tier::from_env_or_args(&args);
    let code = match args.get(1).map(|s| s.as_str()).unwrap_or("") {
        "c01" => c01(tier),
        "c02" => c02(tier),
        "c03" => c03(tier),
        "c04" => c04(tier),
        "c05" => c05(tier),
        "c06" => c06(tier),
        "c07" => c07_c08(tier, "C07"),
        "c08" => c07_c08(tier, "C08"),
        "c12" => c12(tier),
        "c13" => c13(tier),
        "c15" => c15(tier),
        "c17" => c17(tier, "C17"),
        // C11: the tables embedded in the page are one of the exports for lazy loading
        "c11" => c17(tier, "C11"),
        "c18" => c18(tier),
        _ => {
            eprintln!("usage: vgen <c01|...> [--tier quick|thorough]");
            2
        }
    };
    std::process::exit(code);
}
