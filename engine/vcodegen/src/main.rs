//! L2 seam: the real code generator (`leptos_i18n_macro::load_locales::load_locales`) run
//! in-process on project directories.
#![allow(warnings)]
extern crate proc_macro;

include!(concat!(env!("OUT_DIR"), "/macro_mods.rs"));

mod driver;

fn main() {
    driver::main();
}
