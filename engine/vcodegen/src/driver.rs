//! Worker: one project directory per stdin line -> the real `load_locales()` under catch_unwind
//! (CARGO_MANIFEST_DIR is process-global, so workers are separate single-threaded processes).
//! Parent: builds project lists for C09 / C10 / C11, feeds a pool of workers, judges the answers.

use serde_json::{json, Value};
use std::collections::{BTreeMap, BTreeSet};
use std::io::{BufRead, BufReader, Write};
use std::path::{Path, PathBuf};
use std::process::{Child, ChildStdin, ChildStdout, Command, Stdio};
use std::sync::Mutex;
use vmodel::ast::*;
use vmodel::{Reporter, Tier};

fn fnv(s: &str) -> u64 {
    let mut h: u64 = 0xcbf29ce484222325;
    for b in s.bytes() {
        h ^= b as u64;
        h = h.wrapping_mul(0x100000001b3);
    }
    h
}

// ---------------------------------------------------------------------------------------------
// Worker
// ---------------------------------------------------------------------------------------------

struct IndexVisitor {
    uses: Vec<(usize, usize)>,
    tables: Vec<(usize, usize)>, // (declared N, elements written)
}

fn lit_usize(e: &syn::Expr) -> Option<usize> {
    match e {
        syn::Expr::Lit(l) => match &l.lit {
            syn::Lit::Int(i) => i.base10_parse().ok(),
            _ => None,
        },
        _ => None,
    }
}

impl<'ast> syn::visit::Visit<'ast> for IndexVisitor {
    fn visit_expr_path(&mut self, p: &'ast syn::ExprPath) {
        if let Some(seg) = p.path.segments.last() {
            if seg.ident == "index_translations" {
                if let syn::PathArguments::AngleBracketed(a) = &seg.arguments {
                    let nums: Vec<usize> = a
                        .args
                        .iter()
                        .filter_map(|g| match g {
                            syn::GenericArgument::Const(e) => lit_usize(e),
                            _ => None,
                        })
                        .collect();
                    if nums.len() == 2 {
                        self.uses.push((nums[0], nums[1]));
                    }
                }
            }
        }
        syn::visit::visit_expr_path(self, p);
    }
    fn visit_impl_item_const(&mut self, c: &'ast syn::ImplItemConst) {
        if c.ident == "STRINGS" {
            // const STRINGS: &[&str; N] = &[ .. ];
            let declared = match &c.ty {
                syn::Type::Reference(r) => match &*r.elem {
                    syn::Type::Array(a) => lit_usize(&a.len),
                    _ => None,
                },
                _ => None,
            };
            let written = match &c.expr {
                syn::Expr::Reference(r) => match &*r.expr {
                    syn::Expr::Array(a) => Some(a.elems.len()),
                    _ => None,
                },
                _ => None,
            };
            if let (Some(d), Some(w)) = (declared, written) {
                self.tables.push((d, w));
            }
        }
        syn::visit::visit_impl_item_const(self, c);
    }
}

fn worker() {
    vmodel::par::quiet_panics();
    let stdin = std::io::stdin();
    let stdout = std::io::stdout();
    for line in stdin.lock().lines() {
        let Ok(dir) = line else { break };
        if dir.is_empty() {
            continue;
        }
        std::env::set_var("CARGO_MANIFEST_DIR", &dir);
        let r = std::panic::catch_unwind(|| crate::load_locales::load_locales().map(|ts| ts).map_err(|e| e.to_string()));
        let v = match r {
            Err(p) => json!({"status": "panic", "msg": vmodel::par::take_panic_message(p)}),
            Ok(Err(e)) => json!({"status": "err", "msg": e}),
            Ok(Ok(ts)) => {
                let text = ts.to_string();
                let mut issues: Vec<String> = vec![];
                let (mut n_uses, mut n_tables) = (0, 0);
                let syn_ok = match syn::parse2::<syn::File>(ts) {
                    Ok(file) => {
                        let mut v = IndexVisitor { uses: vec![], tables: vec![] };
                        syn::visit::Visit::visit_file(&mut v, &file);
                        n_uses = v.uses.len();
                        n_tables = v.tables.len();
                        let sizes: BTreeSet<usize> = v.tables.iter().map(|t| t.0).collect();
                        for (d, w) in &v.tables {
                            if d != w {
                                issues.push(format!("a string table is declared with {d} entries but holds {w}"));
                            }
                        }
                        for (n, i) in &v.uses {
                            if i >= n {
                                issues.push(format!("index_translations::<{n}, {i}>: index out of range"));
                            }
                            if !sizes.contains(n) {
                                issues.push(format!("index_translations::<{n}, {i}> but no string table has {n} entries (tables: {sizes:?})"));
                            }
                        }
                        issues.truncate(5);
                        true
                    }
                    Err(e) => {
                        issues.push(format!("generated tokens are not a Rust file: {e}"));
                        false
                    }
                };
                json!({"status": "ok", "hash": format!("{:016x}", fnv(&text)), "len": text.len(), "syn_ok": syn_ok, "issues": issues, "uses": n_uses, "tables": n_tables})
            }
        };
        let mut o = stdout.lock();
        let _ = writeln!(o, "{}", v);
        let _ = o.flush();
    }
}

// ---------------------------------------------------------------------------------------------
// Pool
// ---------------------------------------------------------------------------------------------

struct W {
    child: Child,
    stdin: ChildStdin,
    stdout: BufReader<ChildStdout>,
}

fn spawn_worker() -> W {
    let exe = std::env::current_exe().expect("exe");
    let mut child = Command::new(exe).arg("worker").stdin(Stdio::piped()).stdout(Stdio::piped()).stderr(Stdio::null()).spawn().expect("spawn worker");
    let stdin = child.stdin.take().unwrap();
    let stdout = BufReader::new(child.stdout.take().unwrap());
    W { child, stdin, stdout }
}

/// run the generator on `dir` in worker `w`; a dead worker (stack overflow / abort) is reported and replaced
fn ask(w: &mut W, dir: &Path) -> Value {
    if writeln!(w.stdin, "{}", dir.display()).and_then(|_| w.stdin.flush()).is_err() {
        *w = spawn_worker();
        return json!({"status": "crash", "msg": "worker died before the request"});
    }
    // watchdog: a generator that does not answer within ASK_LIMIT is killed ("loops forever" is an outcome the
    // statement names; a blocked read would turn it into a hung check instead of a verdict)
    let done = std::sync::Arc::new(std::sync::atomic::AtomicBool::new(false));
    let timed_out = std::sync::Arc::new(std::sync::atomic::AtomicBool::new(false));
    let pid = w.child.id();
    let (d2, t2) = (done.clone(), timed_out.clone());
    let dog = std::thread::spawn(move || {
        let t0 = std::time::Instant::now();
        while !d2.load(std::sync::atomic::Ordering::SeqCst) {
            let left = ASK_LIMIT.saturating_sub(t0.elapsed());
            if left.is_zero() {
                t2.store(true, std::sync::atomic::Ordering::SeqCst);
                let _ = Command::new("kill").arg("-9").arg(pid.to_string()).status();
                return;
            }
            std::thread::park_timeout(left);
        }
    });
    let mut line = String::new();
    let read = w.stdout.read_line(&mut line);
    done.store(true, std::sync::atomic::Ordering::SeqCst);
    dog.thread().unpark();
    let _ = dog.join();
    match read {
        Ok(n) if n > 0 => serde_json::from_str(&line).unwrap_or(json!({"status": "crash", "msg": format!("unparsable answer {line:?}")})),
        _ => {
            let status = w.child.wait().map(|s| s.to_string()).unwrap_or_default();
            *w = spawn_worker();
            if timed_out.load(std::sync::atomic::Ordering::SeqCst) {
                json!({"status": "timeout", "msg": format!("the generator did not answer within {} s and was killed", ASK_LIMIT.as_secs())})
            } else {
                json!({"status": "crash", "msg": format!("generator process died: {status}")})
            }
        }
    }
}

/// (code generation of these projects takes milliseconds)
const ASK_LIMIT: std::time::Duration = std::time::Duration::from_secs(30);

fn scratch(tag: &str) -> PathBuf {
    let base = if Path::new("/dev/shm").is_dir() { PathBuf::from("/dev/shm") } else { vmodel::report::verif_root().join("work/tmp") };
    let root = base.join(format!("verif-vcodegen-{}-{}", tag, std::process::id()));
    let _ = std::fs::remove_dir_all(&root);
    std::fs::create_dir_all(&root).unwrap();
    root
}

const JSON: WriteOpts = WriteOpts { format: Format::Json, ascii_only: false };

/// run `f(worker, index)` over 0..n with one worker process per thread
fn pool_for(n: usize, f: impl Fn(&mut W, usize, &Path) + Sync, root: &Path) {
    let next = std::sync::atomic::AtomicUsize::new(0);
    let threads = vmodel::par::n_threads().min(n.max(1));
    std::thread::scope(|s| {
        for t in 0..threads {
            let next = &next;
            let f = &f;
            let dir = root.join(format!("w{t}"));
            s.spawn(move || {
                let mut w = spawn_worker();
                loop {
                    let i = next.fetch_add(1, std::sync::atomic::Ordering::Relaxed);
                    if i >= n {
                        break;
                    }
                    f(&mut w, i, &dir);
                }
                let _ = w.child.kill();
                let _ = w.child.wait();
            });
        }
    });
}

// ---------------------------------------------------------------------------------------------
// C09: the generator never panics on input the loader accepted
// ---------------------------------------------------------------------------------------------

fn c09(tier: Tier) -> i32 {
    let rep = Reporter::new("C09", "L2", tier);
    let root = scratch("c09");
    let mut inputs = vmodel::adversarial::file_values(tier);
    // non-finite and extreme float bounds / values: the loader accepts some of them
    for ty in ["f32", "f64"] {
        for b in ["NaN", "inf", "-inf", "infinity", "1e39", "3.5e38", "-0.0", "1e-46", "+1.5", "1_0", "0x10"] {
            inputs.push(("float-bound".into(), format!("[\"{ty}\", [\"x\", \"{b}\"], [\"y\"]]")));
            inputs.push(("float-bound".into(), format!("[\"{ty}\", [\"x\", \"0..{b}\"], [\"y\"]]")));
            inputs.push(("float-bound".into(), format!("[\"{ty}\", [\"x\", \"{b}..\"], [\"y\"]]")));
            inputs.push(("float-bound".into(), format!("[\"{ty}\", [\"x\", \"..={b}\"], [\"y\"]]")));
        }
        for n in ["1e39", "1e400", "-1e400", "1e-400", "340282350000000000000000000000000000000", "340282360000000000000000000000000000000"] {
            inputs.push(("float-bound".into(), format!("[\"{ty}\", [\"x\", {n}], [\"y\"]]")));
        }
    }
    for v in ["1e400", "-1e400", "1e-400", "18446744073709551616", "-9223372036854775809", "1.7976931348623157e308", "5e-324"] {
        inputs.push(("literal-number".into(), v.to_string()));
    }
    let classes = Mutex::new(BTreeMap::<String, u64>::new());
    pool_for(
        inputs.len(),
        |w, i, dir| {
            let (part, value) = &inputs[i];
            let mut p = Project::new(Config::simple("en", &["en", "fr"]));
            let mk = |loc: &str| {
                vec![
                    ("k".to_string(), Val::RawJson(value.clone())),
                    ("a".to_string(), st(&format!("[{loc}.a]{{{{x}}}}"))),
                    ("b".to_string(), s(vec![fk("a")])),
                    ("count".to_string(), st("[count]")),
                    ("p_one".to_string(), st("one")),
                    ("p_other".to_string(), s(vec![text("other"), var("count")])),
                    ("r".to_string(), Val::RawJson("[\"i8\", [\"zero\", 0], [\"pos\", \"1..\"]]".into())),
                    // values that reduce to nothing, at every nesting position (range branch, plural form,
                    // component body through an argument)
                    ("e".to_string(), st("")),
                    ("c".to_string(), s(vec![comp("b", vec![var("x")])])),
                    ("cc".to_string(), Val::RawJson("\"$t(c, {\\\"x\\\": \\\"\\\"})\"".into())),
                    ("rr".to_string(), Val::RawJson("[[\"$t(e)\", 0], [\"{{ count }} items\"]]".into())),
                    ("rf".to_string(), Val::RawJson("[[\"x\", 0], [\"$t(e)\"]]".into())),
                    ("q_one".to_string(), s(vec![fk("e")])),
                    ("q_other".to_string(), s(vec![var("count"), text(" q")])),
                ]
            };
            p.set_file(None, "en", mk("en"));
            p.set_file(None, "fr", vec![("k".to_string(), Val::Null), ("a".to_string(), st("[fr.a]"))]);
            p.materialise(dir, JSON).unwrap();
            let v = ask(w, dir);
            rep.eval(1);
            let status = v["status"].as_str().unwrap_or("?").to_string();
            match status.as_str() {
                "ok" => {
                    if v["syn_ok"] != true {
                        rep.violation(format!("C09/L2: generated code is not valid Rust for k = {value}: {}", v["issues"]), json!({"value": value}));
                    }
                }
                "err" => {
                    if v["msg"].as_str().unwrap_or("").trim().is_empty() {
                        rep.violation(format!("C09/L2: error with empty message for k = {value}"), json!({}));
                    }
                }
                _ => {
                    rep.violation(
                        format!("C09/L2: code generation {} on input the loader accepted: {} :: k = {value}", if status == "panic" { "PANICS" } else { "CRASHES" }, vmodel::report::truncate(&v["msg"].as_str().unwrap_or("").replace('\n', " "), 300)),
                        json!({"value": value, "answer": v}),
                    );
                }
            }
            *classes.lock().unwrap().entry(format!("{part}/{status}")).or_insert(0) += 1;
        },
        &root,
    );
    // whole files around plural merging and repeated keys (the default locale's file; the other locale is empty / the same)
    let files = vmodel::adversarial::whole_files();
    pool_for(
        files.len() * 2,
        |w, i, dir| {
            let (name, content) = &files[i / 2];
            let same = i % 2 == 1;
            let mut p = Project::new(Config::simple("en", &["en", "fr"]));
            p.set_file(None, "en", vec![("z".to_string(), st("z"))]);
            p.set_file(None, "fr", vec![]);
            p.materialise(dir, JSON).unwrap();
            std::fs::write(dir.join("locales").join("en.json"), content).unwrap();
            if same {
                std::fs::write(dir.join("locales").join("fr.json"), content).unwrap();
            }
            let v = ask(w, dir);
            rep.eval(1);
            let status = v["status"].as_str().unwrap_or("?").to_string();
            match status.as_str() {
                "ok" => {
                    if v["syn_ok"] != true {
                        rep.violation(format!("C09/L2: generated code is not valid Rust for the file {name}: {}", v["issues"]), json!({"file": content}));
                    }
                }
                "err" => {
                    if v["msg"].as_str().unwrap_or("").trim().is_empty() {
                        rep.violation(format!("C09/L2: error with empty message for the file {name}"), json!({}));
                    }
                }
                _ => {
                    rep.violation(
                        format!("C09/L2: code generation {} on the file {name} ({}): {} :: {content}", if status == "panic" { "PANICS" } else { "CRASHES" }, if same { "both locales" } else { "default locale only" }, vmodel::report::truncate(&v["msg"].as_str().unwrap_or("").replace('\n', " "), 300)),
                        json!({"file": content, "answer": v}),
                    );
                }
            }
            *classes.lock().unwrap().entry(format!("whole-file/{status}")).or_insert(0) += 1;
        },
        &root,
    );
    // ---- every `inherits` map over three non-default locales (each inherits from nobody or from any other locale,
    // the default too: chains, loops, loops entered from outside) x which of them define the second key: the
    // generator answers - a result or an error - within the watchdog
    {
        let others = ["de", "fr", "it"];
        let targets = ["-", "en", "de", "fr", "it"];
        let mut maps: Vec<Vec<(&str, &str)>> = vec![];
        for a in targets {
            for b in targets {
                for c in targets {
                    let m: Vec<(&str, &str)> = [("de", a), ("fr", b), ("it", c)].into_iter().filter(|(l, t)| *t != "-" && l != t).collect();
                    if [("de", a), ("fr", b), ("it", c)].iter().any(|(l, t)| l == t) {
                        continue;
                    }
                    maps.push(m);
                }
            }
        }
        let n_def = 1usize << others.len();
        pool_for(
            maps.len() * n_def,
            |w, i, dir| {
                let m = &maps[i / n_def];
                let defined = i % n_def;
                let mut p = Project::new(Config::simple("en", &["en", "de", "fr", "it"]).with_inherits(m));
                p.set_file(None, "en", vec![("greeting".into(), st("[en.greeting]")), ("only".into(), s(vec![text("[en.only]"), var("x")]))]);
                for (k, l) in others.iter().enumerate() {
                    let mut e = vec![("greeting".to_string(), st(&format!("[{l}.greeting]")))];
                    if defined >> k & 1 == 1 {
                        e.push(("only".to_string(), st(&format!("[{l}.only]"))));
                    }
                    p.set_file(None, l, e);
                }
                p.materialise(dir, JSON).unwrap();
                let v = ask(w, dir);
                rep.eval(1);
                let status = v["status"].as_str().unwrap_or("?").to_string();
                match status.as_str() {
                    "ok" if v["syn_ok"] == true => {}
                    "err" if !v["msg"].as_str().unwrap_or("").trim().is_empty() => {}
                    _ => rep.violation(
                        format!("C09/L2: code generation under inherits {m:?} (second key defined by {:?}): {status}: {}", others.iter().enumerate().filter(|(k, _)| defined >> k & 1 == 1).map(|(_, l)| *l).collect::<Vec<_>>(), vmodel::report::truncate(&v["msg"].as_str().unwrap_or("").replace('\n', " "), 300)),
                        json!({"inherits": format!("{m:?}"), "answer": v}),
                    ),
                }
                *classes.lock().unwrap().entry(format!("inherits/{status}")).or_insert(0) += 1;
            },
            &root,
        );
    }
    rep.nontriv(classes.lock().unwrap().len() as u64 * 10);
    rep.sample(json!({"value_of_k": "[\"f32\", [\"x\", \"NaN\"], [\"y\"]]"}));
    rep.sample(json!({"value_of_k": inputs[inputs.len() / 3].1}));
    let mut cov = serde_json::Map::new();
    cov.insert("rule".into(), json!("every value of the C09 file pipeline (token strings, range specs, values no range branch may hold in every branch position of typed and untyped ranges, JSON number classes, JSON shapes, foreign-key forms) plus non-finite / extreme float bounds and literals, in a two-locale project that also holds values reducing to nothing at every nested position (range branch, plural form, component body), plus 16 whole files around plural merging (empty / non-identifier base keys, null / number / group forms) and repeated keys, plus every `inherits` map over three non-default locales (nobody / any other locale, loops included) x which of them define a key, through the real code generator load_locales() (macro crate sources compiled into this binary) in worker processes; oracle: Ok with tokens that parse as a Rust file (syn), or Err with non-empty message; never a panic, a dead process or a generator still silent after 30 s (watchdog)"));
    cov.insert("exhaustive".into(), json!(true));
    cov.insert("outcome_classes".into(), json!(*classes.lock().unwrap()));
    let _ = std::fs::remove_dir_all(&root);
    rep.finish(cov, &["proc_macro2 runs in its non-compiler fallback mode (spans are call_site)", "feature set of the generator: json_files, interpolate_display, plurals, all formatters, ssr"])
}

// ---------------------------------------------------------------------------------------------
// C10 / C11: generated code is a deterministic function of content; table sizes and indices agree
// ---------------------------------------------------------------------------------------------

fn c10_c11(tier: Tier, pid: &str) -> i32 {
    let rep = Reporter::new(pid, "L2", tier);
    let root = scratch(&pid.to_lowercase());
    let corpus = vmodel::gen::corpus(tier);
    let kmax = tier.pick(4, 5);
    let n_variants = Mutex::new(0u64);
    let distinct = Mutex::new(BTreeSet::<String>::new());
    let uses_total = Mutex::new(0u64);
    pool_for(
        corpus.len(),
        |w, i, dir| {
            let p = &corpus[i];
            p.materialise(dir, JSON).unwrap();
            let base = ask(w, dir);
            rep.eval(1);
            if pid == "C11" {
                if base["status"] == "ok" {
                    *uses_total.lock().unwrap() += base["uses"].as_u64().unwrap_or(0);
                    for issue in base["issues"].as_array().cloned().unwrap_or_default() {
                        rep.violation(format!("C11/L2: {} :: {}", issue.as_str().unwrap_or(""), vmodel::report::truncate(&p.describe(), 400)), json!({"project": p.describe()}));
                    }
                }
                distinct.lock().unwrap().insert(base["hash"].as_str().unwrap_or("").to_string());
                return;
            }
            let key = |v: &Value| format!("{}:{}:{}", v["status"], v["hash"], if v["status"] == "err" { v["msg"].as_str().unwrap_or("").to_string() } else { String::new() });
            let bk = key(&base);
            distinct.lock().unwrap().insert(bk.clone());
            if base["status"] == "panic" || base["status"] == "crash" {
                rep.violation(format!("C10/L2: code generation fails: {} :: {}", base["msg"], vmodel::report::truncate(&p.describe(), 300)), json!({}));
            }
            // every permutation of the keys of small files, reversal / rotation of larger ones
            let sizes: BTreeSet<usize> = p.files.values().map(|f| f.len()).filter(|n| *n <= kmax && *n > 1).collect();
            let mut variants: Vec<Project> = vec![];
            if sizes.is_empty() {
                for big in 1..=2 {
                    variants.push(vmodel::gen::variant(p, &BTreeMap::new(), big, big == 2, big == 1));
                }
            } else {
                let n = *sizes.iter().max().unwrap();
                for (pi, perm) in vmodel::enumerate::permutations(n).into_iter().enumerate() {
                    let mut m = BTreeMap::new();
                    m.insert(n, perm);
                    for s in &sizes {
                        if *s != n {
                            m.insert(*s, (0..*s).rev().collect());
                        }
                    }
                    variants.push(vmodel::gen::variant(p, &m, 1 + pi % 2, pi % 2 == 1, pi % 3 == 1));
                }
            }
            for v in &variants {
                v.materialise(dir, JSON).unwrap();
                let o = ask(w, dir);
                rep.eval(1);
                if key(&o) != bk {
                    rep.violation(
                        format!("C10/L2: generated code changes when keys are reordered ({} vs {}) :: {} vs {}", bk, key(&o), vmodel::report::truncate(&p.describe(), 300), vmodel::report::truncate(&v.describe(), 300)),
                        json!({"base": p.describe(), "variant": v.describe()}),
                    );
                }
            }
            *n_variants.lock().unwrap() += variants.len() as u64;
            // a second, fresh worker process (other hash seeds)
            p.materialise(dir, JSON).unwrap();
            let mut w2 = spawn_worker();
            let again = ask(&mut w2, dir);
            let _ = w2.child.kill();
            let _ = w2.child.wait();
            rep.eval(1);
            if key(&again) != bk {
                rep.violation(format!("C10/L2: a fresh process generates different code ({} vs {}) :: {}", bk, key(&again), vmodel::report::truncate(&p.describe(), 300)), json!({"project": p.describe()}));
            }
        },
        &root,
    );
    rep.nontriv(distinct.lock().unwrap().len() as u64);
    rep.sample(json!({"project": vmodel::report::truncate(&corpus[corpus.len() / 2].describe(), 300)}));
    let mut cov = serde_json::Map::new();
    if pid == "C10" {
        rep.count("order_variants", *n_variants.lock().unwrap());
        cov.insert("rule".into(), json!(format!("the C10 corpus (foreign-key chains, inheritance projects, repeated strings, forests with literals and plurals, diagnostics, error projects) through the real code generator: the token stream (compared by hash of its text) must be byte-identical for every permutation of the keys of files with <= {kmax} keys (reversal / rotation for larger ones), nested groups reversed, range fields flipped, and in a second fresh process; errors must be the same error")));
    } else {
        rep.count("index_uses_checked", *uses_total.lock().unwrap());
        cov.insert("rule".into(), json!("the same corpus through the real code generator: the token stream is parsed with syn; every `const STRINGS: &[&str; N] = &[..]` must hold N elements, every `index_translations::<N, I>` must have I < N and N equal to the size of a generated table"));
    }
    cov.insert("exhaustive".into(), json!(true));
    let _ = std::fs::remove_dir_all(&root);
    rep.finish(cov, &["proc_macro2 fallback mode; feature set json_files + interpolate_display + plurals + formatters + ssr"])
}

pub fn main() {
    let args: Vec<String> = std::env::args().collect();
    let which = args.get(1).map(|s| s.as_str()).unwrap_or("");
    if which == "worker" {
        worker();
        return;
    }
    let tier = Tier::from_env_or_args(&args);
    let code = match which {
        "c09" => c09(tier),
        "c10" => c10_c11(tier, "C10"),
        "c11" => c10_c11(tier, "C11"),
        _ => {
            eprintln!("usage: vcodegen <c09|c10|c11|worker> [--tier quick|thorough]");
            2
        }
    };
    std::process::exit(code);
}
