//! Emits `#[path]` module declarations for every `mod` item of /repo/leptos_i18n_macro/src/lib.rs,
//! so that a module added or renamed there is followed without touching the harness.
use std::io::Write;

fn main() {
    let lib = "/repo/leptos_i18n_macro/src/lib.rs";
    println!("cargo:rerun-if-changed={lib}");
    let src = std::fs::read_to_string(lib).expect("read macro lib.rs");
    let mut out = String::new();
    for line in src.lines() {
        let l = line.trim();
        let l = l.strip_prefix("pub(crate) ").or_else(|| l.strip_prefix("pub ")).unwrap_or(l);
        if let Some(rest) = l.strip_prefix("mod ") {
            if let Some(name) = rest.strip_suffix(';') {
                let name = name.trim();
                let dir = format!("/repo/leptos_i18n_macro/src/{name}/mod.rs");
                let file = format!("/repo/leptos_i18n_macro/src/{name}.rs");
                let path = if std::path::Path::new(&dir).exists() { dir } else { file };
                out.push_str(&format!("#[path = \"{path}\"]\npub(crate) mod {name};\n"));
            }
        }
    }
    let dest = std::path::Path::new(&std::env::var("OUT_DIR").unwrap()).join("macro_mods.rs");
    std::fs::File::create(dest).unwrap().write_all(out.as_bytes()).unwrap();
}
