//! C18 (schedules): the real formatter cache (`StaticLock::with_mut`, `get_*_formatter`,
//! `get_plural_rules`) under loom: every interleaving of concurrent first uses up to a
//! preemption bound. Built from /repo/leptos_i18n/src through a shadow manifest with the
//! `verif_loom` feature (lock and lazy static taken from loom; the cache code itself is unchanged).

use leptos_i18n::formatting::{format_list_to_display, format_number_to_display, ListType};
use leptos_i18n::reexports::icu::decimal::options::GroupingStrategy;
use leptos_i18n::reexports::icu::list::ListLength;
use leptos_i18n::reexports::icu::plurals::{PluralCategory, PluralRuleType};
use serde_json::json;
use std::sync::atomic::{AtomicU64, Ordering};
use std::sync::Arc;
use vmodel::{Reporter, Tier};

leptos_i18n::declare_locales! {
    path: leptos_i18n,
    default: "en",
    locales: ["en", "fr"],
    en: {},
    fr: {},
}
use i18n::Locale;

#[derive(Clone, Copy, Debug)]
enum Look {
    Num(&'static str, u8),
    List(&'static str),
    Plural(&'static str, u64),
}

fn loc(l: &str) -> Locale {
    if l == "en" {
        Locale::en
    } else {
        Locale::fr
    }
}
fn gs(g: u8) -> GroupingStrategy {
    match g {
        0 => GroupingStrategy::Auto,
        1 => GroupingStrategy::Never,
        _ => GroupingStrategy::Always,
    }
}

/// through the library (the cached path)
fn lookup(l: Look) -> String {
    match l {
        Look::Num(lc, g) => format_number_to_display(loc(lc), 1234567.5f64, gs(g)).to_string(),
        Look::List(lc) => format_list_to_display(loc(lc), ["A", "B", "C"], ListType::And, ListLength::Wide).to_string(),
        Look::Plural(lc, n) => {
            let rules = leptos_i18n::__private::get_plural_rules(loc(lc), PluralRuleType::Cardinal);
            format!("{:?}", rules.category_for(n))
        }
    }
}

/// direct ICU4X (no cache)
fn direct(l: Look) -> String {
    use fixed_decimal::{FixedDecimal, FloatPrecision};
    match l {
        Look::Num(lc, g) => {
            let locale: icu_locid::Locale = lc.parse().unwrap();
            let f = icu_decimal::FixedDecimalFormatter::try_new(&(&locale).into(), icu_decimal::options::FixedDecimalFormatterOptions::from(gs(g))).unwrap();
            f.format_to_string(&FixedDecimal::try_from_f64(1234567.5, FloatPrecision::Floating).unwrap())
        }
        Look::List(lc) => {
            let locale: icu_locid::Locale = lc.parse().unwrap();
            icu_list::ListFormatter::try_new_and_with_length(&(&locale).into(), ListLength::Wide).unwrap().format_to_string(["A", "B", "C"].iter())
        }
        Look::Plural(lc, n) => {
            let locale: icu_locid::Locale = lc.parse().unwrap();
            let r = icu_plurals::PluralRules::try_new(&(&locale).into(), icu_plurals::PluralRuleType::Cardinal).unwrap();
            let c: PluralCategory = r.category_for(n);
            format!("{c:?}")
        }
    }
}

fn scenarios() -> Vec<(&'static str, Vec<Vec<Look>>)> {
    vec![
        // 2 threads x 2 lookups colliding on locale and on options
        ("2x2-number", vec![vec![Look::Num("en", 0), Look::Num("fr", 0)], vec![Look::Num("en", 0), Look::Num("en", 1)]]),
        // 3 threads x 1 lookup: same key twice + same locale other family
        ("3x1-same-key", vec![vec![Look::Num("en", 0)], vec![Look::Num("en", 0)], vec![Look::Plural("en", 1)]]),
        // different families sharing the cache lock and the first initialisation
        ("2x2-mixed", vec![vec![Look::List("fr"), Look::Num("fr", 2)], vec![Look::Plural("fr", 0), Look::List("fr")]]),
    ]
}

fn child(name: &str, bound: usize) -> i32 {
    let Some((_, threads)) = scenarios().into_iter().find(|(n, _)| *n == name) else { return 2 };
    let expected: Vec<Vec<String>> = threads.iter().map(|t| t.iter().map(|l| direct(*l)).collect()).collect();
    let executions = Arc::new(AtomicU64::new(0));
    let ex = executions.clone();
    let mut b = loom::model::Builder::new();
    b.preemption_bound = Some(bound);
    b.check(move || {
        ex.fetch_add(1, Ordering::Relaxed);
        let hs: Vec<_> = threads
            .iter()
            .cloned()
            .map(|t| loom::thread::spawn(move || t.iter().map(|l| lookup(*l)).collect::<Vec<String>>()))
            .collect();
        for (i, h) in hs.into_iter().enumerate() {
            let got = h.join().unwrap();
            assert_eq!(got, expected[i], "thread {i} observed another result under this schedule");
        }
    });
    println!("executions={}", executions.load(Ordering::Relaxed));
    0
}

fn main() {
    let args: Vec<String> = std::env::args().collect();
    if args.get(1).map(|s| s.as_str()) == Some("child") {
        std::process::exit(child(&args[2], args[3].parse().unwrap()));
    }
    let tier = Tier::from_env_or_args(&args);
    let rep = Reporter::new("C18", "loom", tier);
    let max_bound = tier.pick(2, 3);
    let exe = std::env::current_exe().unwrap();
    let mut total = 0u64;
    let mut per = serde_json::Map::new();
    for (name, threads) in scenarios() {
        for bound in 0..=max_bound {
            let out = std::process::Command::new(&exe).args(["child", name, &bound.to_string()]).output().expect("spawn");
            let stdout = String::from_utf8_lossy(&out.stdout);
            let n: u64 = stdout.lines().find_map(|l| l.strip_prefix("executions=")).and_then(|n| n.parse().ok()).unwrap_or(0);
            total += n;
            rep.eval(n);
            per.insert(format!("{name}/preemptions<={bound}"), json!(n));
            if !out.status.success() {
                let err = String::from_utf8_lossy(&out.stderr);
                let line = err.lines().find(|l| l.contains("panicked") || l.contains("deadlock") || l.contains("observed")).unwrap_or("").to_string();
                rep.violation(
                    format!("C18/loom: scenario {name} ({threads:?}) with <= {bound} preemptions: {}", vmodel::report::truncate(&format!("{line} {}", err.lines().rev().take(3).collect::<Vec<_>>().join(" | ")), 500)),
                    json!({"stderr_tail": vmodel::report::truncate(&err, 3000)}),
                );
                break;
            }
        }
    }
    rep.trans(total);
    rep.nontriv(scenarios().len() as u64);
    rep.sample(json!({"scenario": "2x2-number", "threads": [["num(en,auto)", "num(fr,auto)"], ["num(en,auto)", "num(en,never)"]]}));
    let mut cov = serde_json::Map::new();
    cov.insert("rule".into(), json!(format!("loom (bounded DPOR) over the real cache code: scenarios 2 threads x 2 lookups colliding on locale and on options, 3 threads x 1 lookup on one key plus a plural-rules lookup, 2 x 2 lookups of different families (list, number, plural rules) sharing the lock and its first initialisation; preemption bound iterated 0..={max_bound}; in every explored execution every thread's outputs must equal the direct ICU4X results, no deadlock, no panic; evaluations = executions explored")));
    cov.insert("exhaustive".into(), json!(true));
    cov.insert("executions_per_scenario_and_bound".into(), serde_json::Value::Object(per));
    std::process::exit(rep.finish(cov, &["loom models the RwLock and the lazy initialisation; the ICU4X constructors and the HashMap run unmodelled between scheduling points"]));
}
