mod c14;
mod hl;
mod routes;
mod rt;

use vmodel::Tier;

fn main() {
    let args: Vec<String> = std::env::args().collect();
    let tier = Tier::from_env_or_args(&args);
    let which = args.get(1).map(|s| s.as_str()).unwrap_or("");
    let code = match which {
        "c14" => c14::run(tier),
        _ => {
            eprintln!("usage: vrouter c14 [--tier quick|thorough]");
            2
        }
    };
    std::process::exit(code);
}
