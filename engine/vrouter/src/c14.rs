//! C14: URL locale prefixes — whole-segment matching and reversible rewriting.
//! Real code: get_locale_from_path, get_new_path (+ localize_path, match_path_segments,
//! construct_path_segments, PathBuilder) through the `verif_hooks` re-exports.
//! The browser glue (effects, navigate, popstate) needs web_sys and is modelled by the driver:
//! "user switches to locale B" = call the real get_new_path with the real previous locale and
//! adopt the URL it returns.

use crate::hl::*;
use crate::rt::with_owner;
use leptos_i18n::Locale;
use leptos_i18n_router::verif;
use leptos_router::PathSegment;
use serde_json::json;
use std::collections::{BTreeSet, HashMap, VecDeque};
use std::sync::Mutex;
use vmodel::par::par_for;
use vmodel::{Reporter, Tier};

const BASES: [&str; 6] = ["/", "/app", "app", "app/", "/app/", "/a/b"];
// (also names in another letter case: a locale name is matched exactly)
const WORDS: [&str; 17] = ["en", "fr", "fr-CA", "english", "french", "e", "eng", "app", "apple", "x", "42", "fr-CAN", "FR", "En", "fr-ca", "FR-CA", "EN"];

fn base_segs(base: &str) -> Vec<&str> {
    base.split('/').filter(|s| !s.is_empty()).collect()
}

/// oracle: locale = first segment after the base iff it equals a locale name exactly
fn oracle_locale_from_path(path: &str, base: &str, locales: &[HL]) -> Option<HL> {
    let segs: Vec<&str> = path.split('/').filter(|s| !s.is_empty()).collect();
    let b = base_segs(base);
    if segs.len() < b.len() || segs[..b.len()] != b[..] {
        return None;
    }
    let first = segs.get(b.len())?;
    locales.iter().copied().find(|l| l.as_str() == *first)
}

// ---------------------------------------------------------------------------------------------
// Route shapes with localized static words
// ---------------------------------------------------------------------------------------------

#[derive(Clone, Debug, PartialEq)]
enum Spec {
    /// localized static word (key into `word`)
    W(&'static str),
    /// same static word in every locale
    Same(&'static str),
    Param,
    Optional(&'static str),
    Splat,
}

pub fn word_s(l: HL, w: &'static str) -> &'static str {
    let i = l.0 as usize;
    match w {
        "about" => ["about", "a-propos", "apropos-ca", "about-e", "about-eng", "ueber", "about-x"][i],
        "users" => ["users", "utilisateurs", "usagers", "users-e", "users-eng", "nutzer", "users-x"][i],
        "files" => ["files", "fichiers", "fichiers-ca", "files-e", "files-eng", "dateien", "files-x"][i],
        // a localized word that equals another locale's name
        "lang" => ["en", "fr", "fr-CA", "e", "eng", "de", "english"][(i + 1) % 7],
        // two different words that coincide in some locales (fr, fr-CA, de) and not in others
        "shop" => ["shop", "boutique", "magasin", "shop-e", "shop-eng", "laden", "shop-x"][i],
        "store" => ["store", "boutique", "magasin", "store-e", "store-eng", "laden", "store-x"][i],
        o => o,
    }
}

fn word(l: HL, w: &'static str) -> String {
    word_s(l, w).to_string()
}

fn shapes() -> Vec<Vec<Spec>> {
    vec![
        vec![Spec::Same("")],
        vec![Spec::Same("x")],
        // the longer route first: `/about` must not be taken for `about/:id` with the parameter missing
        vec![Spec::W("about"), Spec::Param],
        vec![Spec::W("about")],
        vec![Spec::W("users"), Spec::Optional("tab"), Spec::W("about")],
        vec![Spec::W("files"), Spec::Splat],
        vec![Spec::Param, Spec::W("users")],
        vec![Spec::Same("apple"), Spec::W("lang")],
        // two optionals in a row; an optional after a param
        vec![Spec::Same("apple"), Spec::Optional("a"), Spec::Optional("b"), Spec::W("about")],
        vec![Spec::Param, Spec::Optional("tab"), Spec::W("lang")],
        // optionals separated by a static segment: each may be present or absent independently
        vec![Spec::Same("pear"), Spec::Optional("a"), Spec::Same("mid"), Spec::Optional("b"), Spec::W("about")],
        // a parameter in the middle: `/users` alone (a page no route knows) must not be taken for this route
        vec![Spec::W("users"), Spec::Param, Spec::W("about")],
    ]
}

fn route_segments(shape: &[Spec], l: HL) -> Vec<PathSegment> {
    // generated routes start with the empty static segment of the base route
    let mut v = vec![PathSegment::Static("".into())];
    for s in shape {
        v.push(match s {
            Spec::W(w) => PathSegment::Static(word(l, w).into()),
            Spec::Same(w) => PathSegment::Static((*w).into()),
            Spec::Param => PathSegment::Param("id".into()),
            Spec::Optional(n) => PathSegment::OptionalParam((*n).into()),
            Spec::Splat => PathSegment::Splat("rest".into()),
        });
    }
    v
}

fn table(locales: &[HL], with_routes: bool) -> verif::Segments<HL> {
    let mut m = HashMap::new();
    if with_routes {
        for l in locales {
            m.insert(*l, shapes().iter().map(|s| route_segments(s, *l)).collect());
        }
    }
    m
}

/// a page: a route shape with concrete parameter values, or a path no route knows
#[derive(Clone, Debug, PartialEq)]
enum Page {
    /// `opt_mask`: bit i = the i-th optional param of the route carries a value
    Inst { shape: usize, params: Vec<&'static str>, opt_mask: u8 },
    Raw(Vec<&'static str>),
}

fn page_segments(p: &Page, l: HL, localized: bool) -> Vec<String> {
    match p {
        Page::Raw(v) => v.iter().map(|s| s.to_string()).collect(),
        Page::Inst { shape, params, opt_mask } => {
            let mut out = vec![];
            let mut pi = 0;
            let mut opt_seen = 0;
            for s in &shapes()[*shape] {
                match s {
                    Spec::W(w) => out.push(if localized { word(l, w) } else { word(HL::default(), w) }),
                    Spec::Same(w) => {
                        if !w.is_empty() {
                            out.push(w.to_string())
                        }
                    }
                    Spec::Param => {
                        out.push(params[pi % params.len()].to_string());
                        pi += 1;
                    }
                    Spec::Optional(_) => {
                        opt_seen += 1;
                        if (*opt_mask >> (opt_seen - 1)) & 1 == 1 {
                            out.push(params[pi % params.len()].to_string());
                            pi += 1;
                        }
                    }
                    Spec::Splat => {
                        for p in params {
                            out.push(p.to_string());
                        }
                    }
                }
            }
            out
        }
    }
}

fn pages() -> Vec<Page> {
    let mut v = vec![Page::Raw(vec![]), Page::Raw(vec!["nomatch"]), Page::Raw(vec!["english", "course"]), Page::Raw(vec!["french-fries", "42"]), Page::Raw(vec!["eng1", "fr-CAN"]), Page::Raw(vec!["users"]), Page::Raw(vec!["apple"]), Page::Raw(vec!["pear", "mid"])];
    let param_sets: Vec<Vec<&'static str>> = vec![vec!["42"], vec!["fr"], vec!["english", "x"], vec!["en", "fr-CA"]];
    for (si, sh) in shapes().iter().enumerate() {
        let n_optionals = sh.iter().filter(|s| matches!(s, Spec::Optional(_))).count();
        let needs_params = sh.iter().any(|s| matches!(s, Spec::Param | Spec::Optional(_) | Spec::Splat));
        let sets: Vec<Vec<&'static str>> = if needs_params { param_sets.clone() } else { vec![vec!["-"]] };
        for ps in sets {
            // which optionals carry a value: every pattern a URL can express (in a run of consecutive
            // optionals a value always binds the first free one: only prefixes of the run)
            for opt_mask in 0u8..(1 << n_optionals) {
                let mut expressible = true;
                let mut oi = 0;
                let mut prev_optional_absent = false;
                for sp in sh.iter() {
                    if matches!(sp, Spec::Optional(_)) {
                        let present = (opt_mask >> oi) & 1 == 1;
                        if present && prev_optional_absent {
                            expressible = false;
                        }
                        prev_optional_absent = !present;
                        oi += 1;
                    } else {
                        prev_optional_absent = false;
                    }
                }
                if expressible {
                    v.push(Page::Inst { shape: si, params: ps.clone(), opt_mask });
                }
            }
        }
    }
    v
}

fn norm(url: &str) -> String {
    // a trailing slash on the path is not a segment
    let (path, rest) = match url.find(['?', '#']) {
        Some(i) => url.split_at(i),
        None => (url, ""),
    };
    let p = path.trim_end_matches('/');
    format!("{}{}", if p.is_empty() { "/" } else { p }, rest)
}

fn expected_url(base: &str, page: &Page, l: HL, localized_routes: bool, query: &str, hash: &str) -> String {
    let mut segs: Vec<String> = base_segs(base).iter().map(|s| s.to_string()).collect();
    if l != HL::default() {
        segs.push(l.as_str().to_string());
    }
    segs.extend(page_segments(page, l, localized_routes));
    let mut u = format!("/{}", segs.join("/"));
    if !query.is_empty() {
        u.push('?');
        u.push_str(query);
    }
    if !hash.is_empty() {
        u.push('#');
        u.push_str(hash);
    }
    u
}

fn split_url(u: &str) -> (String, String, String) {
    let (rest, hash) = match u.split_once('#') {
        Some((a, b)) => (a, b),
        None => (u, ""),
    };
    let (path, query) = match rest.split_once('?') {
        Some((a, b)) => (a, b),
        None => (rest, ""),
    };
    (path.to_string(), query.to_string(), hash.to_string())
}

/// Serve `url` to a client whose Accept-Language names `resolved`: the redirects the matched view of the real
/// `<I18nRoute>` asks the server integration for (None: leptos_router itself does not route this URL)
fn serve(base: &'static str, url: &str, resolved: HL) -> Option<Vec<String>> {
    use leptos::prelude::*;
    use leptos_router::components::{provide_server_redirect, Router};
    use leptos_router::location::RequestUrl;
    use leptos_router::{ChooseView, MatchInterface, MatchNestedRoutes};
    crate::rt::init_executor();
    let owner = Owner::new_root(Some(std::sync::Arc::new(hydration_context::SsrSharedContext::new())));
    let redirects = std::sync::Arc::new(Mutex::new(Vec::<String>::new()));
    let recorded = redirects.clone();
    let url_s = url.to_string();
    let matched = owner.with(move || {
        provide_context(RequestUrl::new(&url_s));
        provide_server_redirect(move |path| recorded.lock().unwrap().push(path.to_owned()));
        let header = move || Some(resolved.as_str().to_owned());
        let options = leptos_i18n::context::I18nContextOptions::<HL>::default().enable_cookie(false).ssr_lang_header_getter(leptos_i18n::context::UseLocalesOptions::default().ssr_lang_header_getter(header));
        #[allow(deprecated)]
        let i18n = leptos_i18n::context::provide_i18n_context_with_options(options);
        if i18n.get_locale_untracked() != resolved {
            // (a configured name that is not a language tag - `e`, `english` - cannot be asked for in a header)
            return false;
        }
        let _ = view! { <Router>{()}</Router> };
        let (routes, _) = crate::routes::real_routes(base);
        let path = url_s.split('?').next().unwrap_or("").to_string();
        // (as RouteDefs::match_route does: the router strips its base before it asks the routes)
        let b = base.trim_matches('/');
        let path = match path.trim_start_matches('/').strip_prefix(b) {
            Some(rest) if b.is_empty() || rest.is_empty() || rest.starts_with('/') => rest.to_string(),
            _ => return false,
        };
        let (m, _rest) = routes.match_nested(&path);
        let Some((_id, m)) = m else { return false };
        let (view, _child) = m.into_view_and_child();
        let _ = futures::executor::block_on(view.choose());
        true
    });
    // (the effects the view registered are browser glue - web_sys calls -: they are disposed with the owner before the
    // queue is drained, never run)
    owner.cleanup();
    drop(owner);
    crate::rt::poll();
    if !matched {
        return None;
    }
    let r = redirects.lock().unwrap().clone();
    Some(r)
}

pub fn run(tier: Tier) -> i32 {
    let rep = Reporter::new("C14", "RT", tier);
    let sets: Vec<Vec<&str>> = vec![vec!["en", "fr"], vec!["en", "fr", "fr-CA"], vec!["en", "fr-CA", "fr"], vec!["en", "e", "eng"], vec!["eng", "e", "en"], vec!["fr", "en", "english"], vec!["en", "de", "fr", "fr-CA"]];
    let configs: Vec<&'static [HL]> = sets.iter().map(|s| &*Box::leak(s.iter().map(|n| hl(n)).collect::<Vec<_>>().into_boxed_slice())).collect();

    // ---- A: get_locale_from_path, every (set, base, path of <= 3 segments, trailing slash) ------------
    let mut rel_paths: Vec<Vec<&str>> = vec![vec![]];
    for a in WORDS {
        rel_paths.push(vec![a]);
        for b in WORDS {
            rel_paths.push(vec![a, b]);
            if tier == Tier::Thorough {
                for c in ["x", "fr", "en"] {
                    rel_paths.push(vec![a, b, c]);
                }
            }
        }
    }
    let a_classes = Mutex::new(std::collections::BTreeMap::<String, u64>::new());
    // (part A also runs under a three-segment base path; near misses of the base: its segments glued together, one
    // of them extended, the last one missing - none of them is the base)
    let a_bases: Vec<&str> = BASES.iter().copied().chain(["/a/b/c", "my/app/"]).collect();
    par_for(configs.len() * a_bases.len(), |_, i| {
        let cfg = configs[i / a_bases.len()];
        let base = a_bases[i % a_bases.len()];
        CONFIG.set(cfg);
        let mut n = 0;
        let mut local = std::collections::BTreeMap::<String, u64>::new();
        let exact: Vec<String> = base_segs(base).iter().map(|s| s.to_string()).collect();
        let mut heads: Vec<Vec<String>> = vec![exact.clone(), vec!["other".to_string()]];
        if exact.len() >= 2 {
            heads.push(vec![exact.concat()]);
            for k in 0..exact.len() - 1 {
                // two neighbouring segments glued
                let mut v = exact.clone();
                let glued = format!("{}{}", v[k], v[k + 1]);
                v.splice(k..k + 2, [glued]);
                heads.push(v);
            }
            heads.push(exact[..exact.len() - 1].to_vec());
        }
        if !exact.is_empty() {
            for k in 0..exact.len() {
                let mut v = exact.clone();
                v[k].push('x');
                heads.push(v);
            }
        }
        for rel in &rel_paths {
            for head in &heads {
                for trailing in ["", "/"] {
                    let mut segs: Vec<&str> = head.iter().map(|s| s.as_str()).collect();
                    segs.extend(rel.iter());
                    let path = format!("/{}{}", segs.join("/"), if segs.is_empty() { "" } else { trailing });
                    let got = match std::panic::catch_unwind(|| verif::get_locale_from_path::<HL>(&path, base)) {
                        Ok(g) => g,
                        Err(e) => {
                            rep.violation(format!("C14/locale-from-path: PANIC {} :: base {base:?} path {path:?}", vmodel::par::take_panic_message(e)), json!({}));
                            continue;
                        }
                    };
                    let want = oracle_locale_from_path(&path, base, cfg);
                    n += 1;
                    *local.entry(format!("{:?}", want.map(|l| l.as_str()))).or_insert(0) += 1;
                    if got != want {
                        rep.violation(
                            format!("C14/locale-from-path: locales {:?} base {base:?} path {path:?} -> {:?}, expected {:?}", cfg.iter().map(|l| l.as_str()).collect::<Vec<_>>(), got.map(|l| l.as_str()), want.map(|l| l.as_str())),
                            json!({"path": path, "base": base}),
                        );
                    }
                }
            }
        }
        rep.eval(n);
        let mut g = a_classes.lock().unwrap();
        for (k, v) in local {
            *g.entry(k).or_insert(0) += v;
        }
    });

    // ---- B: explicit-state exploration of locale switches ------------------------------------------------
    let depth = tier.pick(3, 4);
    let pages = pages();
    let queries = ["", "a=1&b=fr"];
    let hashes = ["", "fr"];
    let states = Mutex::new(BTreeSet::<(usize, String, u8)>::new());
    let n_trans = Mutex::new(0u64);
    let mut jobs = vec![];
    for ci in 0..configs.len() {
        for bi in 0..BASES.len() {
            for with_routes in [false, true] {
                jobs.push((ci, bi, with_routes));
            }
        }
    }
    par_for(jobs.len(), |_, ji| {
        let (ci, bi, with_routes) = jobs[ji];
        let cfg = configs[ci];
        let base = BASES[bi];
        CONFIG.set(cfg);
        // with a route table: the tables the real <I18nRoute> keeps (read through the stored_segments hook)
        let (real, stored) = crate::routes::real_routes(base);
        let segs = if with_routes {
            let hand = table(cfg, true);
            for l in cfg {
                let key = |v: &Vec<Vec<PathSegment>>| {
                    let mut k: Vec<String> = v.iter().map(|s| format!("{s:?}")).collect();
                    k.sort();
                    k
                };
                if stored.get(l).map(key) != hand.get(l).map(key) {
                    rep.violation(
                        format!("C14/route-table: locales {:?}: segments stored for {} are {:?}, the route table in that locale's words is {:?}", cfg.iter().map(|l| l.as_str()).collect::<Vec<_>>(), l.as_str(), stored.get(l), hand.get(l)),
                        json!({}),
                    );
                }
            }
            stored.clone()
        } else {
            table(cfg, false)
        };
        // the page a URL shows according to the real route objects: (route id, params) after the base path
        let page_of = |url: &str| -> Option<(String, Option<leptos_router::RouteMatchId>, Vec<(String, String)>)> {
            let (p, _, _) = split_url(url);
            let all: Vec<&str> = p.split('/').filter(|s| !s.is_empty()).collect();
            let b = base_segs(base);
            let rel = if all.len() >= b.len() && all[..b.len()] == b[..] { &all[b.len()..] } else { return None };
            let rel_path = if rel.is_empty() { String::new() } else { format!("/{}", rel.join("/")) };
            crate::routes::observe(&real, &rel_path).map(|(o, id)| (o.prefix, id, o.params))
        };
        let mut local_states = BTreeSet::new();
        let mut trans = 0u64;
        with_owner(|| {
            for (pi, page) in pages.iter().enumerate() {
                // pages of the route table only make sense when the table is known
                if !with_routes && matches!(page, Page::Inst { .. }) && pi % 3 != 0 {
                    continue;
                }
                // a page whose own first segment is a locale name makes the URL ambiguous
                // (the statement reads it as a prefix): not part of the space
                let ambiguous = cfg.iter().any(|l| page_segments(page, *l, with_routes).first().map(|s| cfg.iter().any(|k| k.as_str() == s)).unwrap_or(false));
                if ambiguous {
                    continue;
                }
                for q in queries {
                    for h in hashes {
                        for start in cfg.iter().copied() {
                            // BFS over switch sequences from the URL the page has in locale `start`
                            let url0 = expected_url(base, page, start, with_routes, q, h);
                            let mut frontier: VecDeque<(String, HL, usize)> = VecDeque::new();
                            frontier.push_back((url0.clone(), start, 0));
                            if start == HL::default() {
                                // the default locale written as an explicit prefix is a URL of the application too
                                // (the routes accept it): a switch away from it must replace that prefix
                                let mut segs: Vec<String> = base_segs(base).iter().map(|s| s.to_string()).collect();
                                segs.push(start.as_str().to_string());
                                segs.extend(page_segments(page, start, with_routes));
                                let mut u = format!("/{}", segs.join("/"));
                                if !q.is_empty() {
                                    u.push('?');
                                    u.push_str(q);
                                }
                                if !h.is_empty() {
                                    u.push('#');
                                    u.push_str(h);
                                }
                                frontier.push_back((u, start, 0));
                            }
                            let mut seen: BTreeSet<(String, u8)> = BTreeSet::new();
                            while let Some((url, cur, d)) = frontier.pop_front() {
                                if !seen.insert((url.clone(), cur.0)) {
                                    continue;
                                }
                                local_states.insert((ji, url.clone(), cur.0));
                                if d == depth {
                                    continue;
                                }
                                for next in cfg.iter().copied().filter(|l| *l != cur) {
                                    let (p, s, hs) = split_url(&url);
                                    let got = match std::panic::catch_unwind(std::panic::AssertUnwindSafe(|| verif::get_new_path::<HL>(&p, &s, &hs, base, next, Some(cur), segs.clone()))) {
                                        Ok(g) => g,
                                        Err(e) => {
                                            rep.violation(
                                                format!("C14/switch: PANIC {} :: locales {:?} base {base:?} routes={with_routes} url {url:?} switching {} -> {}", vmodel::par::take_panic_message(e), cfg.iter().map(|l| l.as_str()).collect::<Vec<_>>(), cur.as_str(), next.as_str()),
                                                json!({"url": url}),
                                            );
                                            continue;
                                        }
                                    };
                                    trans += 1;
                                    let want = expected_url(base, page, next, with_routes, q, h);
                                    if norm(&got) != norm(&want) {
                                        rep.violation(
                                            format!(
                                                "C14/switch: locales {:?} base {base:?} routes={with_routes} url {url:?} switching {} -> {} gives {got:?}, expected {want:?}",
                                                cfg.iter().map(|l| l.as_str()).collect::<Vec<_>>(),
                                                cur.as_str(),
                                                next.as_str()
                                            ),
                                            json!({"url": url, "from": cur.as_str(), "to": next.as_str(), "got": got, "expected": want, "page": format!("{page:?}")}),
                                        );
                                        // keep exploring from what the statement says the URL should be
                                        frontier.push_back((want, next, d + 1));
                                    } else {
                                        // the locale read back from the new URL is the one switched to
                                        let (np, _, _) = split_url(&got);
                                        let back = verif::get_locale_from_path::<HL>(&np, base);
                                        let want_back = if next == HL::default() { None } else { Some(next) };
                                        let first_rest_is_locale = page_segments(page, next, with_routes).first().map(|s| cfg.iter().any(|l| l.as_str() == s)).unwrap_or(false);
                                        if back != want_back && !(next == HL::default() && first_rest_is_locale) {
                                            rep.violation(
                                                format!("C14/read-back: url {got:?} (base {base:?}, locales {:?}) reads locale {:?} after switching to {}", cfg.iter().map(|l| l.as_str()).collect::<Vec<_>>(), back.map(|l| l.as_str()), next.as_str()),
                                                json!({}),
                                            );
                                        }
                                        // the real route objects show the same page (route, parameters) before and after, under the new prefix
                                        if with_routes && matches!(page, Page::Inst { .. }) {
                                            let before = page_of(&url);
                                            let after = page_of(&got);
                                            let want_prefix = if next == HL::default() { String::new() } else { format!("/{}", next.as_str()) };
                                            let ok = match (&before, &after) {
                                                (Some((_, ib, pb)), Some((pa, ia, pp))) => ib == ia && pb == pp && *pa == want_prefix,
                                                // a URL plain leptos_router itself does not route (some optional-parameter
                                                // patterns) is not a page of the application: nothing to preserve
                                                (None, _) => true,
                                                _ => false,
                                            };
                                            if !ok {
                                                rep.violation(
                                                    format!(
                                                        "C14/page: locales {:?} base {base:?}: {url:?} is matched by the real routes as {before:?}; after switching {} -> {} the URL {got:?} is matched as {after:?} (same route and parameters under prefix {want_prefix:?} expected)",
                                                        cfg.iter().map(|l| l.as_str()).collect::<Vec<_>>(),
                                                        cur.as_str(),
                                                        next.as_str()
                                                    ),
                                                    json!({"url": url, "new_url": got}),
                                                );
                                            }
                                        }
                                        frontier.push_back((got, next, d + 1));
                                    }
                                }
                            }
                        }
                    }
                }
            }
        });
        rep.eval(trans);
        *n_trans.lock().unwrap() += trans;
        states.lock().unwrap().extend(local_states);
    });
    // ---- C: the real route objects: N+1 families, whole-segment prefix matching, stored tables ---------------
    let c_paths = Mutex::new(0u64);
    let c_matched = Mutex::new(0u64);
    let c_outcomes = Mutex::new(BTreeSet::<String>::new());
    par_for(configs.len(), |_, ci| {
        let cfg = configs[ci];
        CONFIG.set(cfg);
        let f = match std::panic::catch_unwind(|| with_owner(|| crate::routes::check_config(cfg, "/", tier == Tier::Thorough))) {
            Ok(f) => f,
            Err(e) => {
                rep.violation(format!("C14/routes: PANIC {} :: locales {:?}", vmodel::par::take_panic_message(e), cfg.iter().map(|l| l.as_str()).collect::<Vec<_>>()), json!({}));
                return;
            }
        };
        for pr in f.problems.iter().take(25) {
            rep.violation(format!("C14/routes: {pr}"), json!({}));
        }
        rep.eval(f.paths);
        *c_paths.lock().unwrap() += f.paths;
        *c_matched.lock().unwrap() += f.matched;
        c_outcomes.lock().unwrap().extend(f.outcomes);
    });
    // ---- D: the server side of a request for an unprefixed URL whose locale (Accept-Language) is not the default:
    // the redirect the real <I18nRoute> view asks for is the switch default -> that locale (prefix + localized segments)
    let d_served = Mutex::new(0u64);
    par_for(configs.len(), |_, ci| {
        let cfg = configs[ci];
        CONFIG.set(cfg);
        let names: Vec<&str> = cfg.iter().map(|l| l.as_str()).collect();
        let mut served = 0u64;
        for base in ["/", "/app"] {
            for page in pages.iter() {
                let Page::Inst { .. } = page else { continue };
                let segs = page_segments(page, HL::default(), true);
                // (a page whose own first segment is a locale name is read as a prefix by the statement)
                if segs.first().is_some_and(|s| names.contains(&s.as_str())) {
                    continue;
                }
                for query in ["", "a=1&b=fr"] {
                    // .. and a URL that names its locale (every configured one, the default too): that locale is applied,
                    // whatever the request resolved to before routing - nothing to redirect
                    for &in_url in cfg.iter() {
                        let mut segs: Vec<String> = base_segs(base).iter().map(|s| s.to_string()).collect();
                        segs.push(in_url.as_str().to_string());
                        segs.extend(page_segments(page, in_url, true));
                        let mut purl = format!("/{}", segs.join("/"));
                        if !query.is_empty() {
                            purl.push('?');
                            purl.push_str(query);
                        }
                        for &resolved in cfg.iter() {
                            let got = match std::panic::catch_unwind(|| serve(base, &purl, resolved)) {
                                Ok(g) => g,
                                Err(e) => {
                                    rep.violation(format!("C14/redirect: PANIC {} :: locales {names:?} base {base:?} url {purl:?} resolved {}", vmodel::par::take_panic_message(e), resolved.as_str()), json!({}));
                                    continue;
                                }
                            };
                            served += 1;
                            let Some(got) = got else { continue };
                            if !got.is_empty() {
                                rep.violation(format!("C14/redirect: locales {names:?} base {base:?}: request for {purl:?} (locale {} in the URL) resolved to {} is redirected to {got:?}, expected no redirect", in_url.as_str(), resolved.as_str()), json!({"url": purl}));
                            }
                        }
                    }
                    let url = expected_url(base, page, HL::default(), true, query, "");
                    for &resolved in cfg.iter() {
                        let want: Vec<String> = if resolved == HL::default() { vec![] } else { vec![expected_url(base, page, resolved, true, query, "")] };
                        let got = match std::panic::catch_unwind(|| serve(base, &url, resolved)) {
                            Ok(g) => g,
                            Err(e) => {
                                rep.violation(format!("C14/redirect: PANIC {} :: locales {names:?} base {base:?} url {url:?} resolved {}", vmodel::par::take_panic_message(e), resolved.as_str()), json!({}));
                                continue;
                            }
                        };
                        served += 1;
                        let Some(got) = got else { continue };
                        let got: Vec<String> = got.iter().map(|u| norm(u)).collect();
                        let want: Vec<String> = want.iter().map(|u| norm(u)).collect();
                        if got != want {
                            rep.violation(format!("C14/redirect: locales {names:?} base {base:?}: request for {url:?} resolved to {} is redirected to {got:?}, expected {want:?}", resolved.as_str()), json!({"url": url}));
                        }
                    }
                }
            }
        }
        rep.eval(served);
        *d_served.lock().unwrap() += served;
    });
    let n_states = states.lock().unwrap().len() as u64;
    rep.nontriv(n_states);
    rep.trans(*n_trans.lock().unwrap());
    rep.sample(json!({"locales": ["en", "fr"], "base": "/", "url": "/english/course", "switch": "en -> fr", "expected": "/fr/english/course"}));
    rep.sample(json!({"locales": ["en", "fr", "fr-CA"], "base": "app", "url": "/app/fr-CA/usagers/42/apropos-ca?a=1&b=fr#fr", "switch": "fr-CA -> fr", "expected": "/app/fr/utilisateurs/42/a-propos?a=1&b=fr#fr"}));
    let mut cov = serde_json::Map::new();
    cov.insert("rule".into(), json!(format!("locale sets {sets:?} (default first; names that are prefixes of each other and of path words) x base paths {BASES:?}; (A) get_locale_from_path on every path of <= 2 (thorough 3) segments over {WORDS:?}, under the base, under near misses of it (segments glued, one segment extended, last segment missing; also for the bases /a/b/c and my/app/) and elsewhere, with and without trailing slash, against a whole-segment oracle; (B) explicit-state exploration: state = (URL, locale); from the URL of every page (12 route shapes with static / param / optional (also two in a row, and after a param) / splat / localized segments and the home route instantiated with 4 parameter sets, optional present or not, plus 8 paths no route knows (some are proper prefixes of routes)) in every locale, with and without query and fragment, with and without a route table, (for the default locale also from the URL that carries it as an explicit prefix) every sequence of <= {depth} locale switches, each step calling the real get_new_path with the real previous locale; invariants per transition: result == base + new prefix (none for the default) + localized segments + untouched other segments, query and fragment (so A->B->A returns the original URL), the locale read back from the new URL is the one switched to, and the real route objects match the URL before and after as the same route with the same parameters under the new prefix; with a route table the segment tables are the ones the real <I18nRoute> stored (hook stored_segments); (C) the real <I18nRoute> built natively with i18n_path! segments (home, static, localized, param, optional, splat): generate_routes() == for every locale the plain leptos_router table in that locale's words under the locale prefix, plus the default's table unprefixed; match_nested() on every path of <= 3 (4 after a locale name) segments over locale names, localized words of every locale, glued forms (locale name + more characters in the same segment), truncated and upper-cased names, with and without trailing slash: the answer must be the plain leptos_router answer for the locale whose name equals the first segment exactly, or the default locale's answer for the whole path, or no match when neither exists; (D) the server side: for every page of the default locale requested without prefix (bases / and /app, with and without query) and every configured locale as the one Accept-Language resolves to, the matched view of the real <I18nRoute> is chosen under a RequestUrl + recording server-redirect: no redirect for the default locale, otherwise exactly one, to base + locale prefix + that locale's spelling of the page + the query; and for the same pages requested WITH a locale prefix (every configured locale, the default too) no redirect whatever the header says")));
    cov.insert("exhaustive".into(), json!(true));
    cov.insert("states".into(), json!(n_states.max(1)));
    cov.insert("depth".into(), json!(depth));
    cov.insert("route_object_paths".into(), json!(*c_paths.lock().unwrap()));
    cov.insert("route_object_paths_matched".into(), json!(*c_matched.lock().unwrap()));
    cov.insert("route_object_distinct_outcomes".into(), json!(c_outcomes.lock().unwrap().len()));
    cov.insert("locale_from_path_answers".into(), json!(*a_classes.lock().unwrap()));
    rep.finish(cov, &["the browser glue (update_path_effect, navigate, popstate) needs web_sys: modelled by the driver (set locale -> real get_new_path with the real previous locale -> adopt the URL)", "a trailing slash on the path is not a segment (normalised away before comparing)"])
}
