//! C14, real route objects: `<I18nRoute>` built natively (its public component function), with
//! children written with `i18n_path!`-style localized segments. Observed: `generate_routes()`,
//! `match_nested()` and - through the `stored_segments` hook - the per-locale segment tables the
//! value keeps for `get_new_path`. The oracle is plain leptos_router (trusted base): for each
//! locale the same route table written with that locale's words as ordinary static segments.

use crate::c14::word_s;
use crate::hl::*;
use leptos::children::ToChildren;
use leptos_i18n::Locale;
use leptos_i18n_router::{verif, I18nRoute};
use leptos_router::components::RouteChildren;
use leptos_router::{MatchInterface, MatchNestedRoutes, MatchParams, NestedRoute, OptionalParamSegment, ParamSegment, PathSegment, RouteMatchId, StaticSegment, WildcardSegment};
use std::any::Any;
use std::collections::{BTreeSet, HashMap};

/// the route table, written once; `$seg` makes the localized segments
macro_rules! route_table {
    ($seg:expr) => {{
        let seg = $seg;
        (
            NestedRoute::new(StaticSegment(""), ()),
            NestedRoute::new(StaticSegment("x"), ()),
            NestedRoute::new((seg("about"), ParamSegment("id")), ()),
            NestedRoute::new(seg("about"), ()),
            NestedRoute::new((seg("users"), OptionalParamSegment("tab"), seg("about")), ()),
            NestedRoute::new((seg("files"), WildcardSegment("rest")), ()),
            NestedRoute::new((ParamSegment("id"), seg("users")), ()),
            NestedRoute::new((StaticSegment("apple"), seg("lang")), ()),
            NestedRoute::new((StaticSegment("apple"), OptionalParamSegment("a"), OptionalParamSegment("b"), seg("about")), ()),
            NestedRoute::new((ParamSegment("id"), OptionalParamSegment("tab"), seg("lang")), ()),
            NestedRoute::new((StaticSegment("pear"), OptionalParamSegment("a"), StaticSegment("mid"), OptionalParamSegment("b"), seg("about")), ()),
            NestedRoute::new((seg("users"), ParamSegment("id"), seg("about")), ()),
        )
    }};
}

/// children with localized segments (what a user writes with `i18n_path!`)
fn real_children() -> impl MatchNestedRoutes + Clone + Send + Sync + 'static {
    route_table!(|w: &'static str| leptos_i18n_router::i18n_path!(HL, move |l: HL| word_s(l, w)))
}

/// the same table for one locale, plain leptos_router
fn plain_base(l: HL) -> impl MatchNestedRoutes + Clone + Send + Sync + 'static {
    NestedRoute::new(StaticSegment(""), ()).child(route_table!(move |w: &'static str| StaticSegment(word_s(l, w))))
}

/// a second table: two consecutive routes whose localized segments are identical in some locales only, then more
/// routes (the per-locale lists must stay aligned by position)
fn dup_children() -> impl MatchNestedRoutes + Clone + Send + Sync + 'static {
    let seg = |w: &'static str| leptos_i18n_router::i18n_path!(HL, move |l: HL| word_s(l, w));
    (
        NestedRoute::new(StaticSegment(""), ()),
        NestedRoute::new(seg("shop"), ()),
        NestedRoute::new(seg("store"), ()),
        NestedRoute::new(seg("about"), ()),
        NestedRoute::new((seg("users"), ParamSegment("id")), ()),
    )
}
fn dup_plain_base(l: HL) -> impl MatchNestedRoutes + Clone + Send + Sync + 'static {
    NestedRoute::new(StaticSegment(""), ()).child((
        NestedRoute::new(StaticSegment(""), ()),
        NestedRoute::new(StaticSegment(word_s(l, "shop")), ()),
        NestedRoute::new(StaticSegment(word_s(l, "store")), ()),
        NestedRoute::new(StaticSegment(word_s(l, "about")), ()),
        NestedRoute::new((StaticSegment(word_s(l, "users")), ParamSegment("id")), ()),
    ))
}

fn build_real<C>(base: &'static str, chil: C) -> (impl MatchNestedRoutes + Clone + 'static, verif::Segments<HL>)
where
    C: MatchNestedRoutes + Clone + Send + Sync + 'static,
{
    let props = leptos::component::component_props_builder(&I18nRoute::<HL, (), C>).base_path(base).view(()).children(RouteChildren::to_children(move || chil)).build();
    let routes = I18nRoute::<HL, (), C>(props);
    let segs = verif::stored_segments::<HL, (), C>(&routes as &dyn Any).expect("the value <I18nRoute> returns holds its segments");
    (routes, segs)
}

/// the real `<I18nRoute>` for the current CONFIG and its stored tables
pub fn real_routes(base: &'static str) -> (impl MatchNestedRoutes + Clone + 'static, verif::Segments<HL>) {
    build_real(base, real_children())
}

#[derive(Clone, Debug, PartialEq, Eq, PartialOrd, Ord)]
pub struct Obs {
    /// what the outermost match consumed (the locale prefix for the real routes)
    pub prefix: String,
    /// what the page route consumed
    pub page: String,
    pub params: Vec<(String, String)>,
    pub remaining: String,
}

pub fn observe<R: MatchNestedRoutes>(r: &R, path: &str) -> Option<(Obs, Option<RouteMatchId>)> {
    let (m, remaining) = r.match_nested(path);
    let (_id, m) = m?;
    let prefix = m.as_matched().to_string();
    let params = m.to_params().into_iter().map(|(k, v)| (k.to_string(), v)).collect();
    let remaining = remaining.to_string();
    let (_view, child) = m.into_view_and_child();
    let (page, id) = match child {
        Some(c) => (c.as_matched().to_string(), Some(c.as_id())),
        None => (String::new(), None),
    };
    Some((Obs { prefix, page, params, remaining }, id))
}

fn segs_key(v: &[PathSegment]) -> String {
    format!("{v:?}")
}

fn sorted(v: Vec<Vec<PathSegment>>) -> Vec<String> {
    let mut v: Vec<String> = v.iter().map(|s| segs_key(s)).collect();
    v.sort();
    v
}

/// tables the statement implies: per locale, the route table in that locale's words
pub fn expected_tables(cfg: &[HL]) -> HashMap<HL, Vec<Vec<PathSegment>>> {
    cfg.iter().map(|l| (*l, plain_base(*l).generate_routes().into_iter().map(|g| g.segments).collect())).collect()
}

pub struct RouteFindings {
    pub problems: Vec<String>,
    pub paths: u64,
    pub matched: u64,
    pub outcomes: BTreeSet<String>,
}

/// (C1) generate_routes, (C2) match_nested on every path of the universe, (C3) stored tables
pub fn check_config(cfg: &'static [HL], base: &'static str, thorough: bool) -> RouteFindings {
    let mut f = RouteFindings { problems: vec![], paths: 0, matched: 0, outcomes: BTreeSet::new() };
    let names: Vec<&str> = cfg.iter().map(|l| l.as_str()).collect();
    let (real, stored) = real_routes(base);
    let default = HL::default();

    // ---- C1: the N+1 families -------------------------------------------------------------------------
    let got: Vec<Vec<PathSegment>> = real.generate_routes().into_iter().map(|g| g.segments).collect();
    let mut want: Vec<Vec<PathSegment>> = vec![];
    for l in cfg {
        for g in plain_base(*l).generate_routes() {
            let mut s = vec![PathSegment::Static(l.as_str().into())];
            s.extend(g.segments.into_iter().skip(1));
            want.push(s);
        }
    }
    for g in plain_base(default).generate_routes() {
        want.push(g.segments.into_iter().skip(1).collect());
    }
    if sorted(got.clone()) != sorted(want.clone()) {
        let g: BTreeSet<String> = sorted(got).into_iter().collect();
        let w: BTreeSet<String> = sorted(want).into_iter().collect();
        f.problems.push(format!("generate_routes: locales {names:?}: only generated {:?}; missing {:?}", g.difference(&w).take(3).collect::<Vec<_>>(), w.difference(&g).take(3).collect::<Vec<_>>()));
    }

    // ---- C3: the stored per-locale tables ---------------------------------------------------------------
    let exp = expected_tables(cfg);
    for l in cfg {
        let s = stored.get(l).cloned().unwrap_or_default();
        if sorted(s.clone()) != sorted(exp[l].clone()) {
            f.problems.push(format!("stored segments of {} (locales {names:?}) are {:?}, expected {:?}", l.as_str(), sorted(s).iter().take(4).collect::<Vec<_>>(), sorted(exp[l].clone()).iter().take(4).collect::<Vec<_>>()));
        }
    }
    if stored.len() != cfg.len() {
        f.problems.push(format!("stored segments hold {} locales, configured {}", stored.len(), cfg.len()));
    }

    // ---- C3b: a table with routes that coincide in some locales: lists stay complete and in route order --------
    {
        let (_real_dup, stored_dup) = build_real(base, dup_children());
        for l in cfg {
            let want: Vec<String> = dup_plain_base(*l).generate_routes().into_iter().map(|g| segs_key(&g.segments)).collect();
            let got: Vec<String> = stored_dup.get(l).cloned().unwrap_or_default().iter().map(|s| segs_key(s)).collect();
            if got != want {
                f.problems.push(format!("stored segments of {} for a table with coinciding routes (locales {names:?}) are {got:?}, expected {want:?} (one list entry per route, in route order)", l.as_str()));
            }
        }
    }

    // ---- C2: match_nested over the path universe -----------------------------------------------------
    let plains: Vec<_> = cfg.iter().map(|l| plain_base(*l)).collect();
    let di = cfg.iter().position(|l| *l == default).unwrap();
    let mut firsts: BTreeSet<String> = ["x", "apple", "42", ""].iter().map(|s| s.to_string()).collect();
    for l in cfg {
        for w in ["about", "users", "files"] {
            firsts.insert(word_s(*l, w).to_string());
        }
    }
    let mut a1: BTreeSet<String> = firsts.clone();
    a1.extend(UNIVERSE.iter().map(|s| s.to_string()));
    for n in &names {
        // glued: a locale name followed by more characters in the same segment; truncated names
        for w in firsts.iter().chain(names.iter().map(|s| s.to_string()).collect::<Vec<_>>().iter()) {
            if !w.is_empty() {
                a1.insert(format!("{n}{w}"));
                a1.insert(format!("{n}-{w}"));
            }
        }
        for k in 1..n.len() {
            a1.insert(n[..k].to_string());
        }
        a1.insert(n.to_uppercase());
    }
    let mut a2: BTreeSet<String> = firsts.clone();
    a2.extend(names.iter().map(|s| s.to_string()));
    for l in cfg {
        a2.insert(word_s(*l, "lang").to_string());
    }
    let mut a3: BTreeSet<String> = ["42", "x"].iter().map(|s| s.to_string()).collect();
    for l in cfg {
        a3.insert(word_s(*l, "about").to_string());
        a3.insert(word_s(*l, "users").to_string());
    }
    if thorough {
        a3.extend(names.iter().map(|s| s.to_string()));
        a3.extend(firsts.iter().cloned());
    }
    let a4: BTreeSet<String> = cfg.iter().map(|l| word_s(*l, "about").to_string()).chain(["x".to_string()]).collect();
    let mut paths: Vec<Vec<&str>> = vec![vec![]];
    for a in &a1 {
        paths.push(vec![a]);
        for b in &a2 {
            paths.push(vec![a, b]);
            for c in &a3 {
                paths.push(vec![a, b, c]);
                if names.contains(&a.as_str()) {
                    for d in &a4 {
                        paths.push(vec![a, b, c, d]);
                    }
                }
            }
        }
    }
    for segs in &paths {
        if segs.iter().skip(1).any(|s| s.is_empty()) || (segs.len() > 1 && segs[0].is_empty()) {
            continue;
        }
        for trailing in ["", "/"] {
            let path = if segs.is_empty() || segs == &vec![""] { if trailing.is_empty() { String::new() } else { "/".to_string() } } else { format!("/{}{}", segs.join("/"), trailing) };
            f.paths += 1;
            let got = observe(&real, &path).map(|(o, _)| o);
            // allowed answers
            let mut allowed: Vec<Obs> = vec![];
            let first = segs.first().copied().unwrap_or("");
            if let Some(li) = cfg.iter().position(|l| l.as_str() == first) {
                let rest = &path[1 + first.len()..];
                if let Some((mut o, _)) = observe(&plains[li], rest) {
                    o.prefix = format!("/{first}");
                    allowed.push(o);
                }
            }
            if let Some((o, _)) = observe(&plains[di], &path) {
                allowed.push(o);
            }
            match &got {
                Some(o) => {
                    f.matched += 1;
                    f.outcomes.insert(format!("{}|{}", o.prefix, o.page.split('/').count()));
                    if !allowed.contains(o) {
                        f.problems.push(format!(
                            "match_nested: locales {names:?} path {path:?} matched as prefix {:?} page {:?} params {:?}; the first segment {first:?} {} a locale name; allowed answers: {allowed:?}",
                            o.prefix,
                            o.page,
                            o.params,
                            if names.contains(&first) { "is" } else { "is not" }
                        ));
                    }
                }
                None => {
                    f.outcomes.insert("none".into());
                    if !allowed.is_empty() {
                        f.problems.push(format!("match_nested: locales {names:?} path {path:?} is not matched; expected {:?}", allowed[0]));
                    }
                }
            }
        }
    }
    f
}
