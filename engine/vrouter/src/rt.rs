//! Native reactive runtime: an Owner per case, effects enabled (reactive_graph/effects), and a
//! deterministic executor owned by the harness: every task - also the ones leptos hands to the
//! "thread pool" (`Effect::new_isomorphic`) - is queued on the *calling thread's* local pool and
//! runs only when the harness polls. No scheduling decision is left to the OS.

use any_spawner::{CustomExecutor, Executor, PinnedFuture, PinnedLocalFuture};
use futures::executor::{LocalPool, LocalSpawner};
use futures::task::LocalSpawnExt;
use leptos::prelude::*;
use std::cell::RefCell;
use std::sync::Once;

thread_local! {
    static POOL: RefCell<LocalPool> = RefCell::new(LocalPool::new());
    static SPAWNER: LocalSpawner = POOL.with(|p| p.borrow().spawner());
}

struct Deterministic;

impl CustomExecutor for Deterministic {
    fn spawn(&self, fut: PinnedFuture<()>) {
        SPAWNER.with(|s| s.spawn_local(fut).expect("spawn"));
    }
    fn spawn_local(&self, fut: PinnedLocalFuture<()>) {
        SPAWNER.with(|s| s.spawn_local(fut).expect("spawn_local"));
    }
    fn poll_local(&self) {
        POOL.with(|p| {
            if let Ok(mut p) = p.try_borrow_mut() {
                p.run_until_stalled();
            }
        });
    }
}

static INIT: Once = Once::new();

pub fn init_executor() {
    INIT.call_once(|| {
        Executor::init_custom_executor(Deterministic).expect("executor already set");
    });
}

/// run effects to quiescence on this thread
pub fn poll() {
    Executor::poll_local();
}

/// Run `f` under a fresh root Owner; everything created under it is disposed afterwards and the
/// tasks left in the queue are drained (they find their signals disposed and stop).
pub fn with_owner<T>(f: impl FnOnce() -> T) -> T {
    init_executor();
    let owner = Owner::new();
    let r = owner.with(f);
    poll();
    owner.cleanup();
    drop(owner);
    poll();
    r
}
