//! A `Locale` whose supported set (names and order, default first) is chosen per configuration.

use icu_locid::{LanguageIdentifier, Locale as IcuLocale};
use leptos_i18n::{Direction, Locale, LocaleKeys};
use std::cell::Cell;
use std::str::FromStr;
use std::sync::OnceLock;

pub const UNIVERSE: [&str; 7] = ["en", "fr", "fr-CA", "e", "eng", "de", "english"];

static ICU: OnceLock<Vec<IcuLocale>> = OnceLock::new();
fn icu() -> &'static [IcuLocale] {
    ICU.get_or_init(|| UNIVERSE.iter().map(|s| s.parse().unwrap_or(IcuLocale::UND)).collect())
}

thread_local! {
    pub static CONFIG: Cell<&'static [HL]> = const { Cell::new(&[]) };
}

#[derive(Clone, Copy, PartialEq, Eq, Hash, Debug, PartialOrd, Ord)]
pub struct HL(pub u8);

pub fn hl(name: &str) -> HL {
    HL(UNIVERSE.iter().position(|n| *n == name).expect("name in universe") as u8)
}

impl Default for HL {
    fn default() -> Self {
        CONFIG.get()[0]
    }
}
impl FromStr for HL {
    type Err = ();
    fn from_str(s: &str) -> Result<Self, ()> {
        CONFIG.get().iter().copied().find(|l| UNIVERSE[l.0 as usize] == s).ok_or(())
    }
}
impl AsRef<LanguageIdentifier> for HL {
    fn as_ref(&self) -> &LanguageIdentifier {
        &icu()[self.0 as usize].id
    }
}
impl AsRef<IcuLocale> for HL {
    fn as_ref(&self) -> &IcuLocale {
        &icu()[self.0 as usize]
    }
}
impl AsRef<str> for HL {
    fn as_ref(&self) -> &str {
        UNIVERSE[self.0 as usize]
    }
}
impl AsRef<HL> for HL {
    fn as_ref(&self) -> &HL {
        self
    }
}
impl std::fmt::Display for HL {
    fn fmt(&self, f: &mut std::fmt::Formatter<'_>) -> std::fmt::Result {
        f.write_str(UNIVERSE[self.0 as usize])
    }
}
impl serde::Serialize for HL {
    fn serialize<S: serde::Serializer>(&self, s: S) -> Result<S::Ok, S::Error> {
        s.serialize_str(UNIVERSE[self.0 as usize])
    }
}
impl<'de> serde::Deserialize<'de> for HL {
    fn deserialize<D: serde::Deserializer<'de>>(d: D) -> Result<Self, D::Error> {
        let s = <String as serde::Deserialize>::deserialize(d)?;
        Ok(HL::from_str(&s).unwrap_or_default())
    }
}

#[derive(Clone, Copy)]
pub struct HK;
impl LocaleKeys for HK {
    type Locale = HL;
    fn from_locale(_: HL) -> Self {
        HK
    }
}

#[derive(Clone, Copy, Debug, PartialEq, Eq, Hash, serde::Serialize, serde::Deserialize)]
pub enum HU {
    Unit,
}
impl leptos_i18n::__private::TranslationUnitId for HU {
    fn to_str(self) -> Option<&'static str> {
        None
    }
}

impl Locale for HL {
    type Keys = HK;
    type TranslationUnitId = HU;
    fn as_str(self) -> &'static str {
        UNIVERSE[self.0 as usize]
    }
    fn as_icu_locale(self) -> &'static IcuLocale {
        &icu()[self.0 as usize]
    }
    fn direction(self) -> Direction {
        Direction::Auto
    }
    fn get_all() -> &'static [HL] {
        CONFIG.get()
    }
    fn to_base_locale(self) -> HL {
        self
    }
    fn from_base_locale(l: HL) -> Self {
        l
    }
}
