//! vbuild: the build-script API (`leptos_i18n_build::TranslationsInfos`) on generated projects.
//!  c20: requested ICU data keys / locales / namespaces vs what the translations use
//!  c11: exported string tables and the files written by write_to_dir (strict JSON)
//!  c09: parse_at_dir + every accessor never panics on adversarial input

use leptos_i18n_build::{TranslationsInfos, TranslationsType};
use serde_json::json;
use std::collections::{BTreeMap, BTreeSet};
use std::path::{Path, PathBuf};
use std::sync::Mutex;
use vmodel::ast::*;
use vmodel::model::*;
use vmodel::par::{par_for, par_for_chunked};
use vmodel::{Reporter, Tier};

fn scratch(tag: &str) -> PathBuf {
    let base = if Path::new("/dev/shm").is_dir() { PathBuf::from("/dev/shm") } else { vmodel::report::verif_root().join("work/tmp") };
    let root = base.join(format!("verif-vbuild-{}-{}", tag, std::process::id()));
    let _ = std::fs::remove_dir_all(&root);
    std::fs::create_dir_all(&root).unwrap();
    root
}

const JSON: WriteOpts = WriteOpts { format: Format::Json, ascii_only: false };

#[derive(Debug)]
struct Infos {
    icu_keys: BTreeSet<String>,
    locales: Vec<String>,
    langids: Vec<String>,
    namespaces: Option<Vec<String>>,
    /// (namespace, locale) -> table
    tables: BTreeMap<(Option<String>, String), Vec<String>>,
    files_paths: usize,
    /// data keys / language identifiers of the driver `build_datagen_driver()` builds (read from its Debug text)
    driver_keys: BTreeSet<String>,
    driver_langids: BTreeSet<String>,
    /// per additional option: (option, keys of `build_datagen_driver_with_options([option])`, keys the option stands for)
    driver_with: Vec<(String, BTreeSet<String>, BTreeSet<String>)>,
}

fn debug_keys(debug: &str) -> BTreeSet<String> {
    debug.split("DataKey{").skip(1).filter_map(|s| s.split_once('}')).map(|(k, _)| k.to_string()).collect()
}
fn debug_langids(debug: &str) -> BTreeSet<String> {
    debug.split_once("langids: {").and_then(|(_, r)| r.split_once('}')).map(|(l, _)| l).unwrap_or_default().split(',').map(str::trim).filter(|s| !s.is_empty()).map(str::to_string).collect()
}

#[derive(Debug)]
enum Out {
    Ok(Infos),
    Err(String),
    Panic(String),
}

fn observe(dir: &Path, write_dir: Option<&Path>) -> Out {
    observe_opts(dir, write_dir, true)
}

/// `fresh`: empty the output directory first (false = export over what an earlier build left there)
fn observe_opts(dir: &Path, write_dir: Option<&Path>, fresh: bool) -> Out {
    let d = dir.to_path_buf();
    let w = write_dir.map(|p| p.to_path_buf());
    match std::panic::catch_unwind(move || {
        let infos = match TranslationsInfos::parse_at_dir(d) {
            Ok(i) => i,
            Err(e) => {
                let m = e.to_string();
                return Out::Err(if m.trim().is_empty() { "<EMPTY MESSAGE>".into() } else { m });
            }
        };
        let icu_keys = infos.get_icu_keys().map(|k| k.path().get().to_string()).collect();
        let locales: Vec<String> = infos.get_locales().map(|s| s.to_string()).collect();
        // get_locales_langids unwraps the parse: only call it when every name is a language identifier
        let all_langids = locales.iter().all(|l| l.parse::<icu_locid_stub::Lid>().is_ok());
        let langids = if all_langids { infos.get_locales_langids().map(|l| l.to_string()).collect() } else { vec![] };
        let namespaces = infos.get_namespaces().map(|it| it.map(|s| s.to_string()).collect());
        let mut tables = BTreeMap::new();
        match infos.get_translations() {
            TranslationsType::Namespace(nss) => {
                for ns in nss {
                    let name = ns.name().to_string();
                    for l in ns.into_locales() {
                        let text = l.translations_formatter().to_string();
                        tables.insert((Some(name.clone()), l.name().to_string()), vec![text]);
                    }
                }
            }
            TranslationsType::Locale(ls) => {
                for l in ls {
                    let text = l.translations_formatter().to_string();
                    tables.insert((None, l.name().to_string()), vec![text]);
                }
            }
        }
        if let Some(w) = w {
            if fresh {
                let _ = std::fs::remove_dir_all(&w);
            }
            if let Err(e) = infos.get_translations().write_to_dir(&w) {
                return Out::Err(format!("write_to_dir: {e}"));
            }
        }
        let mut driver_keys = BTreeSet::new();
        let mut driver_langids = BTreeSet::new();
        let mut driver_with = vec![];
        if all_langids {
            let d = format!("{:?}", infos.build_datagen_driver());
            driver_keys = debug_keys(&d);
            driver_langids = debug_langids(&d);
            use leptos_i18n_build::Options as O;
            for (name, o) in [("Plurals", O::Plurals), ("FormatDateTime", O::FormatDateTime), ("FormatList", O::FormatList), ("FormatNums", O::FormatNums), ("FormatCurrency", O::FormatCurrency)] {
                let own: BTreeSet<String> = o.into_data_keys().iter().map(|k| k.path().get().to_string()).collect();
                let with = debug_keys(&format!("{:?}", infos.build_datagen_driver_with_options([o])));
                driver_with.push((name.to_string(), with, own));
            }
        }
        Out::Ok(Infos { icu_keys, locales, langids, namespaces, tables, files_paths: infos.files_paths().len(), driver_keys, driver_langids, driver_with })
    }) {
        Ok(o) => o,
        Err(p) => Out::Panic(vmodel::par::take_panic_message(p)),
    }
}

/// tiny stand-in so that this file does not need icu_locid as a direct dependency:
/// a locale name is a language identifier iff the model's plural-rule lookup can parse it
mod icu_locid_stub {
    pub struct Lid;
    impl std::str::FromStr for Lid {
        type Err = ();
        fn from_str(s: &str) -> Result<Self, ()> {
            vmodel::model::plural_rules(s, false).map(|_| Lid).ok_or(())
        }
    }
}

// ---------------------------------------------------------------------------------------------
// C20
// ---------------------------------------------------------------------------------------------

const FAMILIES: [&str; 11] = ["plural", "plural_plain", "plural_ordinal", "plural_count_number", "plural_count_currency", "number", "currency", "date", "time", "datetime", "list"];
const PLACEMENTS: [&str; 13] = ["range-in-both-used-in-the-later-one", "plain-variable-in-default", "literal-elsewhere", "literal-in-default", "none", "default-top", "nondefault-only", "subkey-depth2", "range-branch", "plural-form", "fk-target", "second-namespace", "surplus-only"];

fn user_value(family: &str, tag: &str) -> Vec<(String, Val)> {
    // entries (key names use base `K`)
    match family {
        "plural" => vec![("K_one".into(), s(vec![text(&format!("[{tag}.one]")), var("count")])), ("K_other".into(), s(vec![text(&format!("[{tag}.other]")), var("count")]))],
        // a plural whose forms hold no variable at all
        "plural_plain" => vec![("K_one".into(), st(&format!("[{tag}.one]"))), ("K_other".into(), st(&format!("[{tag}.other]")))],
        // the count itself carries a formatter (the only use of that formatter family in the project)
        "plural_count_number" => vec![("K_one".into(), s(vec![text(&format!("[{tag}.one]")), var("count")])), ("K_other".into(), s(vec![text(&format!("[{tag}.other]")), var_fmt("count", " number")]))],
        "plural_count_currency" => vec![("K_one".into(), s(vec![var_fmt("count", " currency(width: narrow; currency_code: EUR)"), text(&format!("[{tag}.one]"))])), ("K_other".into(), s(vec![text(&format!("[{tag}.other]")), var("count")]))],
        // ordinal forms only: the generated code asks for the ordinal rules, which are a data key of their own
        "plural_ordinal" => vec![("K_ordinal_one".into(), s(vec![var("count"), text(&format!("[{tag}.st]"))])), ("K_ordinal_other".into(), s(vec![var("count"), text(&format!("[{tag}.th]"))]))],
        "number" => vec![("K".into(), s(vec![text(&format!("[{tag}]")), var_fmt("v", " number")]))],
        "currency" => vec![("K".into(), s(vec![text(&format!("[{tag}]")), var_fmt("v", " currency(width: narrow; currency_code: EUR)")]))],
        "date" => vec![("K".into(), s(vec![text(&format!("[{tag}]")), var_fmt("v", " date(date_length: long)")]))],
        "time" => vec![("K".into(), s(vec![text(&format!("[{tag}]")), var_fmt("v", " time")]))],
        "datetime" => vec![("K".into(), s(vec![text(&format!("[{tag}]")), var_fmt("v", " datetime")]))],
        "list" => vec![("K".into(), s(vec![text(&format!("[{tag}]")), var_fmt("v", " list(list_type: and)")]))],
        _ => unreachable!(),
    }
}

fn fam_fmt(family: &str) -> &'static str {
    match family {
        "number" => " number",
        "currency" => " currency(width: narrow; currency_code: EUR)",
        "date" => " date(date_length: long)",
        "time" => " time",
        "datetime" => " datetime",
        "list" => " list(list_type: and)",
        _ => unreachable!(),
    }
}

fn rename(entries: Vec<(String, Val)>, name: &str) -> Vec<(String, Val)> {
    entries.into_iter().map(|(k, v)| (k.replacen('K', name, 1), v)).collect()
}

/// add one use of `family` at `placement` under key base `name`
fn place(p: &mut BTreeMap<FileKey, Vec<(String, Val)>>, family: &str, placement: &str, name: &str, namespaced: bool) {
    let ns1 = if namespaced { Some("one".to_string()) } else { None };
    let ns2 = if namespaced { Some("two".to_string()) } else { None };
    let plain = |loc: &str| (name.to_string(), st(&format!("[{loc}.{name}.plain]")));
    let mut add = |ns: &Option<String>, loc: &str, e: Vec<(String, Val)>| p.entry((ns.clone(), loc.to_string())).or_default().extend(e);
    match placement {
        "none" => {
            add(&ns1, "en", vec![plain("en")]);
            add(&ns1, "fr", vec![plain("fr")]);
        }
        "default-top" => {
            add(&ns1, "en", rename(user_value(family, &format!("en.{name}")), name));
            add(&ns1, "fr", vec![plain("fr")]);
        }
        // the other locale holds a plain non-string literal at the key: the family is still used "in some locale"
        "literal-elsewhere" => {
            add(&ns1, "en", rename(user_value(family, &format!("en.{name}")), name));
            add(&ns1, "fr", vec![(name.to_string(), if name.ends_with('0') { Val::UInt(12) } else { Val::Bool(true) })]);
        }
        "literal-in-default" => {
            add(&ns1, "en", vec![(name.to_string(), Val::UInt(7))]);
            add(&ns1, "fr", rename(user_value(family, &format!("fr.{name}")), name));
        }
        // the default locale prints the family's variable (the count for plurals) as it is; only the other locale makes
        // it a count / gives it the formatter: the variable met first as a plain one still becomes what the other needs
        "plain-variable-in-default" => {
            let v = if family.starts_with("plural") { "count" } else { "v" };
            add(&ns1, "en", vec![(name.to_string(), s(vec![var(v), text(&format!(" [en.{name}.plain-variable]"))]))]);
            add(&ns1, "fr", rename(user_value(family, &format!("fr.{name}")), name));
        }
        "nondefault-only" => {
            add(&ns1, "en", vec![plain("en")]);
            add(&ns1, "fr", rename(user_value(family, &format!("fr.{name}")), name));
        }
        "subkey-depth2" => {
            add(&ns1, "en", vec![(format!("{name}g"), Val::Sub(vec![("h".into(), Val::Sub(rename(user_value(family, &format!("en.{name}")), "leaf")))]))]);
            add(&ns1, "fr", vec![(format!("{name}g"), Val::Null)]);
        }
        // the key is a range in both locales (same count variable); only the later locale's branches use the family
        "range-in-both-used-in-the-later-one" => {
            if family.starts_with("plural") {
                add(&ns1, "en", rename(user_value(family, &format!("en.{name}")), name));
                add(&ns1, "fr", vec![plain("fr")]);
            } else {
                let inner = user_value(family, &format!("fr.{name}")).remove(0).1;
                let mk = |fallback: Val| {
                    Val::Range(RangeDecl {
                        ty: None,
                        branches: vec![
                            Branch { value: Box::new(st("zero")), counts: vec![CountSpec::UInt(0)], map_form: false, value_first: false },
                            Branch { value: Box::new(fallback), counts: vec![], map_form: false, value_first: false },
                        ],
                    })
                };
                add(&ns1, "en", vec![(name.to_string(), mk(s(vec![text(&format!("[en.{name}] ")), var("count")])))]);
                add(&ns1, "fr", vec![(name.to_string(), mk(inner))]);
            }
        }
        "range-branch" => {
            if family.starts_with("plural") {
                // a plural cannot live inside a range branch: reference it from there
                add(&ns1, "en", rename(user_value(family, &format!("en.{name}")), &format!("{name}p")));
                add(&ns1, "fr", vec![(format!("{name}p"), Val::Null)]);
                let target = if namespaced { format!("one:{name}p") } else { format!("{name}p") };
                let r = Val::Range(RangeDecl {
                    ty: Some("u8".into()),
                    branches: vec![
                        Branch { value: Box::new(st("zero")), counts: vec![CountSpec::UInt(0)], map_form: false, value_first: false },
                        Branch { value: Box::new(s(vec![fk_args(&target, vec![("count", FkArg::Str(vec![var("n")]))])])), counts: vec![], map_form: false, value_first: false },
                    ],
                });
                add(&ns1, "en", vec![(name.to_string(), r)]);
                add(&ns1, "fr", vec![plain("fr")]);
            } else {
                let inner = user_value(family, &format!("en.{name}")).remove(0).1;
                let r = Val::Range(RangeDecl {
                    ty: None,
                    branches: vec![
                        Branch { value: Box::new(st("zero")), counts: vec![CountSpec::UInt(0)], map_form: false, value_first: false },
                        Branch { value: Box::new(inner), counts: vec![], map_form: false, value_first: false },
                    ],
                });
                add(&ns1, "en", vec![plain("en")]);
                add(&ns1, "fr", vec![(name.to_string(), r)]);
            }
        }
        "plural-form" => {
            if family.starts_with("plural") {
                add(&ns1, "en", rename(user_value(family, &format!("en.{name}")), name));
                add(&ns1, "fr", vec![(name.to_string(), Val::Null)]);
            } else {
                let inner = user_value(family, &format!("en.{name}")).remove(0).1;
                add(&ns1, "en", vec![(format!("{name}_one"), st("one")), (format!("{name}_other"), inner)]);
                add(&ns1, "fr", vec![(name.to_string(), Val::Null)]);
            }
        }
        "fk-target" => {
            // the user of the family is a surplus key of the non-default locale... no: a reachable key
            // of the default locale that is only *referenced*; the referencing key is what a caller uses
            add(&ns1, "en", rename(user_value(family, &format!("en.{name}")), &format!("{name}t")));
            add(&ns1, "fr", vec![(format!("{name}t"), Val::Null)]);
            let target = if namespaced { format!("one:{name}t") } else { format!("{name}t") };
            add(&ns2, "en", vec![(name.to_string(), s(vec![text("ref:"), fk(&target)]))]);
            add(&ns2, "fr", vec![(name.to_string(), Val::Null)]);
        }
        "second-namespace" => {
            add(&ns1, "en", vec![plain("en")]);
            add(&ns1, "fr", vec![plain("fr")]);
            add(&ns2, "en", rename(user_value(family, &format!("en.{name}")), &format!("{name}2")));
            add(&ns2, "fr", vec![(format!("{name}2"), Val::Null)]);
        }
        "surplus-only" => {
            // present only in a key the default locale does not have: unreachable
            add(&ns1, "en", vec![plain("en")]);
            let mut e = vec![plain("fr")];
            e.extend(rename(user_value(family, &format!("fr.{name}")), &format!("{name}surplus")));
            add(&ns1, "fr", e);
        }
        _ => unreachable!(),
    }
}

fn family_of_fmt(text: &str) -> Option<&'static str> {
    match text.trim().split('(').next().unwrap_or("").trim() {
        "number" => Some("number"),
        "currency" => Some("currency"),
        "date" | "time" | "datetime" => Some("datetime"),
        "list" => Some("list"),
        _ => None,
    }
}

fn used_families(m: &Model) -> BTreeSet<&'static str> {
    fn walk(rs: &[R], out: &mut BTreeSet<&'static str>) {
        for r in rs {
            match r {
                R::Var { fmt: Some(f), .. } => {
                    if let Some(fam) = family_of_fmt(f) {
                        out.insert(fam);
                    }
                }
                R::Comp { inner, .. } => walk(inner, out),
                R::Range { branches, .. } => {
                    for (_, v) in branches {
                        walk(v, out);
                    }
                }
                R::Plural { forms, ordinal, .. } => {
                    out.insert("plural");
                    out.insert(if *ordinal { "plural:ordinal" } else { "plural:cardinal" });
                    for v in forms.values() {
                        walk(v, out);
                    }
                }
                _ => {}
            }
        }
    }
    let mut out = BTreeSet::new();
    for ns in m.namespaces() {
        for path in m.default_keys(&ns) {
            for loc in &m.locales {
                if m.defines(&ns, loc, &path) {
                    if let Ok(r) = m.resolve(&ns, loc, &path) {
                        walk(&r, &mut out);
                    }
                }
            }
        }
    }
    out
}

/// characteristic data key of each family: Some(true) must be requested, Some(false) must not, None either way
fn expected_characteristic(used: &BTreeSet<&str>) -> BTreeMap<&'static str, Option<bool>> {
    let mut m = BTreeMap::new();
    let iff = |b: bool| Some(b);
    // "plural data iff some key is a plural", and "never lacks data the generated code asks for": the rules of
    // the kind of plural in use are required, no plural at all forbids both, a plural of the other kind leaves it open
    let plural = used.contains("plural");
    m.insert("plurals/cardinal@1", if used.contains("plural:cardinal") { Some(true) } else if plural { None } else { Some(false) });
    // (date / time formatting brings the ordinal rules with it)
    m.insert("plurals/ordinal@1", if used.contains("plural:ordinal") { Some(true) } else if plural || used.contains("datetime") { None } else { Some(false) });
    m.insert("list/and@1", iff(used.contains("list")));
    m.insert("datetime/timesymbols@1", iff(used.contains("datetime")));
    m.insert("currency/essentials@1", iff(used.contains("currency")));
    // number data is also part of what date/time formatting needs
    m.insert("decimal/symbols@1", iff(used.contains("number") || used.contains("datetime")));
    m
}

fn c20(tier: Tier) -> i32 {
    let rep = Reporter::new("C20", "vbuild", tier);
    let root = scratch("c20");
    #[derive(Clone)]
    struct Job {
        uses: Vec<(&'static str, &'static str)>,
        namespaced: bool,
        locales: Vec<&'static str>,
        default: &'static str,
        /// formatter families all attached to ONE variable of ONE key, and how they are spread over the locales
        co: Vec<&'static str>,
        co_variant: u8,
        /// the families spread over three namespaces a < b < c: per family (plural, number, currency, date, list)
        /// the namespace it is used in (3 = nowhere)
        split: Option<Vec<usize>>,
    }
    let mut jobs: Vec<Job> = vec![];
    let locale_sets: Vec<(Vec<&'static str>, &'static str)> = vec![(vec!["en", "fr"], "en"), (vec!["fr", "en"], "en"), (vec!["fr"], "en"), (vec!["en", "fr", "sr-Cyrl", "zh-Hant-TW"], "en"), (vec!["en", "fr", "ca-valencia", "en-US-posix"], "en"), (vec!["en", "en-GB", "fr", "de-AT"], "en"), (vec!["en", "fr", "ca", "ca-valencia", "de-CH", "de-CH-1996"], "en")];
    for fam in FAMILIES {
        for pl in PLACEMENTS {
            for namespaced in [false, true] {
                if !namespaced && pl == "second-namespace" {
                    continue;
                }
                for (ls, d) in &locale_sets {
                    jobs.push(Job { uses: vec![(fam, pl)], namespaced, locales: ls.clone(), default: d, co: vec![], co_variant: 0, split: None });
                }
            }
        }
    }
    // pairs
    for (i, f1) in FAMILIES.iter().enumerate() {
        for p1 in PLACEMENTS {
            for f2 in FAMILIES.iter().skip(i) {
                for p2 in PLACEMENTS {
                    if tier == Tier::Quick && (p1.len() + p2.len() + f1.len() * 3 + f2.len()) % 4 != 0 {
                        continue;
                    }
                    jobs.push(Job { uses: vec![(f1, p1), (f2, p2)], namespaced: true, locales: vec!["en", "fr"], default: "en", co: vec![], co_variant: 0, split: None });
                }
            }
        }
    }
    // one variable carrying formatters of several families: every ordered choice of 1..=3 (thorough: every
    // permutation of every subset) of the 6 formatter families x 4 ways of spreading them over the locales
    {
        let fams: Vec<&'static str> = FAMILIES.iter().copied().filter(|f| !f.starts_with("plural")).collect();
        let mut seqs: Vec<Vec<&'static str>> = vec![];
        for mask in vmodel::enumerate::subsets(fams.len()) {
            let members: Vec<&'static str> = (0..fams.len()).filter(|i| mask >> i & 1 == 1).map(|i| fams[i]).collect();
            if members.is_empty() || (tier == Tier::Quick && members.len() > 3) || members.len() > 4 {
                continue;
            }
            for perm in vmodel::enumerate::permutations(members.len()) {
                seqs.push(perm.iter().map(|i| members[*i]).collect());
            }
        }
        for co in seqs {
            for co_variant in 0..4u8 {
                for namespaced in [false, true] {
                    jobs.push(Job { uses: vec![("plural", if co_variant % 2 == 0 { "none" } else { "subkey-depth2" })], namespaced, locales: vec!["en", "fr"], default: "en", co: co.clone(), co_variant, split: None });
                }
            }
        }
    }
    // every way of spreading the five data families over three namespaces (or leaving them out): 4^5 projects
    const SPLIT_FAMS: [&str; 5] = ["plural", "number", "currency", "date", "list"];
    for t in vmodel::enumerate::tuples(4, 5) {
        if tier == Tier::Quick && t.iter().filter(|x| **x == 3).count() > 1 {
            continue;
        }
        jobs.push(Job { uses: vec![], namespaced: true, locales: vec!["en", "fr"], default: "en", co: vec![], co_variant: 0, split: Some(t) });
    }
    let classes = Mutex::new(BTreeMap::<String, u64>::new());
    par_for(jobs.len(), |w, i| {
        let j = &jobs[i];
        let mut cfg = Config::simple(j.default, &j.locales);
        if j.split.is_some() {
            cfg = cfg.with_namespaces(&["a", "b", "c"]);
        } else if j.namespaced {
            cfg = cfg.with_namespaces(&["one", "two"]);
        }
        let mut p = Project::new(cfg);
        let eff = p.cfg.effective_locales();
        let mut files: BTreeMap<FileKey, Vec<(String, Val)>> = BTreeMap::new();
        for (k, (fam, pl)) in j.uses.iter().enumerate() {
            place(&mut files, fam, pl, &format!("u{k}"), j.namespaced);
        }
        if !j.co.is_empty() {
            let ns = if j.namespaced { Some("two".to_string()) } else { None };
            let all: Vec<Seg> = j.co.iter().map(|f| var_fmt("v", fam_fmt(f))).collect();
            let with_text = |mut v: Vec<Seg>, t: &str| {
                v.insert(0, text(t));
                v
            };
            let (en, fr): (Val, Val) = match j.co_variant {
                // all in the default locale's string
                0 => (s(with_text(all.clone(), "[en] ")), st("[fr] plain")),
                // first in the default locale, the others in the other locale
                1 => (s(with_text(all[..1].to_vec(), "[en] ")), if all.len() > 1 { s(with_text(all[1..].to_vec(), "[fr] ")) } else { Val::Null }),
                // all in the non-default locale, the default shows the variable plainly
                2 => (s(vec![text("[en] "), var("v")]), s(with_text(all.clone(), "[fr] "))),
                // inside a subkey; the last one only in the non-default locale
                _ => (s(with_text(all[..all.len() - 1].to_vec(), "[en] ")), s(with_text(all[all.len() - 1..].to_vec(), "[fr] "))),
            };
            if j.co_variant == 3 {
                files.entry((ns.clone(), "en".to_string())).or_default().push(("cog".into(), Val::Sub(vec![("co".into(), en)])));
                files.entry((ns.clone(), "fr".to_string())).or_default().push(("cog".into(), Val::Sub(vec![("co".into(), fr)])));
            } else {
                files.entry((ns.clone(), "en".to_string())).or_default().push(("co".into(), en));
                files.entry((ns.clone(), "fr".to_string())).or_default().push(("co".into(), fr));
            }
        }
        if let Some(t) = &j.split {
            for (fi, nsi) in t.iter().enumerate() {
                if *nsi == 3 {
                    continue;
                }
                let ns = Some(["a", "b", "c"][*nsi].to_string());
                let fam = SPLIT_FAMS[fi];
                let name = format!("k{fi}");
                files.entry((ns.clone(), "en".to_string())).or_default().extend(rename(user_value(fam, &format!("en.{name}")), &name));
                files.entry((ns.clone(), "fr".to_string())).or_default().push((name.clone(), Val::Null));
            }
        }
        // every (namespace, locale) file exists; locales beyond en/fr mirror fr
        let nss: Vec<Option<String>> = if j.split.is_some() {
            vec![Some("a".into()), Some("b".into()), Some("c".into())]
        } else if j.namespaced {
            vec![Some("one".into()), Some("two".into())]
        } else {
            vec![None]
        };
        for ns in &nss {
            for l in &eff {
                let src = if l == "en" { "en" } else { "fr" };
                let mut e = files.get(&(ns.clone(), src.to_string())).cloned().unwrap_or_default();
                if l == "en-GB" {
                    // a configured locale whose files hold no text of their own (everything left to the default)
                    p.files.insert((ns.clone(), l.clone()), vec![]);
                    continue;
                }
                if l == "de-AT" {
                    // .. and one whose only value is a bare variable
                    p.files.insert((ns.clone(), l.clone()), vec![("pad".into(), s(vec![var("padv")]))]);
                    continue;
                }
                e.push(("pad".into(), st(&format!("[{l}.pad]"))));
                p.files.insert((ns.clone(), l.clone()), e);
            }
        }
        let m = Model::new(&p);
        let used = used_families(&m);
        let dir = root.join(format!("w{w}"));
        p.materialise(&dir, JSON).unwrap();
        rep.eval(1);
        let desc = || format!("uses {:?} same-variable formatters {:?} (spread {}) families-per-namespace {:?} namespaced={} locales {:?} default {}", j.uses, j.co, j.co_variant, j.split, j.namespaced, j.locales, j.default);
        match observe(&dir, None) {
            Out::Panic(msg) => rep.violation(format!("C20: PANIC {msg} :: {}", desc()), json!({"project": p.describe()})),
            Out::Err(e) => rep.violation(format!("C20: valid project rejected by the build helper: {e} :: {}", desc()), json!({"project": p.describe()})),
            Out::Ok(infos) => {
                for (key, want) in expected_characteristic(&used) {
                    let got = infos.icu_keys.contains(key);
                    let Some(want) = want else { continue };
                    if got != want {
                        rep.violation(
                            format!("C20: data key {key} {} but the translations {} that family :: {}", if got { "requested" } else { "NOT requested" }, if want { "use" } else { "do not use" }, desc()),
                            json!({"project": p.describe(), "used_families": used, "icu_keys": infos.icu_keys}),
                        );
                    }
                }
                // the driver a build script obtains: exactly the derived keys; an additional option only ADDS its keys
                if infos.driver_keys != infos.icu_keys {
                    rep.violation(format!("C20: build_datagen_driver() holds {:?}, get_icu_keys() says {:?} :: {}", infos.driver_keys, infos.icu_keys, desc()), json!({}));
                }
                for (name, with, own) in &infos.driver_with {
                    let want: BTreeSet<String> = infos.icu_keys.union(own).cloned().collect();
                    if *with != want {
                        rep.violation(
                            format!("C20: build_datagen_driver_with_options([{name}]) lacks {:?} and adds {:?} :: {}", want.difference(with).take(4).collect::<Vec<_>>(), with.difference(&want).take(4).collect::<Vec<_>>(), desc()),
                            json!({"project": p.describe()}),
                        );
                    }
                }
                let want_locales: BTreeSet<String> = eff.iter().cloned().collect();
                if infos.driver_langids != want_locales {
                    rep.violation(format!("C20: the datagen driver is built for {:?}, configured {:?} :: {}", infos.driver_langids, eff, desc()), json!({}));
                }
                let got_locales: BTreeSet<String> = infos.locales.iter().cloned().collect();
                if got_locales != want_locales || infos.locales.len() != eff.len() {
                    rep.violation(format!("C20: get_locales {:?}, configured {:?} :: {}", infos.locales, eff, desc()), json!({}));
                }
                let got_lids: BTreeSet<String> = infos.langids.iter().cloned().collect();
                if got_lids != want_locales {
                    rep.violation(format!("C20: get_locales_langids {:?}, configured {:?} :: {}", infos.langids, eff, desc()), json!({}));
                }
                let want_ns = p.cfg.namespaces.clone();
                if infos.namespaces != want_ns {
                    rep.violation(format!("C20: get_namespaces {:?}, configured {:?} :: {}", infos.namespaces, want_ns, desc()), json!({}));
                }
                if infos.files_paths != eff.len() * nss.len() {
                    rep.violation(format!("C20: files_paths lists {} files, expected {} :: {}", infos.files_paths, eff.len() * nss.len(), desc()), json!({}));
                }
            }
        }
        *classes.lock().unwrap().entry(format!("{used:?}")).or_insert(0) += 1;
    });
    rep.nontriv(classes.lock().unwrap().len() as u64);
    rep.sample(json!({"uses": [["currency", "fk-target"]], "namespaced": true}));
    rep.sample(json!({"uses": [["plural", "surplus-only"], ["list", "range-branch"]], "expect": "list data only"}));
    let mut cov = serde_json::Map::new();
    cov.insert("rule".into(), json!(format!("families {FAMILIES:?} x placements {PLACEMENTS:?} (a range in both locales whose branches use the family in the later locale only; the default locale prints the family's variable / the count plain and only the other locale uses it; the other locale / the default locale holds a non-string literal at the key; none; default locale top level; non-default locale only; subkey depth 2 with the other locale null; inside a range branch; inside a plural form; only as the target of a foreign key from another key/namespace; second namespace only; only in a surplus key the default locale lacks = unreachable): every single placement x namespaced or not x 7 locale sets (default first / last / unlisted, script+region names, names with variant subtags, locales whose files hold no literal text, locales that differ by a variant subtag only), and pairs of (family, placement) (quick: a quarter, thorough: all); plus ONE variable of one key carrying formatters of several families: every permutation of every subset of <= 3 (thorough 4) of the 6 formatter families x 4 spreads over the locales (all in the default's string; first in the default, rest in the other locale; all in the other locale with the variable plain in the default; inside a subkey with the last only in the other locale) x namespaced or not; plus every way of spreading plural / number / currency / date / list over three namespaces a < b < c or leaving them out (4^5 projects; quick: at most one left out); oracle: characteristic data key of a family (plurals/cardinal@1 for cardinal and plurals/ordinal@1 for ordinal plurals - required by the kind in use, forbidden without any plural -, list/and@1, datetime/timesymbols@1, currency/essentials@1, decimal/symbols@1 for number-or-datetime) requested iff a reachable key uses the family in some locale (model: union over locales of the resolved trees of the default locale's keys); the driver build_datagen_driver() returns holds exactly the derived keys and the configured language identifiers, build_datagen_driver_with_options([o]) for each of the 5 options holds exactly the derived keys plus the option's own; get_locales / get_locales_langids == configured set, get_namespaces == configured list, files_paths complete; distinct_nontrivial = distinct used-family sets")));
    cov.insert("exhaustive".into(), json!(tier == Tier::Thorough));
    cov.insert("used_family_sets".into(), json!(*classes.lock().unwrap()));
    let _ = std::fs::remove_dir_all(&root);
    rep.finish(cov, &["the generated data provider itself is not built: DatagenProvider::new_latest_tested() downloads CLDR; the *request* (keys, locales) is what is checked"])
}

// ---------------------------------------------------------------------------------------------
// C11: tables and written files
// ---------------------------------------------------------------------------------------------

fn c11(tier: Tier) -> i32 {
    let rep = Reporter::new("C11", "vbuild", tier);
    let root = scratch("c11");
    let nasty: Vec<char> = vec!['"', '\\', '\u{0}', '\u{1}', '\u{1f}', '\u{7f}', '\u{a0}', '\u{ad}', '\u{200b}', '\u{2028}', '\u{feff}', '\u{301}', '\u{1f600}', 'a'];
    let mut strings: Vec<String> = vec![];
    for u in 0u32..=0x10ffff {
        if let Some(c) = char::from_u32(u) {
            if tier == Tier::Thorough || u < 0x3000 || u % 7 == 0 || (0xd7f0..0xe010).contains(&u) || u >= 0x10fff0 {
                strings.push(c.to_string());
            }
        }
    }
    for a in &nasty {
        for b in &nasty {
            strings.push(format!("{a}{b}"));
        }
    }
    strings.push("</script><!-- ]]> \u{2029} ${x} `".to_string());
    let chunks: Vec<&[String]> = strings.chunks(3000).collect();
    par_for(chunks.len() * 2, |w, i| {
        let c = chunks[i / 2];
        let namespaced = i % 2 == 1;
        let en: Vec<(String, Val)> = c.iter().enumerate().map(|(j, sv)| (format!("k{j:05}"), st(sv))).collect();
        let fr: Vec<(String, Val)> = c.iter().rev().enumerate().map(|(j, sv)| (format!("k{j:05}"), if j % 4 == 0 { Val::Null } else { s(vec![text(sv), var("x"), text(sv)]) })).collect();
        let mut p;
        if namespaced {
            p = Project::new(Config::simple("en", &["en", "fr"]).with_namespaces(&["n1", "n2"]));
            p.set_file(Some("n1"), "en", vec![("g".into(), Val::Sub(en.clone()))]);
            p.set_file(Some("n1"), "fr", vec![("g".into(), Val::Sub(fr.clone()))]);
            p.set_file(Some("n2"), "en", en.iter().take(50).cloned().collect());
            p.set_file(Some("n2"), "fr", vec![]);
        } else {
            p = Project::new(Config::simple("en", &["en", "fr"]));
            p.set_file(None, "en", en);
            p.set_file(None, "fr", fr);
        }
        let dir = root.join(format!("w{w}"));
        let out_dir = root.join(format!("w{w}-out"));
        p.materialise(&dir, JSON).unwrap();
        rep.eval(c.len() as u64);
        match observe(&dir, Some(&out_dir)) {
            Out::Panic(m) => rep.violation(format!("C11/vbuild: PANIC {m}"), json!({})),
            Out::Err(e) => rep.violation(format!("C11/vbuild: valid project rejected: {e}"), json!({})),
            Out::Ok(infos) => {
                // expected tables: distinct literal strings per locale, as the parser exports them
                // (the parser side is checked by the L1 engine; here: formatter text and written
                // file decode - as strict JSON - to a list of strings, and both agree)
                for ((ns, loc), text) in &infos.tables {
                    let file = match ns {
                        Some(ns) => out_dir.join(ns).join(format!("{loc}.json")),
                        None => out_dir.join(format!("{loc}.json")),
                    };
                    let written = match std::fs::read(&file) {
                        Ok(b) => b,
                        Err(e) => {
                            rep.violation(format!("C11/vbuild: write_to_dir did not produce {}: {e}", file.display()), json!({}));
                            continue;
                        }
                    };
                    if written != text[0].as_bytes() {
                        rep.violation(format!("C11/vbuild: file {} differs from translations_formatter()", file.display()), json!({}));
                    }
                    let decoded: Result<Vec<String>, _> = serde_json::from_slice(&written);
                    match decoded {
                        Err(e) => {
                            // find the first offending string for the key
                            let at = e.column().saturating_sub(1);
                            let around: String = String::from_utf8_lossy(&written).chars().skip(at.saturating_sub(12)).take(24).collect();
                            rep.violation(
                                format!("C11/vbuild: file written for locale {loc} is not valid JSON: {e}; around: {:?}", around),
                                json!({"file_head": String::from_utf8_lossy(&written).chars().take(200).collect::<String>()}),
                            );
                        }
                        Ok(list) => {
                            // every decoded entry must be one of the literal strings of this project, and
                            // for en (flat layout) the table is exactly the literal set
                            let lits: BTreeSet<&String> = c.iter().collect();
                            for (ix, sv) in list.iter().enumerate() {
                                if !lits.contains(sv) {
                                    rep.violation(format!("C11/vbuild: entry {ix} of the written table of {loc} decodes to {:?} which is no literal of the project", sv), json!({}));
                                    break;
                                }
                            }
                            if loc == "en" && !namespaced {
                                let got: BTreeSet<&String> = list.iter().collect();
                                if got != lits || list.len() != lits.len() {
                                    rep.violation(format!("C11/vbuild: written table of en has {} entries for {} distinct literals", list.len(), lits.len()), json!({}));
                                }
                            }
                        }
                    }
                }
                if infos.tables.is_empty() {
                    rep.violation("C11/vbuild: no tables exported".to_string(), json!({}));
                }
            }
        }
    });
    // ---- histories: a build script exports again and again into the same directory -----------------------
    // every sequence of <= 3 exports over 4 variants of one project (long texts, short texts, fewer keys,
    // more keys with non-ASCII text), flat and namespaced; after every export each file must be exactly the
    // table of the project exported last
    {
        let variant = |v: usize, loc: &str| -> Vec<(String, Val)> {
            match v {
                0 => vec![("k1".into(), st(&format!("[{loc}] a rather long first text, long enough to leave a tail"))), ("k2".into(), st(&format!("[{loc}] second text")))],
                1 => vec![("k1".into(), st("a")), ("k2".into(), st("b"))],
                2 => vec![("k1".into(), st(&format!("{loc}")))],
                _ => vec![("k1".into(), st(&format!("[{loc}] \u{e9}\u{1f600} \"quoted\" \\ back"))), ("k2".into(), st("x")), ("k3".into(), s(vec![text("y"), var("v"), text("z")]))],
            }
        };
        let mut seqs: Vec<Vec<usize>> = vec![];
        for a in 0..4 {
            seqs.push(vec![a]);
            for b in 0..4 {
                seqs.push(vec![a, b]);
                for c in 0..4 {
                    seqs.push(vec![a, b, c]);
                }
            }
        }
        let n_hist = seqs.len() * 2;
        par_for(n_hist, |w, i| {
            let seq = &seqs[i / 2];
            let namespaced = i % 2 == 1;
            let dir = root.join(format!("h{w}"));
            let out_dir = root.join(format!("h{w}-out"));
            let _ = std::fs::remove_dir_all(&out_dir);
            for (step, v) in seq.iter().enumerate() {
                let mut p;
                if namespaced {
                    p = Project::new(Config::simple("en", &["en", "fr"]).with_namespaces(&["n1", "n2"]));
                    for loc in ["en", "fr"] {
                        p.set_file(Some("n1"), loc, variant(*v, loc));
                        p.set_file(Some("n2"), loc, variant((*v + 1) % 4, loc));
                    }
                } else {
                    p = Project::new(Config::simple("en", &["en", "fr"]));
                    for loc in ["en", "fr"] {
                        p.set_file(None, loc, variant(*v, loc));
                    }
                }
                let _ = std::fs::remove_dir_all(&dir);
                p.materialise(&dir, JSON).unwrap();
                rep.eval(1);
                match observe_opts(&dir, Some(&out_dir), false) {
                    Out::Panic(m) => rep.violation(format!("C11/vbuild/history: PANIC {m} :: exports {seq:?} step {step}"), json!({})),
                    Out::Err(e) => rep.violation(format!("C11/vbuild/history: valid project rejected: {e} :: exports {seq:?} step {step}"), json!({})),
                    Out::Ok(infos) => {
                        for ((ns, loc), text) in &infos.tables {
                            let file = match ns {
                                Some(ns) => out_dir.join(ns).join(format!("{loc}.json")),
                                None => out_dir.join(format!("{loc}.json")),
                            };
                            let written = std::fs::read(&file).unwrap_or_default();
                            let decoded: Result<Vec<String>, _> = serde_json::from_slice(&written);
                            if written != text[0].as_bytes() || decoded.is_err() {
                                rep.violation(
                                    format!(
                                        "C11/vbuild/history: after exporting variants {:?} into one directory (namespaced={namespaced}) the file of {ns:?}/{loc} is {:?}, the table of the project exported last is {:?}",
                                        &seq[..=step],
                                        String::from_utf8_lossy(&written).chars().take(120).collect::<String>(),
                                        text[0].chars().take(120).collect::<String>()
                                    ),
                                    json!({}),
                                );
                            }
                        }
                    }
                }
            }
        });
        rep.count("export_histories", n_hist as u64);
    }
    // ---- the tables the build helper writes are the tables the macro indexes into --------------------------
    // the macro reads the project with the ICU feature checks on (skip_icu_cfg = false), the build helper with
    // them off: for every project of the corpus (plurals with keys in between their forms, ranges, references,
    // namespaces, inherits) both ways must give the same list of strings, in the same order, per file
    {
        let corpus = vmodel::gen::corpus(tier);
        let compared = Mutex::new(0u64);
        let with_plural = Mutex::new(0u64);
        par_for(corpus.len(), |w, i| {
            let p = &corpus[i];
            let dir = root.join(format!("m{w}"));
            let _ = std::fs::remove_dir_all(&dir);
            p.materialise(&dir, JSON).unwrap();
            rep.eval(1);
            let helper = match observe(&dir, None) {
                Out::Ok(infos) => infos,
                Out::Panic(m) => {
                    rep.violation(format!("C11/vbuild/tables: PANIC {m} :: {}", vmodel::report::truncate(&p.describe(), 300)), json!({}));
                    return;
                }
                Out::Err(_) => return,
            };
            let d = dir.clone();
            let macro_way = std::panic::catch_unwind(move || leptos_i18n_parser::parse_locales::parse_locales(false, Some(d)).map(|(k, _, _)| k).map_err(|e| e.to_string()));
            let keys = match macro_way {
                Ok(Ok(k)) => k,
                _ => return,
            };
            use leptos_i18n_parser::parse_locales::locale::BuildersKeys;
            let mut macro_tables: BTreeMap<(Option<String>, String), Vec<String>> = BTreeMap::new();
            match &keys {
                BuildersKeys::NameSpaces { namespaces, .. } => {
                    for ns in namespaces {
                        for l in &ns.locales {
                            macro_tables.insert((Some(ns.key.name.to_string()), l.name.name.to_string()), l.strings.iter().map(|s| s.to_string()).collect());
                        }
                    }
                }
                BuildersKeys::Locales { locales, .. } => {
                    for l in locales {
                        macro_tables.insert((None, l.name.name.to_string()), l.strings.iter().map(|s| s.to_string()).collect());
                    }
                }
            }
            if p.describe().contains("_other") {
                *with_plural.lock().unwrap() += 1;
            }
            for (k, text) in &helper.tables {
                let decoded: Vec<String> = serde_json::from_str(&text[0]).unwrap_or_default();
                *compared.lock().unwrap() += 1;
                match macro_tables.get(k) {
                    None => rep.violation(format!("C11/vbuild/tables: the build helper exports a table for {k:?} the macro does not know :: {}", vmodel::report::truncate(&p.describe(), 300)), json!({"project": p.describe()})),
                    Some(m) if *m != decoded => rep.violation(
                        format!("C11/vbuild/tables: table of {k:?}: the build helper writes {:?}, the macro indexes into {:?} :: {}", decoded, m, vmodel::report::truncate(&p.describe(), 300)),
                        json!({"project": p.describe()}),
                    ),
                    _ => {}
                }
            }
            if helper.tables.len() != macro_tables.len() {
                rep.violation(format!("C11/vbuild/tables: {} tables from the build helper, {} in the macro :: {}", helper.tables.len(), macro_tables.len(), vmodel::report::truncate(&p.describe(), 300)), json!({}));
            }
        });
        rep.count("tables_compared_with_macro_parse", *compared.lock().unwrap());
        rep.count("corpus_projects_with_plurals", *with_plural.lock().unwrap());
        if *compared.lock().unwrap() == 0 {
            rep.violation("C11/vbuild/tables: nothing compared".to_string(), json!({}));
        }
    }
    rep.nontriv(strings.len() as u64);
    rep.sample(json!({"strings": ["\u{a0}", "\u{200b}\\", "\"\u{0}"]}));
    let mut cov = serde_json::Map::new();
    cov.insert("rule".into(), json!("the same Unicode sweep as the L1 engine (every scalar value in thorough; all below U+3000, every 7th above and the edges in quick; all pairs over 14 hostile characters; an HTML/JS-hostile mix), flat two-locale and nested + namespaced layouts; TranslationsInfos::parse_at_dir -> get_translations(): translations_formatter() text == bytes written by write_to_dir; the file must parse with serde_json (strict JSON) to a list of strings, each a literal of the project, and for the flat default locale exactly the literal set; every project of the model corpus: the decoded table the helper exports == the strings list of the macro-way parse (parse_locales with the ICU feature checks on), file by file, order included; histories: every sequence of <= 3 exports over 4 variants of one project (long / short texts, fewer / more keys) into the SAME output directory, flat and namespaced: after every export each file is byte for byte the table of the project exported last and strict JSON"));
    cov.insert("exhaustive".into(), json!(tier == Tier::Thorough));
    let _ = std::fs::remove_dir_all(&root);
    rep.finish(cov, &["serde_json is the reference JSON decoder"])
}

// ---------------------------------------------------------------------------------------------
// C09: build-script API on adversarial input
// ---------------------------------------------------------------------------------------------

fn c09(tier: Tier) -> i32 {
    let rep = Reporter::new("C09", "vbuild", tier);
    let root = scratch("c09");
    let inputs = vmodel::adversarial::file_values(tier);
    let classes = Mutex::new(BTreeMap::<String, u64>::new());
    par_for_chunked(inputs.len(), 16, |w, i| {
        let (part, value) = &inputs[i];
        let mut p = Project::new(Config::simple("en", &["en", "fr-CA"]));
        let mk = |loc: &str| {
            vec![
                ("k".to_string(), Val::RawJson(value.clone())),
                ("a".to_string(), st(&format!("[{loc}.a]{{{{x}}}}"))),
                ("b".to_string(), s(vec![fk("a")])),
                ("count".to_string(), st("[count]")),
                ("p_one".to_string(), st("one")),
                ("p_other".to_string(), s(vec![text("other"), var("count")])),
                ("r".to_string(), Val::RawJson("[\"i8\", [\"zero\", 0], [\"pos\", \"1..\"]]".into())),
            ]
        };
        p.set_file(None, "en", mk("en"));
        p.set_file(None, "fr-CA", mk("fr-CA"));
        let dir = root.join(format!("w{w}"));
        let out_dir = root.join(format!("w{w}-out"));
        p.materialise(&dir, JSON).unwrap();
        rep.eval(1);
        let class = match observe(&dir, Some(&out_dir)) {
            Out::Ok(_) => "ok".to_string(),
            Out::Err(e) => {
                if e == "<EMPTY MESSAGE>" {
                    rep.violation(format!("C09/vbuild: error with empty message for {value}"), json!({}));
                }
                "err".to_string()
            }
            Out::Panic(m) => {
                rep.violation(format!("C09/vbuild: PANIC {} :: k = {value}", m.replace('\n', " ")), json!({"value": value}));
                "panic".to_string()
            }
        };
        *classes.lock().unwrap().entry(format!("{part}/{class}")).or_insert(0) += 1;
    });
    // whole files around plural merging and repeated keys
    for (name, content) in vmodel::adversarial::whole_files() {
        for same in [false, true] {
            let mut p = Project::new(Config::simple("en", &["en", "fr"]));
            p.set_file(None, "en", vec![("z".to_string(), st("z"))]);
            p.set_file(None, "fr", vec![]);
            let dir = root.join("w-file");
            let out_dir = root.join("w-file-out");
            p.materialise(&dir, JSON).unwrap();
            std::fs::write(dir.join("locales").join("en.json"), &content).unwrap();
            if same {
                std::fs::write(dir.join("locales").join("fr.json"), &content).unwrap();
            }
            rep.eval(1);
            let class = match observe(&dir, Some(&out_dir)) {
                Out::Ok(_) => "ok",
                Out::Err(_) => "err",
                Out::Panic(m) => {
                    rep.violation(format!("C09/vbuild: PANIC {} :: file {name} ({}) {content}", m.replace('\n', " "), if same { "both locales" } else { "default locale only" }), json!({"file": content}));
                    "panic"
                }
            };
            *classes.lock().unwrap().entry(format!("whole-file/{class}")).or_insert(0) += 1;
        }
    }
    // locale names that are not language identifiers, odd configurations
    for (name, cfg) in [
        ("odd-locale-names", Config::simple("en", &["en", "x_y", "toolongsubtag123", "é"])),
        ("empty-namespaces", Config::simple("en", &["en"]).with_namespaces(&[])),
        ("unlisted-default", Config::simple("it", &["en"])),
    ] {
        let mut p = Project::new(cfg);
        for l in p.cfg.effective_locales() {
            p.set_file(None, &l, vec![("k".into(), st("v"))]);
        }
        let dir = root.join("w-odd");
        p.materialise(&dir, JSON).unwrap();
        rep.eval(1);
        if let Out::Panic(m) = observe(&dir, None) {
            rep.violation(format!("C09/vbuild: PANIC {} :: configuration {name}", m.replace('\n', " ")), json!({}));
        }
    }
    rep.nontriv(classes.lock().unwrap().len() as u64 * 10);
    rep.sample(json!({"value_of_k": inputs[inputs.len() / 2].1}));
    let mut cov = serde_json::Map::new();
    cov.insert("rule".into(), json!("every value of the C09 file pipeline (token strings, character-class edges, range specs, JSON number classes, JSON shapes, foreign-key forms) in a two-locale project through TranslationsInfos::parse_at_dir and, when it loads, every accessor: get_icu_keys, get_locales, get_locales_langids, get_namespaces, get_translations + translations_formatter, write_to_dir, files_paths, build_datagen_driver; oracle: Ok or Err with non-empty message, never a panic; the parser is built with its `quote` feature as in a user's host build"));
    cov.insert("exhaustive".into(), json!(true));
    cov.insert("outcome_classes".into(), json!(*classes.lock().unwrap()));
    let _ = std::fs::remove_dir_all(&root);
    rep.finish(cov, &["get_locales_langids is documented to parse names as language identifiers; it is only called when every configured name is one"])
}

fn main() {
    let args: Vec<String> = std::env::args().collect();
    let tier = Tier::from_env_or_args(&args);
    vmodel::par::quiet_panics();
    let code = match args.get(1).map(|s| s.as_str()).unwrap_or("") {
        "c20" => c20(tier),
        "c11" => c11(tier),
        "c09" => c09(tier),
        _ => {
            eprintln!("usage: vbuild <c20|c11|c09> [--tier quick|thorough]");
            2
        }
    };
    std::process::exit(code);
}
