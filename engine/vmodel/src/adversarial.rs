//! Adversarial inputs shared by the C09 engines (parser, code generator, build helper).

use crate::ast::json_string;
use crate::enumerate::tuples;
use crate::Tier;

pub const TOKENS: [&str; 21] = ["{{", "}}", "{", "}", "<", ">", "/", "</", "$t(", ")", ",", ":", "\"", "a", "b", ".", " ", "\u{3000}", "é", "🎉", "count"];


pub fn token_string(idx: &[usize]) -> String {
    idx.iter().map(|i| TOKENS[*i]).collect()
}

/// decode the i-th string of length `len` (odometer order)
pub fn nth(mut i: usize, len: usize) -> Vec<usize> {
    let mut v = vec![0; len];
    for k in (0..len).rev() {
        v[k] = i % TOKENS.len();
        i /= TOKENS.len();
    }
    v
}

/// small JSON values: wrong types everywhere
pub fn json_shapes(depth: usize) -> Vec<String> {
    let atoms: Vec<String> = ["null", "true", "1", "-1", "1.5", "\"s\"", "\"i8\"", "\"_\"", "\"0..2\"", "\"$t(a)\"", "\"{{x}}\""].iter().map(|s| s.to_string()).collect();
    if depth == 0 {
        return atoms;
    }
    let inner = json_shapes(depth - 1);
    let mut out = atoms.clone();
    out.push("[]".into());
    out.push("{}".into());
    for a in &inner {
        out.push(format!("[{a}]"));
        for k in ["count", "value", "k"] {
            out.push(format!("{{\"{k}\": {a}}}"));
        }
    }
    // pairs over a thinned inner set
    let thin: Vec<&String> = inner.iter().step_by(if depth >= 2 { 9 } else { 1 }).collect();
    for a in &thin {
        for b in &thin {
            out.push(format!("[{a}, {b}]"));
            out.push(format!("{{\"count\": {a}, \"value\": {b}}}"));
        }
    }
    out
}


/// (family, JSON text of the value of key `k`) pairs fed through real files
pub fn file_values(tier: Tier) -> Vec<(String, String)> {
    let file_len = tier.pick(3, 4);
    let mut inputs: Vec<(String, String)> = vec![];
    for len in 0..=file_len {
        for i in 0..TOKENS.len().pow(len as u32) {
            let s = token_string(&nth(i, len));
            inputs.push(("tokens".into(), json_string(&s, false)));
        }
    }
    // ---- (2c) one string per character class edge (controls C0 / DEL / C1, separators, marks, astral), alone, doubled and
    // inside text: whoever writes or cuts these strings counts bytes or characters
    for c in ['\u{0}', '\u{1}', '\u{8}', '\u{1f}', '\u{7f}', '\u{80}', '\u{85}', '\u{9f}', '\u{a0}', '\u{ad}', '\u{300}', '\u{7ff}', '\u{800}', '\u{2028}', '\u{2029}', '\u{d7ff}', '\u{e000}', '\u{feff}', '\u{fffd}', '\u{ffff}', '\u{10000}', '\u{1f600}', '\u{10ffff}'] {
        for t in [format!("{c}"), format!("{c}{c}"), format!("a{c}b"), format!("{c}\""), format!("\\{c}"), format!("é{c}")] {
            inputs.push(("chars".into(), json_string(&t, false)));
        }
    }
    // ---- (2d) values no range branch may hold (null, maps, a nested range) and odd ones (numbers, booleans), in the
    // first / a middle / the fallback branch of a typed and of an untyped range, in the list and in the map form of a
    // branch: refused with an error, or carried through code generation - never a panic later on
    for ty in ["", "\"i8\", "] {
        for bad in ["null", "{}", "{\"a\": \"b\"}", "[[\"x\", 0], [\"y\"]]", "1", "true", "\"\""] {
            for pos in 0..3 {
                let v = |i: usize| if i == pos { bad.to_string() } else { format!("\"t{i} {{{{ count }}}}\"") };
                inputs.push(("range-branch-value".into(), format!("[{ty}[{}, 0], [{}, \"1..3\"], [{}]]", v(0), v(1), v(2))));
                inputs.push(("range-branch-value".into(), format!("[{ty}{{\"count\": 0, \"value\": {}}}, {{\"value\": {}, \"count\": \"1..3\"}}, {{\"value\": {}}}]", v(0), v(1), v(2))));
            }
        }
    }
    // ---- (3) range specifications ---------------------------------------------------------------------
    let spec_toks = ["0", "1", "-", "..", "..=", "|", "_", "NaN", "inf", "1e999", "128", "-129", " "];
    for ty in ["i8", "u8", "f32", "u64"] {
        for len in 0..=tier.pick(3, 4) {
            for t in tuples(spec_toks.len(), len) {
                let spec: String = t.iter().map(|i| spec_toks[*i]).collect();
                inputs.push(("range-spec".into(), format!("[\"{ty}\", [\"x{{{{count}}}}\", \"{spec}\"], [\"y\"]]")));
            }
        }
    }
    // numeric counts of every JSON number class, incl. out of range and huge
    for ty in ["i8", "u8", "i64", "u64", "f32", "f64"] {
        for n in ["0", "-1", "255", "256", "-129", "1.5", "0.5", "-0.1", "1e-3", "2.0", "1e3", "1e400", "-1e400", "18446744073709551615", "18446744073709551616", "-9223372036854775809", "1e-400"] {
            inputs.push(("range-number".into(), format!("[\"{ty}\", [\"x\", {n}], [\"y\"]]")));
            inputs.push(("fk-count".into(), json_string(&format!("$t(r, {{\"count\": {n}}})"), false)));
            // the same literal handed to a plural (cardinal and, through the renamed forms, ordinal)
            inputs.push(("fk-count-plural".into(), json_string(&format!("$t(p, {{\"count\": {n}}})"), false)));
        }
    }
    // ---- (4) wrong JSON types ----------------------------------------------------------------------------
    for sh in json_shapes(tier.pick(2, 3)) {
        inputs.push(("json-shape".into(), sh));
    }
    // ---- (5) foreign keys in every position, unresolvable / cyclic / malformed ---------------------------------
    for t in ["a", "b", "k", "nokey", "p", "count", "a.b", "", ".", ":", "x:a", "a b", "é", "e", "c"] {
        for args in ["", ", {}", ", {\"x\": 1}", ", {\"count\": 1}", ", {\"count\": \"{{ n }}\"}", ", {\"count\": \"x\"}", ", {\"x\": \"$t(k)\"}", ", {\"x\": {}}", ", {x: 1}", ", {\"x\": 1", ", {\"x\": \"\"}", ", }", ", {\"x\": \"é🎉\"}) tail", ", {\"x\":\"}\"})"] {
            for wrap in ["{}", "pre {} post", "<b>{}</b>", "{{{}}}"] {
                let s = wrap.replace("{}", &format!("$t({t}{args})"));
                inputs.push(("fk-forms".into(), json_string(&s, false)));
            }
        }
    }
    inputs
}

/// Whole-file contents (JSON objects) around plural merging and repeated keys: shapes whose handling is spread
/// over the loader, the code generator and the build helper.
pub fn whole_files() -> Vec<(&'static str, String)> {
    let v: Vec<(&'static str, &str)> = vec![
        ("plural-empty-base", r#"{"_one": "a", "_other": "b"}"#),
        ("ordinal-plural-empty-base", r#"{"_ordinal_one": "a", "_ordinal_other": "b"}"#),
        ("cardinal-and-ordinal-form-without-base", r#"{"_one": "a", "_ordinal_one": "b"}"#),
        ("plural-empty-base-in-group", r#"{"g": {"_one": "a", "_other": "b"}, "z": "z"}"#),
        ("plural-base-not-an-identifier", r#"{"1_one": "a", "1_other": "b"}"#),
        ("plural-base-with-dash", r#"{"a-b_one": "a", "a-b_other": "b {{ count }}"}"#),
        ("plural-form-null", r#"{"x_one": null, "x_other": "y"}"#),
        ("plural-other-null", r#"{"x_one": "y", "x_other": null}"#),
        ("plural-all-forms-null", r#"{"items_one": null, "items_other": null, "z": "z"}"#),
        ("plural-form-number", r#"{"x_one": 1, "x_other": "y"}"#),
        ("plural-form-group", r#"{"x_one": {"a": "b"}, "x_other": "y"}"#),
        ("plural-form-range", r#"{"x_one": [["a", 0], ["b"]], "x_other": "y"}"#),
        ("duplicate-key-subkeys-with-fk-then-string", r#"{"a": {"sub": "$t(b)"}, "a": "text", "b": "x"}"#),
        ("duplicate-plural-form-with-fk", r#"{"p_one": "$t(b)", "p_one": "one", "p_other": "o", "b": "x"}"#),
        ("duplicate-nested-group-with-fk", r#"{"g": {"h": {"k": "$t(b)"}}, "g": {"h": 1}, "b": "x"}"#),
        ("key-with-dash-interpolated", r#"{"a-b": "x {{ v }}", "z": "z"}"#),
        ("key-with-dash-component-and-range", r#"{"a-b": "<b>x</b>", "c-d": [["x", 0], ["y {{ count }}"]], "e-f": {"g-h": "{{ v }}"}}"#),
        ("key-empty", r#"{"": "v", "z": "z"}"#),
        ("key-keyword", r#"{"fn": "v", "self": "w", "Self": "x", "crate": "y", "super": "z", "_": "u"}"#),
    ];
    v.into_iter().map(|(n, t)| (n, t.to_string())).collect()
}
