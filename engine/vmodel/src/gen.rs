//! Pure project generators shared by the L1, L2 and L3 engines (no dependency on the subject).

use crate::ast::*;
use crate::enumerate::*;
use crate::Tier;
use std::collections::BTreeMap;

// ---- inheritance / presence patterns (C03) -----------------------------------------------------

#[derive(Clone, Copy, PartialEq, Eq, Debug)]
pub enum Presence {
    Defined,
    Null,
    Absent,
}
pub const PRES: [Presence; 3] = [Presence::Defined, Presence::Null, Presence::Absent];

/// group state in a non-default locale
#[derive(Clone, Copy, PartialEq, Eq, Debug)]
pub enum GroupState {
    Absent,
    Null,
    Sub(Presence, Presence),
}

pub fn group_states() -> Vec<GroupState> {
    let mut v = vec![GroupState::Absent, GroupState::Null];
    for a in PRES {
        for b in PRES {
            v.push(GroupState::Sub(a, b));
        }
    }
    v
}

pub const KINDS: [&str; 9] = ["str", "interp", "range", "plural", "empty", "fkempty", "fkmid", "fkto", "fktop"];

fn value_of_kind(kind: &str, tag: &str, is_default: bool) -> Vec<(String, Val)> {
    // returns the entries to add for key base name "K" (plural adds two)
    match kind {
        // values that are defined but render as nothing: the empty string, and a string made only of a
        // reference to an empty string (the default locale keeps a visible text so that a wrong fallback shows)
        "empty" => vec![("K".into(), if is_default { st(&format!("[{tag}]")) } else { st("") })],
        "fkto" | "fktop" => unreachable!(),
        // a value that itself holds a reference (to `uall`, which every locale writes with its own text): a
        // reference resolved on behalf of another locale must not leave that locale's text here
        "fkmid" => vec![("K".into(), s(vec![text(&format!("[{tag}]")), fk("uall")]))],
        "fkempty" => vec![("K".into(), if is_default { s(vec![text(&format!("[{tag}]")), fk("emp")]) } else { s(vec![fk("emp")]) })],
        "str" => vec![("K".into(), st(&format!("[{tag}]")))],
        "interp" => vec![("K".into(), s(vec![text(&format!("[{tag}]")), var("x"), comp("b", vec![var("y")])]))],
        "range" => vec![(
            "K".into(),
            Val::Range(RangeDecl {
                ty: None,
                branches: vec![
                    Branch { value: Box::new(st(&format!("[{tag}.zero]"))), counts: vec![CountSpec::Int(0)], map_form: false, value_first: false },
                    Branch { value: Box::new(s(vec![text(&format!("[{tag}.many]")), var("count")])), counts: vec![], map_form: false, value_first: false },
                ],
            }),
        )],
        "plural" => vec![
            ("K_one".into(), st(&format!("[{tag}.one]"))),
            ("K_other".into(), s(vec![text(&format!("[{tag}.other]")), var("count")])),
        ],
        _ => unreachable!(),
    }
}

pub fn build_project(locales: &[&str], inherits: &[(String, String)]) -> (Project, u64) {
    let default = locales[0];
    let others = &locales[1..];
    let mut cfg = Config::simple(default, locales);
    cfg.inherits = inherits.to_vec();
    let mut files: Vec<Vec<(String, Val)>> = vec![vec![]; locales.len()];
    let mut n_keys = 0u64;
    // value kinds x presence patterns
    for kind in KINDS {
        for (pi, pat) in tuples(3, others.len()).iter().enumerate() {
            let name = format!("{kind}{pi}");
            n_keys += 1;
            for (li, loc) in locales.iter().enumerate() {
                let pres = if li == 0 { Presence::Defined } else { PRES[pat[li - 1]] };
                if kind == "fktop" {
                    // a key reading `fkmid<pi>` - a value that holds a reference of its own - written wherever the
                    // target is written or null
                    if pres != Presence::Absent {
                        files[li].push((name.clone(), s(vec![text(&format!("[{loc}.{name}]")), fk(&format!("fkmid{pi}"))])));
                    }
                    continue;
                }
                if kind == "fkto" {
                    // a key reading `str<pi>` (same presence pattern) through a reference, written wherever the
                    // target is written or null (a target absent from the file cannot be referenced)
                    if pres != Presence::Absent {
                        files[li].push((name.clone(), s(vec![text(&format!("[{loc}.{name}]")), fk(&format!("str{pi}"))])));
                    }
                    continue;
                }
                match pres {
                    Presence::Defined => {
                        for (k, v) in value_of_kind(kind, &format!("{loc}.{name}"), li == 0) {
                            files[li].push((k.replace('K', &name), v));
                        }
                    }
                    Presence::Null => files[li].push((name.clone(), Val::Null)),
                    Presence::Absent => {}
                }
            }
        }
    }
    // groups
    let gs = group_states();
    for (gi, pat) in tuples(gs.len(), others.len()).iter().enumerate() {
        let name = format!("g{gi}");
        n_keys += 2;
        for (li, loc) in locales.iter().enumerate() {
            let st_ = if li == 0 { GroupState::Sub(Presence::Defined, Presence::Defined) } else { gs[pat[li - 1]] };
            match st_ {
                GroupState::Absent => {}
                GroupState::Null => files[li].push((name.clone(), Val::Null)),
                GroupState::Sub(a, b) => {
                    let mut sub = vec![];
                    for (sk, p) in [("x", a), ("y", b)] {
                        match p {
                            Presence::Defined => sub.push((sk.to_string(), st(&format!("[{loc}.{name}.{sk}]")))),
                            Presence::Null => sub.push((sk.to_string(), Val::Null)),
                            Presence::Absent => {}
                        }
                    }
                    files[li].push((name.clone(), Val::Sub(sub)));
                }
            }
        }
    }
    // one nested group (depth 3) whose middle level is null / absent / partial per locale (rotating)
    for (li, loc) in locales.iter().enumerate() {
        let leaf = |k: &str| (k.to_string(), st(&format!("[{loc}.deep.{k}]")));
        let v = match li % 4 {
            0 => Val::Sub(vec![("m".into(), Val::Sub(vec![leaf("p"), leaf("q")])), leaf("r")]),
            1 => Val::Sub(vec![("m".into(), Val::Null), leaf("r")]),
            2 => Val::Sub(vec![("m".into(), Val::Sub(vec![leaf("q")]))]),
            _ => Val::Sub(vec![leaf("r")]),
        };
        files[li].push(("deep".into(), v));
    }
    n_keys += 3;
    // the empty string every locale defines (target of the "fkempty" keys)
    for f in files.iter_mut() {
        f.push(("emp".into(), st("")));
    }
    n_keys += 1;
    // .. and the text every locale writes in its own words (target of the "fkmid" values)
    for (li, loc) in locales.iter().enumerate() {
        files[li].push(("uall".into(), st(&format!("[{loc}.uall]"))));
    }
    n_keys += 1;
    let mut p = Project::new(cfg);
    for (li, loc) in locales.iter().enumerate() {
        p.set_file(None, loc, std::mem::take(&mut files[li]));
    }
    (p, n_keys)
}

pub fn inherits_maps(locales: &[&str]) -> Vec<Vec<(String, String)>> {
    let others = &locales[1..];
    let mut out = vec![];
    // each non-default locale -> none or any locale (incl. itself and the default)
    for t in tuples(locales.len() + 1, others.len()) {
        let mut m = vec![];
        for (i, o) in others.iter().enumerate() {
            if t[i] > 0 {
                m.push((o.to_string(), locales[t[i] - 1].to_string()));
            }
        }
        out.push(m);
    }
    out
}


// ---- foreign-key chains (C06) --------------------------------------------------------------------

#[derive(Clone, Copy, Debug, PartialEq, Eq)]
pub enum Leaf {
    Text,
    Interp,
    Comp,
    Range,
    Plural,
    Num,
    CountVarOnly,
    /// the empty string: defined, renders as nothing
    Empty,
    /// a float range whose first branch ends exclusively at 1.5
    FRange,
    /// the variable the references address carries a formatter
    Formatted,
}
pub const LEAVES: [Leaf; 10] = [Leaf::Text, Leaf::Interp, Leaf::Comp, Leaf::Range, Leaf::Plural, Leaf::Num, Leaf::CountVarOnly, Leaf::Empty, Leaf::FRange, Leaf::Formatted];

#[derive(Clone, Copy, Debug, PartialEq, Eq)]
pub enum Refk {
    Whole,
    Mid,
    InComp,
    ArgStr,
    ArgNum,
    ArgBool,
    ArgRename,
    ArgFk,
    CountLit,
    CountLit0,
    CountVar,
    Unknown,
    InRange,
    InPlural,
    Two,
    /// a range branch / a plural form made of the reference alone (it may reduce to nothing)
    RangeBranchWhole,
    PluralFormWhole,
    /// a literal float count that is the exclusive end of the float range leaf
    CountLitF,
}
pub const REFS: [Refk; 18] = [
    Refk::Whole,
    Refk::Mid,
    Refk::InComp,
    Refk::ArgStr,
    Refk::ArgNum,
    Refk::ArgBool,
    Refk::ArgRename,
    Refk::ArgFk,
    Refk::CountLit,
    Refk::CountLit0,
    Refk::CountVar,
    Refk::Unknown,
    Refk::InRange,
    Refk::InPlural,
    Refk::Two,
    Refk::RangeBranchWhole,
    Refk::PluralFormWhole,
    Refk::CountLitF,
];

pub fn rbranch(v: Val, counts: Vec<CountSpec>) -> Branch {
    Branch { value: Box::new(v), counts, map_form: false, value_first: false }
}

pub fn leaf_entries(name: &str, leaf: Leaf, tag: &str) -> Vec<(String, Val)> {
    match leaf {
        Leaf::Text => vec![(name.into(), st(&format!("[{tag}]")))],
        Leaf::Interp => vec![(name.into(), s(vec![text(&format!("[{tag}]")), var("x"), text("|"), var_ws("x", 1, 1)]))],
        Leaf::Comp => vec![(name.into(), s(vec![comp("b", vec![text(&format!("[{tag}]")), var("x")])]))],
        Leaf::Range => vec![(
            name.into(),
            Val::Range(RangeDecl {
                ty: None,
                branches: vec![
                    rbranch(s(vec![text(&format!("[{tag}.0]")), var("count"), var("x")]), vec![CountSpec::Int(0)]),
                    rbranch(s(vec![text(&format!("[{tag}.1]")), var("x")]), vec![CountSpec::Str("1..=3".into())]),
                    rbranch(s(vec![text(&format!("[{tag}.fb]")), var("count")]), vec![]),
                ],
            }),
        )],
        Leaf::Plural => vec![
            (format!("{name}_one"), s(vec![text(&format!("[{tag}.one]")), var("count"), var("x")])),
            (format!("{name}_other"), s(vec![text(&format!("[{tag}.other]")), var("count")])),
        ],
        Leaf::Num => vec![(name.into(), Val::UInt(7))],
        Leaf::Empty => vec![(name.into(), st(""))],
        Leaf::Formatted => vec![(name.into(), s(vec![text(&format!("[{tag}]")), var_fmt("x", " number"), text("|"), var_fmt("count", " number(grouping_strategy: never)")]))],
        Leaf::FRange => vec![(
            name.into(),
            Val::Range(RangeDecl {
                ty: Some("f32".into()),
                branches: vec![
                    rbranch(s(vec![text(&format!("[{tag}.lt]")), var("x")]), vec![CountSpec::Str("..1.5".into())]),
                    rbranch(s(vec![text(&format!("[{tag}.mid]")), var("count")]), vec![CountSpec::Str("1.5..=2.5".into())]),
                    rbranch(s(vec![text(&format!("[{tag}.fb]")), var("count")]), vec![]),
                ],
            }),
        )],
        Leaf::CountVarOnly => vec![(name.into(), s(vec![text(&format!("[{tag}]")), var("count"), var("x")]))],
    }
}

/// `path(t)` is what is written inside `$t(..)` for target t.
pub fn ref_entries(name: &str, r: Refk, t: &str, u: &str, tag: &str) -> Vec<(String, Val)> {
    let one = |v: Val| vec![(name.to_string(), v)];
    match r {
        Refk::Whole => one(s(vec![fk(t)])),
        Refk::Mid => one(s(vec![text(&format!("[{tag}<]")), fk(t), text(&format!("[>{tag}]"))])),
        Refk::InComp => one(s(vec![comp("i", vec![fk(t), var("z")])])),
        // (argument texts hold multi-byte characters: the argument part of `$t(..)` is cut out by a scanner of its own)
        Refk::ArgStr => one(s(vec![fk_args(t, vec![("x", FkArg::Str(vec![text(&format!("[arg.é.{tag}]"))]))])])),
        Refk::ArgNum => one(s(vec![fk_args(t, vec![("x", FkArg::Int(-5))])])),
        Refk::ArgBool => one(s(vec![fk_args(t, vec![("x", FkArg::Bool(true))])])),
        Refk::ArgRename => one(s(vec![fk_args(t, vec![("x", FkArg::Str(vec![text("<"), var("y"), text(">")]))])])),
        Refk::ArgFk => one(s(vec![fk_args(t, vec![("x", FkArg::Str(vec![text("（"), fk(u), text("）🎉")]))])])),
        Refk::CountLit => one(s(vec![fk_args(t, vec![("count", FkArg::UInt(1))])])),
        Refk::CountLit0 => one(s(vec![fk_args(t, vec![("count", FkArg::UInt(0)), ("x", FkArg::Str(vec![text("X")]))])])),
        Refk::CountVar => one(s(vec![fk_args(t, vec![("count", FkArg::Str(vec![text(" "), var("n"), text(" ")]))])])),
        Refk::Unknown => one(s(vec![fk_args(t, vec![("nope", FkArg::Str(vec![text("discarded")]))])])),
        Refk::InRange => one(Val::Range(RangeDecl {
            ty: Some("u8".into()),
            branches: vec![rbranch(s(vec![text(&format!("[{tag}.r0]")), fk(t)]), vec![CountSpec::UInt(0)]), rbranch(s(vec![text(&format!("[{tag}.rfb]")), var("count")]), vec![])],
        })),
        Refk::InPlural => vec![
            (format!("{name}_one"), s(vec![text(&format!("[{tag}.pone]")), fk(t)])),
            (format!("{name}_other"), s(vec![text(&format!("[{tag}.pother]")), var("count")])),
        ],
        Refk::Two => one(s(vec![fk(t), text(" & "), fk(u)])),
        Refk::CountLitF => one(s(vec![fk_args(t, vec![("count", FkArg::Float("1.5".into())), ("x", FkArg::Str(vec![text("X")]))])])),
        Refk::RangeBranchWhole => one(Val::Range(RangeDecl {
            ty: Some("u8".into()),
            branches: vec![rbranch(s(vec![fk(t)]), vec![CountSpec::UInt(0)]), rbranch(s(vec![text(&format!("[{tag}.rfb]")), var("count")]), vec![])],
        })),
        Refk::PluralFormWhole => vec![
            (format!("{name}_one"), s(vec![fk(t)])),
            (format!("{name}_other"), s(vec![text(&format!("[{tag}.pother]")), var("count")])),
        ],
    }
}

pub const NAMES: [&str; 4] = ["a", "b", "c", "d"];

/// A chain n0 -> n1 -> .. -> leaf with names assigned by `perm`.
pub fn chain_entries(refs: &[Refk], leaf: Leaf, perm: &[usize], loc: &str, ns_of: &dyn Fn(usize) -> Option<&'static str>) -> Vec<(usize, Vec<(String, Val)>)> {
    let n = refs.len() + 1;
    let name = |i: usize| NAMES[perm[i]];
    let path = |i: usize| match ns_of(i) {
        Some(ns) => format!("{ns}:{}", name(i)),
        None => name(i).to_string(),
    };
    let mut out = vec![];
    for (i, r) in refs.iter().enumerate() {
        out.push((i, ref_entries(name(i), *r, &path(i + 1), &path(n - 1), &format!("{loc}.{}", name(i)))));
    }
    out.push((n - 1, leaf_entries(name(n - 1), leaf, &format!("{loc}.{}", name(n - 1)))));
    out
}


// ---- order variants and the determinism corpus (C10) ----------------------------------------------------

pub const PAYLOADS: [&str; 12] = ["", " ", "  ", "é", "🎉", "\u{a0}", "\"", "\\", "\n", ">", "}", "a b"];

fn permute_entries(e: &[(String, Val)], perm: Option<&[usize]>, nested_rev: bool, flip_range_fields: bool) -> Vec<(String, Val)> {
    let mut out: Vec<(String, Val)> = e
        .iter()
        .map(|(k, v)| {
            let v = match v {
                Val::Sub(s) => {
                    let mut s2 = permute_entries(s, None, nested_rev, flip_range_fields);
                    if nested_rev {
                        s2.reverse();
                    }
                    Val::Sub(s2)
                }
                Val::Range(r) if flip_range_fields => Val::Range(RangeDecl {
                    ty: r.ty.clone(),
                    branches: r.branches.iter().map(|b| Branch { value_first: !b.value_first, ..b.clone() }).collect(),
                }),
                o => o.clone(),
            };
            (k.clone(), v)
        })
        .collect();
    if let Some(p) = perm {
        if p.len() == out.len() {
            out = p.iter().map(|i| out[*i].clone()).collect();
        }
    }
    out
}

pub fn variant(p: &Project, perm_by_len: &BTreeMap<usize, Vec<usize>>, big: usize, nested_rev: bool, flip: bool) -> Project {
    let mut q = p.clone();
    for entries in q.files.values_mut() {
        let n = entries.len();
        let mut e = permute_entries(entries, perm_by_len.get(&n).map(|v| v.as_slice()), nested_rev, flip);
        if !perm_by_len.contains_key(&n) {
            // too many keys for all permutations: reverse / rotate
            match big {
                1 => e.reverse(),
                2 => e.rotate_left(1),
                _ => {}
            }
        }
        *entries = e;
    }
    q
}

pub fn rb(v: Val, counts: Vec<CountSpec>, map_form: bool) -> Branch {
    Branch { value: Box::new(v), counts, map_form, value_first: false }
}

/// The project corpus: small projects of every feature family.
pub fn corpus(tier: Tier) -> Vec<Project> {
    let mut out = vec![];
    let no_ns = |_: usize| -> Option<&'static str> { None };
    // foreign-key chains of depth 1 (and 2 in thorough), single locale and the 4-locale layout
    for depth in 1..=tier.pick(1, 2) {
        for rt in tuples(REFS.len(), depth) {
            if depth == 2 && (rt[0] * 7 + rt[1]) % 5 != 0 {
                continue;
            }
            let refs: Vec<_> = rt.iter().map(|i| REFS[*i]).collect();
            for leaf in LEAVES {
                let perm: Vec<usize> = (0..=depth).collect();
                let mut e = vec![];
                for (_, x) in chain_entries(&refs, leaf, &perm, "en", &no_ns) {
                    e.extend(x);
                }
                let mut p = Project::new(Config::simple("en", &["en", "fr"]));
                let fr: Vec<(String, Val)> = chain_entries(&refs, leaf, &perm, "fr", &no_ns).into_iter().flat_map(|(_, x)| x).collect();
                p.set_file(None, "en", e);
                p.set_file(None, "fr", fr);
                out.push(p);
            }
        }
    }
    // inheritance maps (many keys per file: reverse / rotate variants)
    for (i, m) in inherits_maps(&["en", "fr", "de"]).into_iter().enumerate() {
        if i % tier.pick(5, 2) == 0 {
            out.push(build_project(&["en", "fr", "de"], &m).0);
        }
    }
    // value forests, literals, repeated identical strings (string-table de-duplication), ranges in both syntaxes
    let dup = |l: &str| {
        vec![
            ("a".to_string(), st("same text")),
            ("b".to_string(), s(vec![text("same text"), var("x"), text("same text")])),
            ("c".to_string(), st(&format!("only {l}"))),
            (
                "d".to_string(),
                Val::Range(RangeDecl {
                    ty: Some("u8".into()),
                    branches: vec![rb(st("same text"), vec![CountSpec::UInt(0), CountSpec::Str("5..=7".into())], true), rb(s(vec![text("only "), var("count")]), vec![], true)],
                }),
            ),
            ("e".to_string(), Val::Sub(vec![("x".into(), st("same text")), ("y".into(), Val::UInt(7)), ("z".into(), Val::Bool(false))])),
        ]
    };
    let mut p = Project::new(Config::simple("en", &["en", "fr"]));
    p.set_file(None, "en", dup("en"));
    p.set_file(None, "fr", dup("fr"));
    out.push(p);
    let mut p = Project::new(Config::simple("en", &["en", "fr"]).with_namespaces(&["n1", "n2"]));
    for ns in ["n1", "n2"] {
        p.set_file(Some(ns), "en", dup("en"));
        p.set_file(Some(ns), "fr", dup("fr").into_iter().filter(|(k, _)| k != "c").collect());
    }
    out.push(p);
    for (i, f) in forests(3, &["x"], &["b"]).into_iter().enumerate() {
        if i % tier.pick(3, 1) != 0 {
            continue;
        }
        let mut a = f.clone();
        let mut c = i;
        label_texts(&mut a, "t", &PAYLOADS, &mut c);
        let mut p = Project::new(Config::simple("en", &["en"]));
        p.set_file(None, "en", vec![("k1".into(), s(a)), ("k2".into(), Val::Int(-3)), ("k3".into(), Val::Float("1.5".into())), ("k4_one".into(), st("one")), ("k4_other".into(), st("other"))]);
        out.push(p);
    }
    // ranges of every small shape: 1 / 2 / 3 branches x no type / u8 / f32 x list and map form x the fallback written
    // implicitly or as `_` (a front-end may hand a sequence over with or without a length)
    {
        let mut e = vec![];
        let mut k = 0;
        for ty in [None, Some("u8"), Some("f32")] {
            for n_branches in 1..=3usize {
                for map_form in [false, true] {
                    for underscore in [false, true] {
                        let mut branches = vec![];
                        for b in 0..n_branches - 1 {
                            let spec = if ty == Some("f32") { CountSpec::Float(format!("{b}.5")) } else { CountSpec::UInt(b as u64) };
                            branches.push(rb(s(vec![text(&format!("[r{k}.{b}]")), var("count")]), vec![spec], map_form));
                        }
                        branches.push(rb(st(&format!("[r{k}.fb]")), if underscore { vec![CountSpec::Str("_".into())] } else { vec![] }, map_form));
                        e.push((format!("r{k}"), Val::Range(RangeDecl { ty: ty.map(String::from), branches })));
                        k += 1;
                    }
                }
            }
        }
        // a branch whose counts are a list with the fallback mark in the middle / first / last
        for (i, counts) in [vec![CountSpec::UInt(1), CountSpec::Str("_".into()), CountSpec::UInt(2)], vec![CountSpec::Str("_".into()), CountSpec::UInt(2)], vec![CountSpec::UInt(1), CountSpec::UInt(2), CountSpec::Str("_".into())], vec![CountSpec::Str("1".into()), CountSpec::Str("..".into()), CountSpec::Str("2..5".into())]].into_iter().enumerate() {
            for map_form in [false, true] {
                e.push((format!("rl{i}{}", map_form as u8), Val::Range(RangeDecl { ty: Some("u8".into()), branches: vec![rb(st(&format!("[rl{i}.0]")), vec![CountSpec::UInt(0)], map_form), rb(s(vec![text(&format!("[rl{i}.some]")), var("count")]), counts.clone(), map_form)] })));
            }
        }
        let mut p = Project::new(Config::simple("en", &["en"]));
        p.set_file(None, "en", e);
        out.push(p);
    }
    // several distinct components and variables nested inside one component - directly, in a range branch, in a plural
    // form: whatever collection the generator keeps them in, two processes must emit them in the same order
    {
        let many = |tag: &str| {
            comp(
                "p",
                vec![
                    text(&format!("[{tag}]")),
                    comp("b", vec![var("v1")]),
                    comp("i", vec![var("v2")]),
                    comp("u", vec![text("u")]),
                    comp("em", vec![var("v3")]),
                    comp("s", vec![text("s")]),
                    comp("q", vec![comp("kbd", vec![text("k")]), comp("mark", vec![var("v4")])]),
                ],
            )
        };
        let mut p = Project::new(Config::simple("en", &["en", "fr"]));
        for l in ["en", "fr"] {
            p.set_file(
                None,
                l,
                vec![
                    ("nest".to_string(), s(vec![many(&format!("{l}.nest"))])),
                    ("nest_r".to_string(), Val::Range(RangeDecl { ty: Some("u8".into()), branches: vec![rb(s(vec![many(&format!("{l}.r0"))]), vec![CountSpec::UInt(0)], false), rb(s(vec![many(&format!("{l}.rfb")), var("count")]), vec![], false)] })),
                    ("nest_p_one".to_string(), s(vec![many(&format!("{l}.one"))])),
                    ("nest_p_other".to_string(), s(vec![many(&format!("{l}.other")), var("count")])),
                ],
            );
        }
        out.push(p);
    }
    // plural forms, surplus / missing keys (diagnostics must not depend on order)
    let mut p = Project::new(Config::simple("en", &["en", "fr"]));
    p.set_file(None, "en", vec![("a".into(), st("A")), ("b".into(), st("B")), ("p_one".into(), st("1")), ("p_other".into(), st("n")), ("p_few".into(), st("few"))]);
    p.set_file(None, "fr", vec![("z".into(), st("surplus")), ("b".into(), Val::Null), ("y".into(), st("surplus2")), ("p_many".into(), st("m")), ("p_other".into(), st("n"))]);
    out.push(p);
    // many plural groups that each produce a diagnostic / each are invalid: a per-process iteration order shows
    let mut e = vec![];
    for i in 0..8 {
        e.push((format!("q{i}_one"), st("1")));
        e.push((format!("q{i}_few"), st("never selected in en")));
        e.push((format!("q{i}_other"), st("n")));
    }
    let mut p = Project::new(Config::simple("en", &["en"]));
    p.set_file(None, "en", e);
    out.push(p);
    let mut e = vec![];
    for i in 0..8 {
        e.push((format!("r{i}_one"), st("1")));
        e.push((format!("r{i}_other"), st("n")));
        e.push((format!("r{i}_ordinal_other"), st("nth")));
    }
    let mut p = Project::new(Config::simple("en", &["en"]));
    p.set_file(None, "en", e);
    out.push(p);
    // keys that look like the plural form of a neighbour but merge with nothing (no `_other`): valid in every order
    let mut p = Project::new(Config::simple("en", &["en", "fr"]));
    for l in ["en", "fr"] {
        let mut e = vec![
            ("step".to_string(), st(&format!("[{l}.step]"))),
            ("step_one".to_string(), st(&format!("[{l}.step_one]"))),
            ("page".to_string(), s(vec![text(&format!("[{l}.page]")), var("x")])),
            ("page_one".to_string(), st(&format!("[{l}.page_one]"))),
            ("page_two".to_string(), st(&format!("[{l}.page_two]"))),
            ("z".to_string(), st(&format!("[{l}.z]"))),
            ("z_ordinal_one".to_string(), st(&format!("[{l}.z_ordinal_one]"))),
        ];
        if l == "fr" {
            e.reverse();
        }
        p.set_file(None, l, e);
    }
    out.push(p);
    // .. and one that does merge next to a key of the base name: the same error in every order
    let mut p = Project::new(Config::simple("en", &["en"]));
    p.set_file(None, "en", vec![("item".into(), st("I")), ("item_one".into(), st("1")), ("item_other".into(), st("n")), ("a".into(), st("A"))]);
    out.push(p);
    // configuration content: an unlisted default that an inherits entry names, namespaces, a custom directory
    let mut cfg = Config { default: Some("en".into()), locales: Some(vec!["fr".into(), "de".into()]), ..Default::default() };
    cfg.inherits = vec![("fr".into(), "en".into()), ("de".into(), "fr".into())];
    cfg.locales_dir = Some("l10n".into());
    let mut p = Project::new(cfg.clone());
    for l in ["en", "fr", "de"] {
        p.set_file(None, l, vec![("a".into(), st(&format!("[{l}.a]"))), ("b".into(), if l == "de" { Val::Null } else { st(&format!("[{l}.b]")) })]);
    }
    out.push(p);
    let mut p = Project::new(cfg.with_namespaces(&["n1", "n2"]));
    for ns in ["n1", "n2"] {
        for l in ["en", "fr", "de"] {
            p.set_file(Some(ns), l, vec![("a".into(), st(&format!("[{l}.{ns}.a]")))]);
        }
    }
    out.push(p);
    // error projects: the error must not depend on order either
    let mut p = Project::new(Config::simple("en", &["en"]));
    p.set_file(None, "en", vec![("a".into(), s(vec![fk("b")])), ("b".into(), s(vec![fk("a")])), ("c".into(), s(vec![fk("nokey")]))]);
    out.push(p);
    out
}

