//! Project AST — the source of truth for every generated translation project.
//! Files are produced *from* it (JSON / JSON5 / YAML / Cargo.toml); it is never parsed back,
//! so the oracle never shares a parser with the subject.

use std::collections::BTreeMap;
use std::fmt::Write as _;
use std::path::Path;

// ---------------------------------------------------------------------------------------------
// Values
// ---------------------------------------------------------------------------------------------

#[derive(Clone, Debug, PartialEq)]
pub enum Seg {
    Text(String),
    /// `{{<ws0>name<ws1>}}` or `{{<ws0>name<ws1>,<fmt>}}` (fmt is the raw text after the comma)
    Var { name: String, ws: [u8; 2], fmt: Option<String> },
    /// `<[0]name[1]>children<[2]/[3]name[4]>`
    Comp { name: String, ws: [u8; 5], children: Vec<Seg> },
    /// `$t(path)` / `$t(path, {args})`; `path` is written verbatim (`ns:a.b`)
    Fk { path: String, args: Vec<(String, FkArg)>, ws: u8 },
}

#[derive(Clone, Debug, PartialEq)]
pub enum FkArg {
    Str(Vec<Seg>),
    Int(i64),
    UInt(u64),
    Float(String),
    Bool(bool),
}

#[derive(Clone, Debug, PartialEq)]
pub enum Val {
    Str(Vec<Seg>),
    Int(i64),
    UInt(u64),
    /// canonical lexeme (Rust `Display` of the f64 equals the lexeme)
    Float(String),
    Bool(bool),
    Null,
    Range(RangeDecl),
    Sub(Vec<(String, Val)>),
    /// escape hatch for malformed input (C09): written verbatim as a JSON value
    RawJson(String),
}

#[derive(Clone, Debug, PartialEq)]
pub enum CountSpec {
    Str(String),
    Int(i64),
    UInt(u64),
    Float(String),
}

#[derive(Clone, Debug, PartialEq)]
pub struct Branch {
    pub value: Box<Val>,
    /// empty = fallback
    pub counts: Vec<CountSpec>,
    /// `{ "count": .., "value": .. }` instead of `["value", counts..]`
    pub map_form: bool,
    /// map form only: write `value` before `count`
    pub value_first: bool,
}

#[derive(Clone, Debug, PartialEq)]
pub struct RangeDecl {
    pub ty: Option<String>,
    pub branches: Vec<Branch>,
}

pub fn text(s: &str) -> Seg {
    Seg::Text(s.to_string())
}
pub fn var(name: &str) -> Seg {
    Seg::Var { name: name.to_string(), ws: [0, 0], fmt: None }
}
pub fn var_ws(name: &str, a: u8, b: u8) -> Seg {
    Seg::Var { name: name.to_string(), ws: [a, b], fmt: None }
}
pub fn var_fmt(name: &str, fmt: &str) -> Seg {
    Seg::Var { name: name.to_string(), ws: [1, 0], fmt: Some(fmt.to_string()) }
}
pub fn comp(name: &str, children: Vec<Seg>) -> Seg {
    Seg::Comp { name: name.to_string(), ws: [0; 5], children }
}
pub fn fk(path: &str) -> Seg {
    Seg::Fk { path: path.to_string(), args: vec![], ws: 0 }
}
pub fn fk_args(path: &str, args: Vec<(&str, FkArg)>) -> Seg {
    Seg::Fk { path: path.to_string(), args: args.into_iter().map(|(k, v)| (k.to_string(), v)).collect(), ws: 1 }
}
pub fn s(segs: Vec<Seg>) -> Val {
    Val::Str(segs)
}
pub fn st(t: &str) -> Val {
    Val::Str(vec![text(t)])
}

fn sp(n: u8) -> &'static str {
    match n {
        0 => "",
        1 => " ",
        2 => "  ",
        3 => "\t ",
        // Unicode white space that is not ASCII (no-break space; em space + ideographic space)
        4 => "\u{a0}",
        _ => "\u{2003}\u{3000}",
    }
}

/// The string as the translator writes it (before JSON/YAML escaping).
pub fn segs_source(segs: &[Seg]) -> String {
    let mut out = String::new();
    for seg in segs {
        match seg {
            Seg::Text(t) => out.push_str(t),
            Seg::Var { name, ws, fmt } => {
                out.push_str("{{");
                out.push_str(sp(ws[0]));
                out.push_str(name);
                out.push_str(sp(ws[1]));
                if let Some(f) = fmt {
                    out.push(',');
                    out.push_str(f);
                }
                out.push_str("}}");
            }
            Seg::Comp { name, ws, children } => {
                let _ = write!(out, "<{}{}{}>", sp(ws[0]), name, sp(ws[1]));
                out.push_str(&segs_source(children));
                let _ = write!(out, "<{}/{}{}{}>", sp(ws[2]), sp(ws[3]), name, sp(ws[4]));
            }
            Seg::Fk { path, args, ws } => {
                out.push_str("$t(");
                out.push_str(sp(*ws));
                out.push_str(path);
                if !args.is_empty() {
                    out.push_str(sp(*ws));
                    out.push(',');
                    out.push_str(sp(*ws));
                    out.push('{');
                    for (i, (k, v)) in args.iter().enumerate() {
                        if i > 0 {
                            out.push_str(", ");
                        }
                        out.push_str(&json_string(k, false));
                        out.push_str(": ");
                        match v {
                            FkArg::Str(segs) => out.push_str(&json_string(&segs_source(segs), false)),
                            FkArg::Int(v) => {
                                let _ = write!(out, "{v}");
                            }
                            FkArg::UInt(v) => {
                                let _ = write!(out, "{v}");
                            }
                            FkArg::Float(v) => out.push_str(v),
                            FkArg::Bool(v) => {
                                let _ = write!(out, "{v}");
                            }
                        }
                    }
                    out.push('}');
                    out.push_str(sp(*ws));
                }
                out.push(')');
            }
        }
    }
    out
}

// ---------------------------------------------------------------------------------------------
// Serialisers
// ---------------------------------------------------------------------------------------------

#[derive(Clone, Copy, Debug, PartialEq, Eq, PartialOrd, Ord, Hash)]
pub enum Format {
    Json,
    Json5,
    Yaml,
    /// YAML written with the `.yml` extension
    Yml,
}

impl Format {
    pub fn ext(self) -> &'static str {
        match self {
            Format::Json => "json",
            Format::Json5 => "json5",
            Format::Yaml => "yaml",
            Format::Yml => "yml",
        }
    }
    pub fn name(self) -> &'static str {
        self.ext()
    }
}

/// JSON string literal. `ascii_only` escapes every non-ASCII char as \uXXXX (surrogate pairs).
pub fn json_string(s: &str, ascii_only: bool) -> String {
    let mut out = String::with_capacity(s.len() + 2);
    out.push('"');
    for c in s.chars() {
        match c {
            '"' => out.push_str("\\\""),
            '\\' => out.push_str("\\\\"),
            '\n' => out.push_str("\\n"),
            '\r' => out.push_str("\\r"),
            '\t' => out.push_str("\\t"),
            c if (c as u32) < 0x20 => {
                let _ = write!(out, "\\u{:04x}", c as u32);
            }
            c if ascii_only && !c.is_ascii() => {
                let mut buf = [0u16; 2];
                for u in c.encode_utf16(&mut buf) {
                    let _ = write!(out, "\\u{:04x}", u);
                }
            }
            c => out.push(c),
        }
    }
    out.push('"');
    out
}

fn json5_string(s: &str) -> String {
    // single-quoted JSON5 string
    let mut out = String::with_capacity(s.len() + 2);
    out.push('\'');
    for c in s.chars() {
        match c {
            '\'' => out.push_str("\\'"),
            '\\' => out.push_str("\\\\"),
            '\n' => out.push_str("\\n"),
            '\r' => out.push_str("\\r"),
            '\t' => out.push_str("\\t"),
            '\u{2028}' => out.push_str("\\u2028"),
            '\u{2029}' => out.push_str("\\u2029"),
            c if (c as u32) < 0x20 => {
                let _ = write!(out, "\\u{:04x}", c as u32);
            }
            c => out.push(c),
        }
    }
    out.push('\'');
    out
}

fn yaml_string(s: &str) -> String {
    // double-quoted YAML scalar
    let mut out = String::with_capacity(s.len() + 2);
    out.push('"');
    for c in s.chars() {
        match c {
            '"' => out.push_str("\\\""),
            '\\' => out.push_str("\\\\"),
            '\n' => out.push_str("\\n"),
            '\r' => out.push_str("\\r"),
            '\t' => out.push_str("\\t"),
            '\u{0}' => out.push_str("\\0"),
            c if (c as u32) < 0x20 || c as u32 == 0x7f => {
                let _ = write!(out, "\\x{:02x}", c as u32);
            }
            '\u{85}' => out.push_str("\\N"),
            '\u{a0}' => out.push_str("\\_"),
            '\u{2028}' => out.push_str("\\L"),
            '\u{2029}' => out.push_str("\\P"),
            '\u{feff}' => out.push_str("\\uFEFF"),
            c if (0x80..0xa0).contains(&(c as u32)) => {
                let _ = write!(out, "\\x{:02x}", c as u32);
            }
            c if (0xfffe..=0xffff).contains(&(c as u32)) => {
                let _ = write!(out, "\\u{:04X}", c as u32);
            }
            c => out.push(c),
        }
    }
    out.push('"');
    out
}

fn str_lit(s: &str, f: Format, ascii_only: bool) -> String {
    match f {
        Format::Json => json_string(s, ascii_only),
        Format::Json5 => json5_string(s),
        Format::Yaml | Format::Yml => yaml_string(s),
    }
}

fn is_ident(s: &str) -> bool {
    let mut it = s.chars();
    matches!(it.next(), Some(c) if c.is_ascii_alphabetic() || c == '_') && it.all(|c| c.is_ascii_alphanumeric() || c == '_')
}

#[derive(Clone, Copy, Debug)]
pub struct WriteOpts {
    pub format: Format,
    pub ascii_only: bool,
}

fn count_spec(c: &CountSpec, o: WriteOpts) -> String {
    match c {
        CountSpec::Str(s) => str_lit(s, o.format, o.ascii_only),
        CountSpec::Int(v) => v.to_string(),
        CountSpec::UInt(v) => v.to_string(),
        CountSpec::Float(v) => v.clone(),
    }
}

/// Inline (flow) rendering — valid in all three formats.
fn val_flow(v: &Val, o: WriteOpts) -> String {
    match v {
        Val::Str(segs) => str_lit(&segs_source(segs), o.format, o.ascii_only),
        Val::Int(v) => v.to_string(),
        Val::UInt(v) => v.to_string(),
        Val::Float(v) => v.clone(),
        Val::Bool(v) => v.to_string(),
        Val::Null => "null".to_string(),
        Val::RawJson(s) => s.clone(),
        Val::Range(r) => {
            let mut parts: Vec<String> = vec![];
            if let Some(t) = &r.ty {
                parts.push(str_lit(t, o.format, o.ascii_only));
            }
            for b in &r.branches {
                if b.map_form {
                    let key = |k: &str| match o.format {
                        Format::Json5 => k.to_string(),
                        _ => str_lit(k, o.format, false),
                    };
                    let value = format!("{}: {}", key("value"), val_flow(&b.value, o));
                    let count = if b.counts.is_empty() {
                        None
                    } else if b.counts.len() == 1 {
                        Some(format!("{}: {}", key("count"), count_spec(&b.counts[0], o)))
                    } else {
                        let l: Vec<String> = b.counts.iter().map(|c| count_spec(c, o)).collect();
                        Some(format!("{}: [{}]", key("count"), l.join(", ")))
                    };
                    let fields: Vec<String> = match (count, b.value_first) {
                        (None, _) => vec![value],
                        (Some(c), true) => vec![value, c],
                        (Some(c), false) => vec![c, value],
                    };
                    parts.push(format!("{{{}}}", fields.join(", ")));
                } else {
                    let mut l = vec![val_flow(&b.value, o)];
                    l.extend(b.counts.iter().map(|c| count_spec(c, o)));
                    parts.push(format!("[{}]", l.join(", ")));
                }
            }
            format!("[{}]", parts.join(", "))
        }
        Val::Sub(entries) => {
            let l: Vec<String> = entries
                .iter()
                .map(|(k, v)| format!("{}: {}", key_lit(k, o), val_flow(v, o)))
                .collect();
            format!("{{{}}}", l.join(", "))
        }
    }
}

fn key_lit(k: &str, o: WriteOpts) -> String {
    match o.format {
        Format::Json5 if is_ident(k) => k.to_string(),
        _ => str_lit(k, o.format, o.ascii_only),
    }
}

fn write_map(entries: &[(String, Val)], o: WriteOpts, indent: usize, out: &mut String) {
    match o.format {
        Format::Json | Format::Json5 => {
            out.push_str("{\n");
            for (i, (k, v)) in entries.iter().enumerate() {
                for _ in 0..=indent {
                    out.push_str("  ");
                }
                out.push_str(&key_lit(k, o));
                out.push_str(": ");
                match v {
                    Val::Sub(sub) => write_map(sub, o, indent + 1, out),
                    v => out.push_str(&val_flow(v, o)),
                }
                let last = i + 1 == entries.len();
                if !last || o.format == Format::Json5 {
                    out.push(',');
                }
                out.push('\n');
            }
            for _ in 0..indent {
                out.push_str("  ");
            }
            out.push('}');
        }
        Format::Yaml | Format::Yml => {
            if entries.is_empty() {
                out.push_str("{}\n");
                return;
            }
            for (k, v) in entries {
                for _ in 0..indent {
                    out.push_str("  ");
                }
                out.push_str(&key_lit(k, o));
                out.push(':');
                match v {
                    Val::Sub(sub) if !sub.is_empty() => {
                        out.push('\n');
                        write_map(sub, o, indent + 1, out);
                    }
                    Val::Null => out.push_str(" ~\n"),
                    v => {
                        out.push(' ');
                        out.push_str(&val_flow(v, o));
                        out.push('\n');
                    }
                }
            }
        }
    }
}

pub fn file_text(entries: &[(String, Val)], o: WriteOpts) -> String {
    let mut out = String::new();
    write_map(entries, o, 0, &mut out);
    if !out.ends_with('\n') {
        out.push('\n');
    }
    out
}

// ---------------------------------------------------------------------------------------------
// Configuration + project
// ---------------------------------------------------------------------------------------------

#[derive(Clone, Debug, PartialEq, Default)]
pub struct Config {
    pub default: Option<String>,
    pub locales: Option<Vec<String>>,
    pub namespaces: Option<Vec<String>>,
    pub inherits: Vec<(String, String)>,
    pub locales_dir: Option<String>,
    /// which permutation of the table's fields is written (0 = default order)
    pub field_order: usize,
    /// extra lines inside the [package.metadata.leptos-i18n] table
    pub extra_fields: Vec<String>,
    /// text before / after the i18n table in Cargo.toml
    pub manifest_before: String,
    pub manifest_after: String,
}

impl Config {
    pub fn simple(default: &str, locales: &[&str]) -> Config {
        Config {
            default: Some(default.to_string()),
            locales: Some(locales.iter().map(|s| s.to_string()).collect()),
            ..Default::default()
        }
    }
    pub fn with_inherits(mut self, m: &[(&str, &str)]) -> Config {
        self.inherits = m.iter().map(|(a, b)| (a.to_string(), b.to_string())).collect();
        self
    }
    pub fn with_namespaces(mut self, ns: &[&str]) -> Config {
        self.namespaces = Some(ns.iter().map(|s| s.to_string()).collect());
        self
    }

    /// locale list after the documented normalisation: default first, then the others in order.
    pub fn effective_locales(&self) -> Vec<String> {
        let d = self.default.clone().unwrap_or_default();
        let mut l = self.locales.clone().unwrap_or_default();
        if let Some(i) = l.iter().position(|x| *x == d) {
            l.swap(0, i);
        } else {
            let n = l.len();
            l.push(d);
            l.swap(0, n);
        }
        l
    }

    pub fn inherits_of(&self, loc: &str) -> Option<&str> {
        self.inherits.iter().find(|(k, _)| k == loc).map(|(_, v)| v.as_str())
    }

    pub fn toml_table(&self) -> String {
        let mut t = String::from("[package.metadata.leptos-i18n]\n");
        let q = |s: &str| format!("\"{}\"", s.replace('\\', "\\\\").replace('"', "\\\""));
        let mut lines: Vec<String> = vec![];
        if let Some(d) = &self.default {
            lines.push(format!("default = {}", q(d)));
        }
        if let Some(l) = &self.locales {
            let l: Vec<String> = l.iter().map(|s| q(s)).collect();
            lines.push(format!("locales = [{}]", l.join(", ")));
        }
        if let Some(ns) = &self.namespaces {
            let l: Vec<String> = ns.iter().map(|s| q(s)).collect();
            lines.push(format!("namespaces = [{}]", l.join(", ")));
        }
        if let Some(d) = &self.locales_dir {
            lines.push(format!("locales-dir = {}", q(d)));
        }
        if !self.inherits.is_empty() {
            let l: Vec<String> = self.inherits.iter().map(|(k, v)| format!("{} = {}", q(k), q(v))).collect();
            lines.push(format!("inherits = {{ {} }}", l.join(", ")));
        }
        for e in &self.extra_fields {
            lines.push(e.clone());
        }
        // the order in which the fields are written: the `field_order`-th permutation (0 = as above)
        if self.field_order > 0 && lines.len() > 1 {
            let perms = crate::enumerate::permutations(lines.len().min(6));
            let perm = &perms[self.field_order % perms.len()];
            let head: Vec<String> = perm.iter().map(|i| lines[*i].clone()).collect();
            let tail: Vec<String> = lines.iter().skip(perm.len()).cloned().collect();
            lines = head.into_iter().chain(tail).collect();
        }
        for l in lines {
            let _ = writeln!(t, "{l}");
        }
        t
    }

    pub fn manifest_text(&self) -> String {
        let before = if self.manifest_before.is_empty() {
            "[package]\nname = \"probe\"\nversion = \"0.1.0\"\nedition = \"2021\"\n\n".to_string()
        } else {
            self.manifest_before.clone()
        };
        format!("{}{}{}", before, self.toml_table(), self.manifest_after)
    }
}

pub type FileKey = (Option<String>, String); // (namespace, locale)

#[derive(Clone, Debug, PartialEq, Default)]
pub struct Project {
    pub cfg: Config,
    pub files: BTreeMap<FileKey, Vec<(String, Val)>>,
}

impl Project {
    pub fn new(cfg: Config) -> Project {
        Project { cfg, files: BTreeMap::new() }
    }
    pub fn file(mut self, ns: Option<&str>, loc: &str, entries: Vec<(&str, Val)>) -> Project {
        self.files.insert(
            (ns.map(String::from), loc.to_string()),
            entries.into_iter().map(|(k, v)| (k.to_string(), v)).collect(),
        );
        self
    }
    pub fn set_file(&mut self, ns: Option<&str>, loc: &str, entries: Vec<(String, Val)>) {
        self.files.insert((ns.map(String::from), loc.to_string()), entries);
    }

    pub fn locales_dir(&self) -> String {
        self.cfg.locales_dir.clone().unwrap_or_else(|| "locales".to_string())
    }

    /// Write Cargo.toml + translation files under `dir` (created; existing content removed).
    pub fn materialise(&self, dir: &Path, o: WriteOpts) -> std::io::Result<()> {
        let _ = std::fs::remove_dir_all(dir);
        std::fs::create_dir_all(dir)?;
        std::fs::write(dir.join("Cargo.toml"), self.cfg.manifest_text())?;
        let ldir = dir.join(self.locales_dir());
        std::fs::create_dir_all(&ldir)?;
        for ((ns, loc), entries) in &self.files {
            let p = match ns {
                Some(ns) => {
                    let d = ldir.join(loc);
                    std::fs::create_dir_all(&d)?;
                    d.join(format!("{ns}.{}", o.format.ext()))
                }
                None => ldir.join(format!("{loc}.{}", o.format.ext())),
            };
            std::fs::write(p, file_text(entries, o))?;
        }
        Ok(())
    }

    /// Compact, human-readable, canonical description (used as violation key and in samples).
    pub fn describe(&self) -> String {
        let o = WriteOpts { format: Format::Json, ascii_only: false };
        let mut out = String::new();
        let _ = write!(
            out,
            "cfg{{default={:?} locales={:?}",
            self.cfg.default.as_deref().unwrap_or("<none>"),
            self.cfg.locales.as_deref().unwrap_or(&[])
        );
        if let Some(ns) = &self.cfg.namespaces {
            let _ = write!(out, " namespaces={ns:?}");
        }
        if !self.cfg.inherits.is_empty() {
            let _ = write!(out, " inherits={:?}", self.cfg.inherits);
        }
        if let Some(d) = &self.cfg.locales_dir {
            let _ = write!(out, " dir={d:?}");
        }
        out.push('}');
        for ((ns, loc), entries) in &self.files {
            let name = match ns {
                Some(ns) => format!("{loc}/{ns}"),
                None => loc.clone(),
            };
            let _ = write!(out, " {}={}", name, val_flow(&Val::Sub(entries.clone()), o));
        }
        out
    }
}

pub fn val_json(v: &Val) -> String {
    val_flow(v, WriteOpts { format: Format::Json, ascii_only: false })
}
