//! Size-bounded enumerators: every member of a stated space, simplest first, stable order.

use crate::ast::*;

/// All forests (lists of segment trees) with exactly `n` nodes over
/// Text | Var{vars} | Comp{comps}(children); no two adjacent Text nodes (they are one text).
/// Text nodes are placeholders (empty) to be labelled by `label_texts`.
pub fn forests(n: usize, vars: &[&str], comps: &[&str]) -> Vec<Vec<Seg>> {
    fn go(n: usize, vars: &[&str], comps: &[&str], memo: &mut Vec<Option<Vec<Vec<Seg>>>>) -> Vec<Vec<Seg>> {
        if let Some(Some(v)) = memo.get(n) {
            return v.clone();
        }
        let mut out: Vec<Vec<Seg>> = vec![];
        if n == 0 {
            out.push(vec![]);
        } else {
            // first tree uses k nodes (1..=n), rest forest uses n-k
            for k in 1..=n {
                let mut firsts: Vec<Seg> = vec![];
                if k == 1 {
                    firsts.push(Seg::Text(String::new()));
                    for v in vars {
                        firsts.push(var(v));
                    }
                }
                // component with k-1 nodes inside
                for inner in go(k - 1, vars, comps, memo) {
                    for c in comps {
                        firsts.push(comp(c, inner.clone()));
                    }
                }
                let rests = go(n - k, vars, comps, memo);
                for f in &firsts {
                    for r in &rests {
                        if matches!(f, Seg::Text(_)) && matches!(r.first(), Some(Seg::Text(_))) {
                            continue;
                        }
                        let mut v = Vec::with_capacity(1 + r.len());
                        v.push(f.clone());
                        v.extend(r.iter().cloned());
                        out.push(v);
                    }
                }
            }
        }
        if memo.len() <= n {
            memo.resize(n + 1, None);
        }
        memo[n] = Some(out.clone());
        out
    }
    let mut memo = vec![];
    go(n, vars, comps, &mut memo)
}

/// Give every Text node a self-identifying content: `{pre}[{tag}.{pos}]{post}` where pre/post
/// rotate through `payloads` (so each payload ends up next to every kind of delimiter).
pub fn label_texts(segs: &mut [Seg], tag: &str, payloads: &[&str], counter: &mut usize) {
    for s in segs {
        match s {
            Seg::Text(t) => {
                let p = payloads[*counter % payloads.len()];
                let q = payloads[(*counter / payloads.len() + *counter) % payloads.len()];
                *t = format!("{p}[{tag}.{}]{q}", *counter);
                *counter += 1;
            }
            Seg::Comp { children, .. } => label_texts(children, tag, payloads, counter),
            _ => {}
        }
    }
}

pub fn set_ws(segs: &mut [Seg], comp_ws: [u8; 5], var_ws: [u8; 2]) {
    for s in segs {
        match s {
            Seg::Var { ws, .. } => *ws = var_ws,
            Seg::Comp { ws, children, .. } => {
                *ws = comp_ws;
                set_ws(children, comp_ws, var_ws);
            }
            _ => {}
        }
    }
}

pub fn count_nodes(segs: &[Seg]) -> usize {
    segs.iter()
        .map(|s| match s {
            Seg::Comp { children, .. } => 1 + count_nodes(children),
            _ => 1,
        })
        .sum()
}

/// All `k`-tuples over 0..base (odometer order).
pub fn tuples(base: usize, k: usize) -> Vec<Vec<usize>> {
    let mut out = vec![];
    let mut cur = vec![0; k];
    if base == 0 && k > 0 {
        return out;
    }
    loop {
        out.push(cur.clone());
        let mut i = k;
        loop {
            if i == 0 {
                return out;
            }
            i -= 1;
            cur[i] += 1;
            if cur[i] < base {
                break;
            }
            cur[i] = 0;
        }
    }
}

/// All permutations of 0..n (lexicographic).
pub fn permutations(n: usize) -> Vec<Vec<usize>> {
    fn go(cur: &mut Vec<usize>, used: &mut Vec<bool>, n: usize, out: &mut Vec<Vec<usize>>) {
        if cur.len() == n {
            out.push(cur.clone());
            return;
        }
        for i in 0..n {
            if !used[i] {
                used[i] = true;
                cur.push(i);
                go(cur, used, n, out);
                cur.pop();
                used[i] = false;
            }
        }
    }
    let mut out = vec![];
    go(&mut vec![], &mut vec![false; n], n, &mut out);
    out
}

/// All subsets of 0..n as bitmasks, by increasing size then value.
pub fn subsets(n: usize) -> Vec<u32> {
    let mut v: Vec<u32> = (0..(1u32 << n)).collect();
    v.sort_by_key(|m| (m.count_ones(), *m));
    v
}
