pub mod adversarial;
pub mod ast;
pub mod enumerate;
pub mod fmtspec;
pub mod gen;
pub mod model;
pub mod par;
pub mod report;
pub use report::{Reporter, Tier};
