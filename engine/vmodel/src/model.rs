//! Reference semantics — one boring function per property statement.
//! Shares no code with the subject. ICU4X (CLDR plural rules) is the one trusted common base.

use crate::ast::*;
use std::collections::{BTreeMap, BTreeSet};

// ---------------------------------------------------------------------------------------------
// Plural forms
// ---------------------------------------------------------------------------------------------

#[derive(Clone, Copy, Debug, PartialEq, Eq, PartialOrd, Ord, Hash)]
pub enum Form {
    Zero,
    One,
    Two,
    Few,
    Many,
    Other,
}

pub const FORMS: [Form; 6] = [Form::Zero, Form::One, Form::Two, Form::Few, Form::Many, Form::Other];

impl Form {
    pub fn suffix(self) -> &'static str {
        match self {
            Form::Zero => "zero",
            Form::One => "one",
            Form::Two => "two",
            Form::Few => "few",
            Form::Many => "many",
            Form::Other => "other",
        }
    }
    pub fn from_suffix(s: &str) -> Option<Form> {
        FORMS.iter().copied().find(|f| f.suffix() == s)
    }
    pub fn from_icu(c: icu_plurals::PluralCategory) -> Form {
        use icu_plurals::PluralCategory as C;
        match c {
            C::Zero => Form::Zero,
            C::One => Form::One,
            C::Two => Form::Two,
            C::Few => Form::Few,
            C::Many => Form::Many,
            C::Other => Form::Other,
        }
    }
}

pub fn plural_rules(locale: &str, ordinal: bool) -> Option<icu_plurals::PluralRules> {
    let loc: icu_locid::Locale = locale.parse().ok()?;
    let ty = if ordinal { icu_plurals::PluralRuleType::Ordinal } else { icu_plurals::PluralRuleType::Cardinal };
    icu_plurals::PluralRules::try_new(&loc.into(), ty).ok()
}

/// CLDR category of an integer count.
pub fn category_int(locale: &str, ordinal: bool, n: i128) -> Form {
    let r = plural_rules(locale, ordinal).expect("plural rules");
    let cat = if n >= 0 { r.category_for(n as u64) } else { r.category_for(n as i64) };
    Form::from_icu(cat)
}

pub fn categories(locale: &str, ordinal: bool) -> BTreeSet<Form> {
    plural_rules(locale, ordinal).expect("plural rules").categories().map(Form::from_icu).collect()
}

/// Split `k_one` / `k_ordinal_one` into (base, ordinal, form).
pub fn split_plural_key(key: &str) -> Option<(&str, bool, Form)> {
    let (base, suffix) = key.rsplit_once('_')?;
    let form = Form::from_suffix(suffix)?;
    match base.strip_suffix("_ordinal") {
        Some(b) => Some((b, true, form)),
        None => Some((base, false, form)),
    }
}

// ---------------------------------------------------------------------------------------------
// Merged view of one file (plural forms folded into their base key)
// ---------------------------------------------------------------------------------------------

#[derive(Clone, Debug, PartialEq)]
pub enum MV {
    Val(Val),
    Null,
    Plural { ordinal: bool, forms: BTreeMap<Form, Val> },
    Sub(BTreeMap<String, MV>),
}

#[derive(Clone, Debug, PartialEq, Eq)]
pub enum MergeErr {
    /// cardinal and ordinal forms under one base key
    Conflicting(Vec<String>),
    /// merged plural collides with an existing key
    AtNormalKey(Vec<String>),
    /// the statement does not say what happens (e.g. forms without `_other`, cardinal+ordinal
    /// without a mergeable set): any outcome that keeps or rejects is admitted
    Unspecified(Vec<String>),
}

pub fn merge_map(entries: &[(String, Val)], path: &mut Vec<String>) -> Result<BTreeMap<String, MV>, MergeErr> {
    let mut plain: BTreeMap<String, MV> = BTreeMap::new();
    let mut groups: BTreeMap<String, Vec<(String, bool, Form, Val)>> = BTreeMap::new();
    for (k, v) in entries {
        let k = k.trim().to_string();
        match v {
            Val::Sub(sub) => {
                path.push(k.clone());
                let m = merge_map(sub, path)?;
                path.pop();
                plain.insert(k, MV::Sub(m));
            }
            Val::Range(_) => {
                plain.insert(k, MV::Val(v.clone()));
            }
            other => match split_plural_key(&k) {
                Some((base, ord, form)) => {
                    groups.entry(base.to_string()).or_default().push((k.clone(), ord, form, other.clone()));
                }
                None => {
                    plain.insert(k, if *other == Val::Null { MV::Null } else { MV::Val(other.clone()) });
                }
            },
        }
    }
    for (base, members) in groups {
        let mut p = path.clone();
        p.push(base.clone());
        let has_card = members.iter().any(|m| !m.1);
        let has_ord = members.iter().any(|m| m.1);
        let distinct_forms: BTreeSet<(bool, Form)> = members.iter().map(|m| (m.1, m.2)).collect();
        if members.len() == 1 {
            // a lone suffixed key - `_other` included - has nothing to be merged with: it stays the key it is
            // written as (it is never dropped)
            let (k, _, _form, v) = members.into_iter().next().unwrap();
            plain.insert(k, if v == Val::Null { MV::Null } else { MV::Val(v) });
            continue;
        }
        if has_card && has_ord {
            // mixing is an error when a mergeable set exists; otherwise unspecified
            let has_other = members.iter().any(|m| m.2 == Form::Other);
            if has_other {
                return Err(MergeErr::Conflicting(p));
            }
            return Err(MergeErr::Unspecified(p));
        }
        if distinct_forms.len() != members.len() {
            return Err(MergeErr::Unspecified(p)); // duplicate key after trimming
        }
        if !members.iter().any(|m| m.2 == Form::Other) {
            // no `_other`: nothing to merge into — keys stay as written
            for (k, _, _, v) in members {
                plain.insert(k, if v == Val::Null { MV::Null } else { MV::Val(v) });
            }
            continue;
        }
        if members.iter().any(|m| m.3 == Val::Null) {
            return Err(MergeErr::Unspecified(p));
        }
        if plain.contains_key(&base) {
            return Err(MergeErr::AtNormalKey(p));
        }
        let ordinal = has_ord;
        let forms = members.into_iter().map(|(_, _, f, v)| (f, v)).collect();
        plain.insert(base, MV::Plural { ordinal, forms });
    }
    Ok(plain)
}

// ---------------------------------------------------------------------------------------------
// Resolved value trees
// ---------------------------------------------------------------------------------------------

#[derive(Clone, Debug, PartialEq)]
pub enum R {
    Text(String),
    /// top-level non-string literal, rendered with its canonical lexeme
    Lit(String),
    Var { name: String, fmt: Option<String> },
    Comp { name: String, inner: Vec<R> },
    Range { count: String, ty: NumTy, branches: Vec<(Vec<CountSpec>, Vec<R>)> },
    Plural { count: String, ordinal: bool, locale: String, forms: BTreeMap<Form, Vec<R>> },
}

#[derive(Clone, Debug, PartialEq, Eq)]
pub enum MErr {
    /// the project is rejected: kinds are coarse on purpose (the statement names kinds, not messages)
    Missing { at: String },
    Recursive { at: String },
    InvalidFk { at: String },
    BadCountArg { at: String },
    NoBranch { at: String },
    Merge(MergeErr),
    /// behaviour not fixed by the statements: any outcome but a panic is admitted
    Unspecified { why: String },
}

pub struct Model<'a> {
    pub project: &'a Project,
    pub locales: Vec<String>,
    pub default: String,
    pub merged: BTreeMap<FileKey, Result<BTreeMap<String, MV>, MergeErr>>,
}

pub fn split_fk_path(path: &str) -> (Option<String>, Vec<String>) {
    let (ns, rest) = match path.split_once(':') {
        Some((ns, rest)) => (Some(ns.trim().to_string()), rest),
        None => (None, path),
    };
    (ns, rest.split('.').map(|s| s.trim().to_string()).collect())
}

impl<'a> Model<'a> {
    pub fn new(project: &'a Project) -> Model<'a> {
        let locales = project.cfg.effective_locales();
        let default = locales[0].clone();
        let mut merged = BTreeMap::new();
        for (k, entries) in &project.files {
            let mut ns_path = vec![];
            if let Some(ns) = &k.0 {
                ns_path.push(format!("{ns}::"));
            }
            merged.insert(k.clone(), merge_map(entries, &mut ns_path));
        }
        Model { project, locales, default, merged }
    }

    pub fn namespaces(&self) -> Vec<Option<String>> {
        match &self.project.cfg.namespaces {
            Some(ns) => ns.iter().cloned().map(Some).collect(),
            None => vec![None],
        }
    }

    pub fn first_merge_err(&self) -> Option<MergeErr> {
        // deterministic order: namespace order of the config, then locale order
        for ns in self.namespaces() {
            for loc in &self.locales {
                if let Some(Err(e)) = self.merged.get(&(ns.clone(), loc.clone())) {
                    return Some(e.clone());
                }
            }
        }
        None
    }

    pub fn tree(&self, ns: &Option<String>, loc: &str) -> Option<&BTreeMap<String, MV>> {
        self.merged.get(&(ns.clone(), loc.to_string()))?.as_ref().ok()
    }

    /// value at `path` in the file of `loc` — None when absent, `null`, or below a `null`/absent group
    pub fn get_raw(&self, ns: &Option<String>, loc: &str, path: &[String]) -> Option<&MV> {
        let mut cur = self.tree(ns, loc)?;
        for (i, k) in path.iter().enumerate() {
            let v = cur.get(k)?;
            if i + 1 == path.len() {
                return Some(v);
            }
            match v {
                MV::Sub(m) => cur = m,
                _ => return None,
            }
        }
        None
    }

    pub fn defines(&self, ns: &Option<String>, loc: &str, path: &[String]) -> bool {
        !matches!(self.get_raw(ns, loc, path), None | Some(MV::Null))
    }

    /// C03: first locale along the `inherits` chain that defines the key, else the default.
    pub fn effective_locale(&self, ns: &Option<String>, loc: &str, path: &[String]) -> String {
        let mut cur = loc.to_string();
        let mut visited = BTreeSet::new();
        loop {
            if cur == self.default {
                return cur;
            }
            if self.defines(ns, &cur, path) {
                return cur;
            }
            visited.insert(cur.clone());
            match self.project.cfg.inherits_of(&cur) {
                Some(n) if !visited.contains(n) => cur = n.to_string(),
                _ => return self.default.clone(),
            }
        }
    }

    /// Leaf key paths of the default locale (after plural merging): the accessible key set.
    pub fn default_keys(&self, ns: &Option<String>) -> Vec<Vec<String>> {
        fn walk(m: &BTreeMap<String, MV>, pre: &mut Vec<String>, out: &mut Vec<Vec<String>>) {
            for (k, v) in m {
                pre.push(k.clone());
                match v {
                    MV::Sub(s) => walk(s, pre, out),
                    _ => out.push(pre.clone()),
                }
                pre.pop();
            }
        }
        let mut out = vec![];
        if let Some(t) = self.tree(ns, &self.default) {
            walk(t, &mut vec![], &mut out);
        }
        out
    }

    fn at(ns: &Option<String>, loc: &str, path: &[String]) -> String {
        format!("{}{}@{}", ns.as_ref().map(|n| format!("{n}:")).unwrap_or_default(), path.join("."), loc)
    }

    /// Resolve the key as rendered for `loc`: value of the effective locale, foreign keys substituted.
    pub fn resolve(&self, ns: &Option<String>, loc: &str, path: &[String]) -> Result<Vec<R>, MErr> {
        let mut stack = vec![];
        self.resolve_in(ns, loc, path, &mut stack)
    }

    fn resolve_in(
        &self,
        ns: &Option<String>,
        loc: &str,
        path: &[String],
        stack: &mut Vec<(Option<String>, String, Vec<String>)>,
    ) -> Result<Vec<R>, MErr> {
        let eff = self.effective_locale(ns, loc, path);
        let frame = (ns.clone(), eff.clone(), path.to_vec());
        if stack.contains(&frame) {
            return Err(MErr::Recursive { at: Self::at(ns, loc, path) });
        }
        let Some(mv) = self.get_raw(ns, &eff, path) else {
            return Err(MErr::Missing { at: Self::at(ns, loc, path) });
        };
        stack.push(frame);
        let r = match mv {
            MV::Null => Err(MErr::Missing { at: Self::at(ns, loc, path) }),
            MV::Sub(_) => Err(MErr::InvalidFk { at: Self::at(ns, loc, path) }),
            MV::Val(v) => self.resolve_val(v, ns, &eff, stack),
            MV::Plural { ordinal, forms } => {
                let mut out = BTreeMap::new();
                let mut err = None;
                for (f, v) in forms {
                    match self.resolve_val(v, ns, &eff, stack) {
                        Ok(r) => {
                            out.insert(*f, r);
                        }
                        Err(e) => {
                            err = Some(e);
                            break;
                        }
                    }
                }
                match err {
                    Some(e) => Err(e),
                    // a literal count supplied by a reference written in `loc`'s file is classified by the
                    // rules of `loc` (the locale being rendered), wherever the forms were inherited from
                    None => Ok(vec![R::Plural { count: "count".into(), ordinal: *ordinal, locale: loc.to_string(), forms: out }]),
                }
            }
        };
        stack.pop();
        r
    }

    fn resolve_val(
        &self,
        v: &Val,
        ns: &Option<String>,
        loc: &str,
        stack: &mut Vec<(Option<String>, String, Vec<String>)>,
    ) -> Result<Vec<R>, MErr> {
        match v {
            Val::Str(segs) => self.resolve_segs(segs, ns, loc, stack),
            Val::Int(v) => Ok(vec![R::Lit(v.to_string())]),
            Val::UInt(v) => Ok(vec![R::Lit(v.to_string())]),
            // a float literal is shown the way Rust displays the f64 it denotes ("20.0" -> "20", "2e20" -> "200000000000000000000")
            Val::Float(v) => Ok(vec![R::Lit(v.parse::<f64>().map(|f| f.to_string()).unwrap_or_else(|_| v.clone()))]),
            Val::Bool(v) => Ok(vec![R::Lit(v.to_string())]),
            Val::Range(r) => {
                let ty = match &r.ty {
                    Some(t) => NumTy::from_name(t.trim()).ok_or(MErr::Unspecified { why: "bad range type".into() })?,
                    None => NumTy::I32,
                };
                let mut branches = vec![];
                for b in &r.branches {
                    branches.push((b.counts.clone(), self.resolve_val(&b.value, ns, loc, stack)?));
                }
                Ok(vec![R::Range { count: "count".into(), ty, branches }])
            }
            Val::Null | Val::Sub(_) | Val::RawJson(_) => Err(MErr::Unspecified { why: "not a value".into() }),
        }
    }

    fn resolve_segs(
        &self,
        segs: &[Seg],
        ns: &Option<String>,
        loc: &str,
        stack: &mut Vec<(Option<String>, String, Vec<String>)>,
    ) -> Result<Vec<R>, MErr> {
        let mut out = vec![];
        for seg in segs {
            match seg {
                Seg::Text(t) => out.push(R::Text(t.clone())),
                Seg::Var { name, fmt, .. } => out.push(R::Var { name: name.clone(), fmt: fmt.clone() }),
                Seg::Comp { name, children, .. } => {
                    out.push(R::Comp { name: name.clone(), inner: self.resolve_segs(children, ns, loc, stack)? })
                }
                Seg::Fk { path, args, .. } => {
                    let (tns, tpath) = split_fk_path(path);
                    // with namespaces the namespace must be written; without, it must not
                    if tns.is_some() != self.project.cfg.namespaces.is_some() {
                        return Err(MErr::Missing { at: format!("{path}@{loc}") });
                    }
                    // documented: an *implicitly* defaulted target (absent from this locale's file)
                    // cannot be referenced; `null` (explicit) can.
                    if loc != self.default && self.get_raw(&tns, loc, &tpath).is_none() {
                        return Err(MErr::Missing { at: format!("{path}@{loc}") });
                    }
                    let target = self.resolve_in(&tns, loc, &tpath, stack)?;
                    let mut rargs: BTreeMap<String, ArgR> = BTreeMap::new();
                    for (k, a) in args {
                        let v = match a {
                            FkArg::Str(s) => ArgR::Segs(self.resolve_segs(s, ns, loc, stack)?),
                            FkArg::Int(v) => ArgR::Num(Num::I(*v as i128), v.to_string()),
                            FkArg::UInt(v) => ArgR::Num(Num::I(*v as i128), v.to_string()),
                            FkArg::Float(v) => ArgR::Num(Num::F(v.parse().unwrap()), v.clone()),
                            FkArg::Bool(v) => ArgR::Segs(vec![R::Lit(v.to_string())]),
                        };
                        rargs.insert(k.trim().to_string(), v);
                    }
                    out.extend(substitute(&target, &rargs, &format!("{path}@{loc}"))?);
                }
            }
        }
        Ok(out)
    }
}

#[derive(Clone, Debug, PartialEq)]
pub enum ArgR {
    Segs(Vec<R>),
    Num(Num, String),
}

/// Pure substitution of `args` into a resolved tree.
pub fn substitute(target: &[R], args: &BTreeMap<String, ArgR>, at: &str) -> Result<Vec<R>, MErr> {
    let mut out = vec![];
    for r in target {
        match r {
            R::Text(_) | R::Lit(_) => out.push(r.clone()),
            R::Var { name, .. } => match args.get(name) {
                Some(ArgR::Segs(s)) => out.extend(s.iter().cloned()),
                Some(ArgR::Num(n, lex)) => out.push(R::Lit(match n {
                    Num::I(_) => lex.clone(),
                    // a float literal is shown the way Rust displays the f64 it denotes
                    Num::F(f) => f.to_string(),
                })),
                None => out.push(r.clone()),
            },
            R::Comp { name, inner } => out.push(R::Comp { name: name.clone(), inner: substitute(inner, args, at)? }),
            R::Range { count, ty, branches } => {
                // an argument replaces "the variable of that name": the count variable is addressed by
                // its current name (`count` unless an earlier reference renamed it)
                match args.get(count.as_str()) {
                    None => {
                        let mut b2 = vec![];
                        for (c, v) in branches {
                            b2.push((c.clone(), substitute(v, args, at)?));
                        }
                        out.push(R::Range { count: count.clone(), ty: *ty, branches: b2 });
                    }
                    Some(ArgR::Num(n, _)) => {
                        if ty.is_float() && matches!(n, Num::I(_)) {
                            // an integer literal for a float range: the loader rejects it with a
                            // descriptive error; the statement does not say it must be accepted
                            return Err(MErr::Unspecified { why: "integer literal count for a float range".into() });
                        }
                        let n = match ty.coerce(*n) {
                            Ok(n) => n,
                            Err(()) => return Err(MErr::BadCountArg { at: at.to_string() }),
                        };
                        let mut chosen = None;
                        for (c, v) in branches {
                            match branch_contains(*ty, c, n) {
                                Ok(true) => {
                                    chosen = Some(v);
                                    break;
                                }
                                Ok(false) => {}
                                Err(_) => return Err(MErr::Unspecified { why: "bad spec".into() }),
                            }
                        }
                        match chosen {
                            Some(v) => out.extend(substitute(v, args, at)?),
                            None => return Err(MErr::NoBranch { at: at.to_string() }),
                        }
                    }
                    Some(ArgR::Segs(s)) => {
                        let new = single_var(s).ok_or(MErr::BadCountArg { at: at.to_string() })?;
                        let mut b2 = vec![];
                        for (c, v) in branches {
                            b2.push((c.clone(), substitute(v, args, at)?));
                        }
                        out.push(R::Range { count: new, ty: *ty, branches: b2 });
                    }
                }
            }
            R::Plural { count, ordinal, locale, forms } => match args.get(count.as_str()) {
                None => {
                    let mut f2 = BTreeMap::new();
                    for (f, v) in forms {
                        f2.insert(*f, substitute(v, args, at)?);
                    }
                    out.push(R::Plural { count: count.clone(), ordinal: *ordinal, locale: locale.clone(), forms: f2 });
                }
                Some(ArgR::Num(n, _)) => {
                    let cat = match n {
                        Num::I(i) => category_int(locale, *ordinal, *i),
                        Num::F(f) => category_float(locale, *ordinal, *f),
                    };
                    let v = forms.get(&cat).unwrap_or_else(|| &forms[&Form::Other]);
                    out.extend(substitute(v, args, at)?);
                }
                Some(ArgR::Segs(s)) => {
                    let new = single_var(s).ok_or(MErr::BadCountArg { at: at.to_string() })?;
                    let mut f2 = BTreeMap::new();
                    for (f, v) in forms {
                        f2.insert(*f, substitute(v, args, at)?);
                    }
                    out.push(R::Plural { count: new, ordinal: *ordinal, locale: locale.clone(), forms: f2 });
                }
            },
        }
    }
    Ok(out)
}

pub fn category_float(locale: &str, ordinal: bool, f: f64) -> Form {
    let r = plural_rules(locale, ordinal).expect("plural rules");
    let d = fixed_decimal::FixedDecimal::try_from_f64(f, fixed_decimal::FloatPrecision::Floating).expect("finite");
    Form::from_icu(r.category_for(&d))
}

/// The run-time category is decided by the locale being rendered (C05), whatever locale the
/// forms were written in.
pub fn set_plural_locale(rs: &mut [R], loc: &str) {
    for r in rs {
        match r {
            R::Comp { inner, .. } => set_plural_locale(inner, loc),
            R::Range { branches, .. } => {
                for (_, v) in branches {
                    set_plural_locale(v, loc);
                }
            }
            R::Plural { locale, forms, .. } => {
                *locale = loc.to_string();
                for v in forms.values_mut() {
                    set_plural_locale(v, loc);
                }
            }
            _ => {}
        }
    }
}

/// `  {{ n }}  ` -> n
fn single_var(s: &[R]) -> Option<String> {
    let mut name = None;
    for r in s {
        match r {
            R::Text(t) if t.trim().is_empty() => {}
            R::Var { name: n, .. } if name.is_none() => name = Some(n.clone()),
            _ => return None,
        }
    }
    name
}

// ---------------------------------------------------------------------------------------------
// Numbers and count specifications (C04)
// ---------------------------------------------------------------------------------------------

#[derive(Clone, Copy, Debug, PartialEq, Eq, PartialOrd, Ord, Hash)]
pub enum NumTy {
    I8,
    I16,
    I32,
    I64,
    U8,
    U16,
    U32,
    U64,
    F32,
    F64,
}

pub const NUM_TYS: [NumTy; 10] =
    [NumTy::I8, NumTy::I16, NumTy::I32, NumTy::I64, NumTy::U8, NumTy::U16, NumTy::U32, NumTy::U64, NumTy::F32, NumTy::F64];

#[derive(Clone, Copy, Debug, PartialEq, PartialOrd)]
pub enum Num {
    I(i128),
    F(f64),
}

impl NumTy {
    pub fn name(self) -> &'static str {
        match self {
            NumTy::I8 => "i8",
            NumTy::I16 => "i16",
            NumTy::I32 => "i32",
            NumTy::I64 => "i64",
            NumTy::U8 => "u8",
            NumTy::U16 => "u16",
            NumTy::U32 => "u32",
            NumTy::U64 => "u64",
            NumTy::F32 => "f32",
            NumTy::F64 => "f64",
        }
    }
    pub fn from_name(s: &str) -> Option<NumTy> {
        NUM_TYS.iter().copied().find(|t| t.name() == s)
    }
    pub fn is_float(self) -> bool {
        matches!(self, NumTy::F32 | NumTy::F64)
    }
    pub fn min_max(self) -> (i128, i128) {
        match self {
            NumTy::I8 => (i8::MIN as i128, i8::MAX as i128),
            NumTy::I16 => (i16::MIN as i128, i16::MAX as i128),
            NumTy::I32 => (i32::MIN as i128, i32::MAX as i128),
            NumTy::I64 => (i64::MIN as i128, i64::MAX as i128),
            NumTy::U8 => (0, u8::MAX as i128),
            NumTy::U16 => (0, u16::MAX as i128),
            NumTy::U32 => (0, u32::MAX as i128),
            NumTy::U64 => (0, u64::MAX as i128),
            NumTy::F32 | NumTy::F64 => (0, 0),
        }
    }
    /// Parse a number of this type the way Rust does (`str::parse::<T>`).
    pub fn parse(self, s: &str) -> Option<Num> {
        Some(match self {
            NumTy::I8 => Num::I(s.parse::<i8>().ok()? as i128),
            NumTy::I16 => Num::I(s.parse::<i16>().ok()? as i128),
            NumTy::I32 => Num::I(s.parse::<i32>().ok()? as i128),
            NumTy::I64 => Num::I(s.parse::<i64>().ok()? as i128),
            NumTy::U8 => Num::I(s.parse::<u8>().ok()? as i128),
            NumTy::U16 => Num::I(s.parse::<u16>().ok()? as i128),
            NumTy::U32 => Num::I(s.parse::<u32>().ok()? as i128),
            NumTy::U64 => Num::I(s.parse::<u64>().ok()? as i128),
            NumTy::F32 => Num::F(s.parse::<f32>().ok()? as f64),
            NumTy::F64 => Num::F(s.parse::<f64>().ok()?),
        })
    }
    /// A literal count (from a foreign-key argument or a numeric count spec) as a value of this type.
    pub fn coerce(self, n: Num) -> Result<Num, ()> {
        match (self.is_float(), n) {
            (false, Num::I(i)) => {
                let (lo, hi) = self.min_max();
                if i < lo || i > hi {
                    Err(())
                } else {
                    Ok(Num::I(i))
                }
            }
            (false, Num::F(_)) => Err(()),
            (true, Num::I(i)) => Ok(Num::F(if self == NumTy::F32 { i as f32 as f64 } else { i as f64 })),
            (true, Num::F(f)) => Ok(Num::F(if self == NumTy::F32 { f as f32 as f64 } else { f })),
        }
    }
}

#[derive(Clone, Debug, PartialEq)]
pub enum Spec1 {
    Exact(Num),
    /// lo (inclusive) .. hi (value, inclusive?)
    Range { lo: Option<Num>, hi: Option<(Num, bool)> },
    Fallback,
}

#[derive(Clone, Debug, PartialEq, Eq)]
pub enum SpecErr {
    /// must be rejected (number does not parse for the type, wrong numeric kind)
    Invalid,
    /// may be rejected or accepted-as-empty (empty / inverted range)
    EmptyRange,
}

pub fn parse_spec_str(ty: NumTy, s: &str) -> Result<Vec<Spec1>, SpecErr> {
    let s = s.trim();
    if s == "_" || s == ".." {
        return Ok(vec![Spec1::Fallback]);
    }
    let mut out = vec![];
    let mut empty = false;
    for alt in s.split('|') {
        let alt = alt.trim();
        if alt == "_" || alt == ".." {
            out.push(Spec1::Fallback);
            continue;
        }
        if let Some((lo, hi)) = alt.split_once("..") {
            let lo = lo.trim();
            let lo = if lo.is_empty() { None } else { Some(ty.parse(lo).ok_or(SpecErr::Invalid)?) };
            let hi = hi.trim();
            let hi = if hi.is_empty() {
                None
            } else if let Some(h) = hi.strip_prefix('=') {
                Some((ty.parse(h.trim()).ok_or(SpecErr::Invalid)?, true))
            } else {
                Some((ty.parse(hi).ok_or(SpecErr::Invalid)?, false))
            };
            // emptiness in the Rust sense
            let is_empty = match (lo, hi) {
                (Some(l), Some((h, true))) => h < l,
                (Some(l), Some((h, false))) => h <= l,
                (None, Some((h, false))) => match (ty.is_float(), h) {
                    (false, Num::I(h)) => h <= ty.min_max().0,
                    _ => false,
                },
                _ => false,
            };
            if is_empty {
                empty = true;
            }
            out.push(Spec1::Range { lo, hi });
        } else {
            out.push(Spec1::Exact(ty.parse(alt).ok_or(SpecErr::Invalid)?));
        }
    }
    if empty {
        return Err(SpecErr::EmptyRange);
    }
    Ok(out)
}

pub fn parse_count_spec(ty: NumTy, c: &CountSpec) -> Result<Vec<Spec1>, SpecErr> {
    match c {
        CountSpec::Str(s) => parse_spec_str(ty, s),
        CountSpec::Int(v) => ty.coerce(Num::I(*v as i128)).map(|n| vec![Spec1::Exact(n)]).map_err(|_| SpecErr::Invalid),
        CountSpec::UInt(v) => ty.coerce(Num::I(*v as i128)).map(|n| vec![Spec1::Exact(n)]).map_err(|_| SpecErr::Invalid),
        CountSpec::Float(v) => {
            ty.coerce(Num::F(v.parse().map_err(|_| SpecErr::Invalid)?)).map(|n| vec![Spec1::Exact(n)]).map_err(|_| SpecErr::Invalid)
        }
    }
}

pub fn spec_contains(s: &Spec1, n: Num) -> bool {
    match s {
        Spec1::Fallback => true,
        Spec1::Exact(v) => *v == n,
        Spec1::Range { lo, hi } => {
            if let Some(l) = lo {
                if !(n >= *l) {
                    return false;
                }
            }
            match hi {
                None => true,
                Some((h, true)) => n <= *h,
                Some((h, false)) => n < *h,
            }
        }
    }
}

/// Does the branch (list of count specs; empty = fallback) contain `n`?
pub fn branch_contains(ty: NumTy, counts: &[CountSpec], n: Num) -> Result<bool, SpecErr> {
    if counts.is_empty() {
        return Ok(true);
    }
    let mut any = false;
    for c in counts {
        for s in parse_count_spec(ty, c)? {
            if spec_contains(&s, n) {
                any = true;
            }
        }
    }
    Ok(any)
}

pub fn branch_is_fallback(ty: NumTy, counts: &[CountSpec]) -> bool {
    counts.is_empty()
        || counts.iter().any(|c| matches!(parse_count_spec(ty, c), Ok(v) if v.contains(&Spec1::Fallback)))
}

// ---------------------------------------------------------------------------------------------
// Rendering
// ---------------------------------------------------------------------------------------------

#[derive(Clone, Debug, Default)]
pub struct Env {
    pub vars: BTreeMap<String, String>,
    /// value of every count variable (by variable name); missing -> `default_count`
    pub counts: BTreeMap<String, Num>,
    pub default_count: Option<Num>,
    /// render components as real `<b>..</b>` tags (what the `&str` DisplayComponent and the probe's
    /// view components produce) instead of the evaluator's distinct brackets
    pub html_tags: bool,
    /// leptos SSR renders an empty text node as a single space: `<b></b>` comes out as `<b> </b>`, a value that is the empty string as ` `
    pub empty_child_space: bool,
}

pub fn num_display(ty: Option<NumTy>, n: Num) -> String {
    match n {
        Num::I(i) => i.to_string(),
        Num::F(f) => match ty {
            Some(NumTy::F32) => (f as f32).to_string(),
            _ => f.to_string(),
        },
    }
}

impl Env {
    pub fn marker() -> Env {
        Env::default()
    }
    pub fn count_of(&self, name: &str) -> Option<Num> {
        self.counts.get(name).copied().or(self.default_count)
    }
    /// text shown for `{{ name }}`: supplied value, else a self-identifying marker
    pub fn var_text(&self, name: &str) -> String {
        match self.vars.get(name) {
            Some(v) => v.clone(),
            None => format!("\u{ab}{name}\u{bb}"),
        }
    }
}

#[derive(Clone, Debug, PartialEq, Eq)]
pub enum RenderErr {
    NoBranch,
    BadSpec,
    NoCount(String),
}

pub fn render(rs: &[R], env: &Env) -> Result<String, RenderErr> {
    let mut out = String::new();
    render_into(rs, env, &BTreeMap::new(), &mut out)?;
    // leptos SSR writes an empty text node as one space (also when the whole value is the empty string)
    if env.empty_child_space && out.is_empty() {
        out.push(' ');
    }
    Ok(out)
}

fn render_into(rs: &[R], env: &Env, count_tys: &BTreeMap<String, (NumTy, Num)>, out: &mut String) -> Result<(), RenderErr> {
    for r in rs {
        match r {
            R::Text(t) => out.push_str(t),
            R::Lit(t) => out.push_str(t),
            R::Var { name, .. } => {
                if let Some((ty, n)) = count_tys.get(name) {
                    out.push_str(&num_display(Some(*ty), *n));
                } else if let (false, Some(n)) = (env.vars.contains_key(name), env.counts.get(name)) {
                    out.push_str(&num_display(None, *n));
                } else {
                    out.push_str(&env.var_text(name));
                }
            }
            R::Comp { name, inner } => {
                // distinct brackets: a component is not the same thing as literal "<b>" text
                let (o, c) = if env.html_tags { ('<', '>') } else { ('\u{2039}', '\u{203a}') };
                out.push(o);
                out.push_str(name);
                out.push(c);
                let before = out.len();
                render_into(inner, env, count_tys, out)?;
                if env.empty_child_space && out.len() == before {
                    out.push(' ');
                }
                out.push(o);
                out.push('/');
                out.push_str(name);
                out.push(c);
            }
            R::Range { count, ty, branches } => {
                let n = env.count_of(count).ok_or_else(|| RenderErr::NoCount(count.clone()))?;
                let n = ty.coerce(n).map_err(|_| RenderErr::NoCount(count.clone()))?;
                let mut tys = count_tys.clone();
                tys.insert(count.clone(), (*ty, n));
                let mut done = false;
                for (c, v) in branches {
                    if branch_contains(*ty, c, n).map_err(|_| RenderErr::BadSpec)? {
                        render_into(v, env, &tys, out)?;
                        done = true;
                        break;
                    }
                }
                if !done {
                    return Err(RenderErr::NoBranch);
                }
            }
            R::Plural { count, ordinal, locale, forms } => {
                let n = env.count_of(count).ok_or_else(|| RenderErr::NoCount(count.clone()))?;
                let cat = match n {
                    Num::I(i) => category_int(locale, *ordinal, i),
                    Num::F(f) => category_float(locale, *ordinal, f),
                };
                let v = forms.get(&cat).unwrap_or_else(|| &forms[&Form::Other]);
                let mut tys = count_tys.clone();
                tys.insert(count.clone(), (NumTy::I64, n));
                render_into(v, env, &tys, out)?;
            }
        }
    }
    Ok(())
}

// ---------------------------------------------------------------------------------------------
// Signatures (C08)
// ---------------------------------------------------------------------------------------------

#[derive(Clone, Debug, PartialEq, Eq, PartialOrd, Ord)]
pub enum CountKind {
    Range(NumTy),
    Plural,
}

#[derive(Clone, Debug, Default, PartialEq, Eq)]
pub struct Sig {
    pub vars: BTreeMap<String, BTreeSet<String>>, // name -> formatter texts (trimmed) seen
    pub comps: BTreeSet<String>,
    pub counts: BTreeMap<String, BTreeSet<CountKind>>,
}

impl Sig {
    pub fn is_empty(&self) -> bool {
        self.vars.is_empty() && self.comps.is_empty() && self.counts.is_empty()
    }
    pub fn merge(&mut self, o: &Sig) {
        for (k, v) in &o.vars {
            self.vars.entry(k.clone()).or_default().extend(v.iter().cloned());
        }
        self.comps.extend(o.comps.iter().cloned());
        for (k, v) in &o.counts {
            self.counts.entry(k.clone()).or_default().extend(v.iter().cloned());
        }
    }
    /// all names a caller must supply
    pub fn names(&self) -> BTreeSet<String> {
        let mut s: BTreeSet<String> = self.vars.keys().map(|k| format!("var_{k}")).collect();
        s.extend(self.counts.keys().map(|k| format!("var_{k}")));
        s.extend(self.comps.iter().map(|k| format!("comp_{k}")));
        s
    }
}

pub fn signature(rs: &[R]) -> Sig {
    let mut s = Sig::default();
    sig_into(rs, &mut s);
    s
}

fn sig_into(rs: &[R], s: &mut Sig) {
    for r in rs {
        match r {
            R::Text(_) | R::Lit(_) => {}
            R::Var { name, fmt } => {
                s.vars.entry(name.clone()).or_default().insert(fmt.as_deref().unwrap_or("").trim().to_string());
            }
            R::Comp { name, inner } => {
                s.comps.insert(name.clone());
                sig_into(inner, s);
            }
            R::Range { count, ty, branches } => {
                s.counts.entry(count.clone()).or_default().insert(CountKind::Range(*ty));
                for (_, v) in branches {
                    sig_into(v, s);
                }
            }
            R::Plural { count, forms, .. } => {
                s.counts.entry(count.clone()).or_default().insert(CountKind::Plural);
                for v in forms.values() {
                    sig_into(v, s);
                }
            }
        }
    }
}

// ---------------------------------------------------------------------------------------------
// Range declaration validity (C04)
// ---------------------------------------------------------------------------------------------

#[derive(Clone, Debug, PartialEq, Eq)]
pub enum DeclStatus {
    Accept,
    Reject(String),
    Open(String),
}

pub fn range_decl_status(r: &RangeDecl) -> DeclStatus {
    let ty = match &r.ty {
        None => NumTy::I32,
        Some(t) => match NumTy::from_name(t.trim()) {
            Some(t) => t,
            None => return DeclStatus::Reject(format!("unknown range type {t:?}")),
        },
    };
    if r.branches.is_empty() {
        return DeclStatus::Reject("empty range".into());
    }
    let mut open = None;
    let mut fallbacks = 0;
    let n = r.branches.len();
    for (i, b) in r.branches.iter().enumerate() {
        if matches!(&*b.value, Val::Range(_)) {
            return DeclStatus::Reject("nested range".into());
        }
        if matches!(&*b.value, Val::Sub(_)) {
            return DeclStatus::Reject("subkeys inside a range".into());
        }
        if matches!(&*b.value, Val::Null) {
            // a null defaults a whole key, not one branch (generated code cannot render it)
            return DeclStatus::Reject("null as a branch value".into());
        }
        let mut is_fb = b.counts.is_empty();
        let mut partial_fb = false;
        for c in &b.counts {
            match parse_count_spec(ty, c) {
                Err(SpecErr::Invalid) => return DeclStatus::Reject(format!("invalid count {c:?} for {}", ty.name())),
                Err(SpecErr::EmptyRange) => open = Some(format!("empty range {c:?}")),
                Ok(specs) => {
                    if specs.contains(&Spec1::Fallback) {
                        if b.counts.len() == 1 {
                            is_fb = true;
                        } else {
                            partial_fb = true;
                        }
                    }
                }
            }
        }
        if partial_fb {
            open = Some("fallback inside a list of counts".into());
        }
        if is_fb {
            fallbacks += 1;
            if i + 1 != n {
                return DeclStatus::Reject("fallback before the last branch".into());
            }
        }
    }
    if fallbacks > 1 {
        return DeclStatus::Reject("several fallbacks".into());
    }
    if ty.is_float() && fallbacks == 0 {
        return match open {
            // a list fallback may or may not count as the required fallback
            Some(w) if w.starts_with("fallback inside") => DeclStatus::Open(w),
            _ => DeclStatus::Reject("float range without fallback".into()),
        };
    }
    match open {
        Some(w) => DeclStatus::Open(w),
        None => DeclStatus::Accept,
    }
}

pub fn ranges_status(entries: &[(String, Val)]) -> DeclStatus {
    let mut open = None;
    for (_, v) in entries {
        let st = match v {
            Val::Range(r) => range_decl_status(r),
            Val::Sub(s) => ranges_status(s),
            _ => DeclStatus::Accept,
        };
        match st {
            DeclStatus::Accept => {}
            DeclStatus::Reject(w) => return DeclStatus::Reject(w),
            DeclStatus::Open(w) => open = Some(w),
        }
    }
    match open {
        Some(w) => DeclStatus::Open(w),
        None => DeclStatus::Accept,
    }
}
