//! Minimal deterministic work-sharing: items are indexed 0..n, workers pull indices from an
//! atomic counter. Results are independent of the schedule (each index is processed exactly once
//! by a pure function of the index).

use std::sync::atomic::{AtomicUsize, Ordering};

pub fn n_threads() -> usize {
    std::env::var("VERIF_THREADS")
        .ok()
        .and_then(|s| s.parse().ok())
        .unwrap_or_else(|| std::thread::available_parallelism().map(|n| n.get()).unwrap_or(4))
}

/// Run `f(worker_id, index)` for every index in 0..n on `n_threads()` workers.
/// Each worker thread gets an 64 MiB stack (deeply nested inputs).
pub fn par_for<F>(n: usize, f: F)
where
    F: Fn(usize, usize) + Sync,
{
    par_for_chunked(n, 1, f)
}

pub fn par_for_chunked<F>(n: usize, chunk: usize, f: F)
where
    F: Fn(usize, usize) + Sync,
{
    let next = AtomicUsize::new(0);
    let threads = n_threads().min(n.max(1));
    std::thread::scope(|s| {
        for w in 0..threads {
            let next = &next;
            let f = &f;
            std::thread::Builder::new()
                .stack_size(64 << 20)
                .spawn_scoped(s, move || loop {
                    let start = next.fetch_add(chunk, Ordering::Relaxed);
                    if start >= n {
                        break;
                    }
                    for i in start..(start + chunk).min(n) {
                        f(w, i);
                    }
                })
                .expect("spawn worker");
        }
    });
}

thread_local! {
    static LAST_PANIC: std::cell::RefCell<Option<String>> = const { std::cell::RefCell::new(None) };
}

/// Replace the default panic hook by one that records `message @ file:line` in a thread-local
/// (the subject is expected to panic in C09 sweeps; nothing is printed).
pub fn quiet_panics() {
    std::panic::set_hook(Box::new(|info| {
        let msg = info.to_string();
        LAST_PANIC.with(|l| *l.borrow_mut() = Some(msg));
    }));
}

/// Message of the last panic caught on this thread (set by the hook of `quiet_panics`).
pub fn take_panic_message(p: Box<dyn std::any::Any + Send>) -> String {
    if let Some(m) = LAST_PANIC.with(|l| l.borrow_mut().take()) {
        return m;
    }
    if let Some(s) = p.downcast_ref::<&str>() {
        s.to_string()
    } else if let Some(s) = p.downcast_ref::<String>() {
        s.clone()
    } else {
        "<non-string panic payload>".to_string()
    }
}
