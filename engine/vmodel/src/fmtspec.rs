//! The documented formatter grammar, written down once as data: every formatter name x every
//! documented value of every argument (+ omitted, + an invalid value, + an unknown argument).
//! `debug` is what the loader must understand (Debug text of its `Formatter` value), `direct` is
//! the direct ICU4X call (a Rust expression for the probe crates) the output must equal.

#[derive(Clone, Debug)]
pub struct FmtCase {
    pub family: &'static str,
    /// text after the comma in `{{ v, <text> }}` and after `formatter:` in `t*_format!`
    pub text: String,
    /// Debug text of the loader's Formatter value
    pub debug: String,
    /// Rust expression: direct ICU4X call; `L` = locale name expr (&str), `V` = value expr
    pub direct: String,
    /// all argument values are identifiers (usable in the `t*_format!` macros)
    pub macro_ok: bool,
}

fn opt<'a>(choices: &[(&'a str, &'a str)], default: &'a str) -> Vec<(Option<&'a str>, &'a str)> {
    // (written value, resulting variant)
    let mut v: Vec<(Option<&str>, &str)> = vec![(None, default)];
    for (w, r) in choices {
        v.push((Some(w), r));
    }
    v.push((Some("bogus"), default));
    v
}

fn args_text(name: &str, args: &[(&str, Option<&str>)], extra_unknown: bool) -> String {
    let mut parts: Vec<String> = args.iter().filter_map(|(k, v)| v.map(|v| format!("{k}: {v}"))).collect();
    if extra_unknown {
        parts.insert(0, "nonsense: value".to_string());
    }
    if parts.is_empty() {
        name.to_string()
    } else {
        format!("{name}({})", parts.join("; "))
    }
}

pub fn all_cases() -> Vec<FmtCase> {
    let mut out = vec![];
    let lens = [("full", "Full"), ("long", "Long"), ("medium", "Medium"), ("short", "Short")];
    // number
    for (w, r) in opt(&[("auto", "Auto"), ("never", "Never"), ("always", "Always"), ("min2", "Min2")], "Auto") {
        for unk in [false, true] {
            out.push(FmtCase {
                family: "number",
                text: args_text("number", &[("grouping_strategy", w)], unk),
                debug: format!("Number({r})"),
                direct: format!("d_num($L, GroupingStrategy::{r}, $V)"),
                macro_ok: true,
            });
        }
    }
    // currency
    for (w, r) in opt(&[("short", "Short"), ("narrow", "Narrow")], "Short") {
        for (cw, cr) in [(None, "USD"), (Some("EUR"), "EUR"), (Some("JPY"), "JPY"), (Some("EURO"), "USD"), (Some("eur"), "eur")] {
            out.push(FmtCase {
                family: "currency",
                text: args_text("currency", &[("width", w), ("currency_code", cw)], false),
                debug: format!("Currency({r}, CurrencyCode(\"{cr}\"))"),
                direct: format!("d_cur($L, CurrencyWidth::{r}, {cr:?}, $V)"),
                macro_ok: true,
            });
        }
    }
    // date / time
    for (w, r) in opt(&lens, "Medium") {
        out.push(FmtCase { family: "date", text: args_text("date", &[("date_length", w)], false), debug: format!("Date({r})"), direct: format!("d_date($L, length::Date::{r}, $V)"), macro_ok: true });
    }
    for (w, r) in opt(&lens, "Short") {
        out.push(FmtCase { family: "time", text: args_text("time", &[("time_length", w)], false), debug: format!("Time({r})"), direct: format!("d_time($L, length::Time::{r}, $V)"), macro_ok: true });
    }
    // datetime
    for (dw, dr) in opt(&lens, "Medium") {
        for (tw, tr) in opt(&lens, "Short") {
            out.push(FmtCase {
                family: "datetime",
                text: args_text("datetime", &[("date_length", dw), ("time_length", tw)], false),
                debug: format!("DateTime({dr}, {tr})"),
                direct: format!("d_datetime($L, length::Date::{dr}, length::Time::{tr}, $V)"),
                macro_ok: true,
            });
        }
    }
    // arguments in the other order
    out.push(FmtCase {
        family: "datetime",
        text: "datetime(time_length: full; date_length: short)".into(),
        debug: "DateTime(Short, Full)".into(),
        direct: "d_datetime($L, length::Date::Short, length::Time::Full, $V)".into(),
        macro_ok: true,
    });
    // list
    for (tw, tr) in opt(&[("and", "And"), ("or", "Or"), ("unit", "Unit")], "Unit") {
        for (sw, sr) in opt(&[("wide", "Wide"), ("short", "Short"), ("narrow", "Narrow")], "Wide") {
            out.push(FmtCase {
                family: "list",
                text: args_text("list", &[("list_type", tw), ("list_style", sw)], false),
                debug: format!("List({tr}, {sr})"),
                direct: format!("d_list($L, {tr:?}, ListLength::{sr}, $V)"),
                macro_ok: true,
            });
        }
    }
    out
}

/// whitespace variants of one `{{ v, name(a: x; b: y) }}`: each of the 8 positions empty or a space
pub fn whitespace_variants(name: &str, a: (&str, &str), b: (&str, &str)) -> Vec<String> {
    let mut out = vec![];
    for mask in 0u32..256 {
        let s = |i: u32| if mask >> i & 1 == 1 { " " } else { "" };
        out.push(format!(
            "{{{{{}v{},{}{}{}({}{}{}:{}{}{};{}{}:{}{}{}){}}}}}",
            s(0),
            s(1),
            s(2),
            name,
            s(3),
            s(4),
            a.0,
            s(5),
            s(5),
            a.1,
            s(6),
            s(6),
            b.0,
            s(7),
            b.1,
            s(4),
            s(0)
        ));
    }
    out
}
