//! Verdict plumbing shared by every check: counting, violations -> replay files,
//! known-findings filtering, evidence file, exit code.
//!
//! Exit codes: 0 held (known findings printed), 1 violation, 2 machinery failure.

use serde_json::{json, Map, Value};
use std::collections::BTreeMap;
use std::path::{Path, PathBuf};
use std::sync::atomic::{AtomicU64, Ordering};
use std::sync::Mutex;
use std::time::Instant;

pub fn verif_root() -> PathBuf {
    std::env::var_os("VERIF_ROOT")
        .map(PathBuf::from)
        .unwrap_or_else(|| PathBuf::from("/verif"))
}

#[derive(Clone, Copy, PartialEq, Eq, Debug)]
pub enum Tier {
    Quick,
    Thorough,
}

impl Tier {
    pub fn from_env_or_args(args: &[String]) -> Tier {
        let mut t = std::env::var("VERIF_TIER").ok();
        let mut it = args.iter();
        while let Some(a) = it.next() {
            if a == "--tier" {
                t = it.next().cloned();
            }
        }
        match t.as_deref() {
            Some("thorough") => Tier::Thorough,
            _ => Tier::Quick,
        }
    }
    pub fn name(self) -> &'static str {
        match self {
            Tier::Quick => "quick",
            Tier::Thorough => "thorough",
        }
    }
    pub fn pick<T>(self, q: T, t: T) -> T {
        match self {
            Tier::Quick => q,
            Tier::Thorough => t,
        }
    }
}

#[derive(Debug, Clone)]
pub struct KnownFinding {
    pub property: String,
    pub status: String, // "known" | "fixed"
    pub all_of: Vec<String>, // every substring must occur in the violation key
    pub what: String,
}

pub fn load_known_findings(id: &str) -> Vec<KnownFinding> {
    let p = verif_root().join("known_findings.jsonl");
    let Ok(s) = std::fs::read_to_string(&p) else {
        return vec![];
    };
    let mut out = vec![];
    for line in s.lines() {
        let line = line.trim();
        if line.is_empty() || line.starts_with('#') {
            continue;
        }
        let Ok(v) = serde_json::from_str::<Value>(line) else {
            eprintln!("MACHINERY: unparsable known_findings line: {line}");
            std::process::exit(2);
        };
        if v["property"].as_str() != Some(id) {
            continue;
        }
        out.push(KnownFinding {
            property: id.to_string(),
            status: v["status"].as_str().unwrap_or("known").to_string(),
            all_of: v["key_contains"]
                .as_array()
                .map(|a| a.iter().filter_map(|x| x.as_str().map(String::from)).collect())
                .unwrap_or_default(),
            what: v["what"].as_str().unwrap_or("").to_string(),
        });
    }
    out
}

#[derive(Debug, Clone)]
pub struct Violation {
    /// canonical description of the failing input / history; known findings match on it
    pub key: String,
    pub detail: Value,
}

pub struct Reporter {
    pub id: String,
    pub engine: String,
    pub tier: Tier,
    pub seed: i64,
    start: Instant,
    pub evaluations: AtomicU64,
    pub nontrivial: AtomicU64,
    pub transitions: AtomicU64,
    violations: Mutex<Vec<Violation>>,
    samples: Mutex<Vec<Value>>,
    counters: Mutex<BTreeMap<String, u64>>,
    known: Vec<KnownFinding>,
    max_samples: usize,
}

impl Reporter {
    pub fn new(id: &str, engine: &str, tier: Tier) -> Reporter {
        let seed = std::env::var("VERIF_SEED")
            .ok()
            .and_then(|s| s.parse().ok())
            .unwrap_or(0);
        Reporter {
            id: id.to_string(),
            engine: engine.to_string(),
            tier,
            seed,
            start: Instant::now(),
            evaluations: AtomicU64::new(0),
            nontrivial: AtomicU64::new(0),
            transitions: AtomicU64::new(0),
            violations: Mutex::new(vec![]),
            samples: Mutex::new(vec![]),
            counters: Mutex::new(BTreeMap::new()),
            known: load_known_findings(id),
            max_samples: 6,
        }
    }

    pub fn eval(&self, n: u64) {
        self.evaluations.fetch_add(n, Ordering::Relaxed);
    }
    pub fn nontriv(&self, n: u64) {
        self.nontrivial.fetch_add(n, Ordering::Relaxed);
    }
    pub fn trans(&self, n: u64) {
        self.transitions.fetch_add(n, Ordering::Relaxed);
    }
    pub fn count(&self, name: &str, n: u64) {
        *self.counters.lock().unwrap().entry(name.to_string()).or_insert(0) += n;
    }
    pub fn counter(&self, name: &str) -> u64 {
        self.counters.lock().unwrap().get(name).copied().unwrap_or(0)
    }
    pub fn sample(&self, v: Value) {
        let mut s = self.samples.lock().unwrap();
        if s.len() < self.max_samples {
            s.push(v);
        }
    }
    pub fn want_sample(&self) -> bool {
        self.samples.lock().unwrap().len() < self.max_samples
    }
    pub fn violation(&self, key: impl Into<String>, detail: Value) {
        let mut v = self.violations.lock().unwrap();
        // keep memory bounded on massive failure, but count everything
        if v.len() < 100_000 {
            v.push(Violation { key: key.into(), detail });
        }
        drop(v);
        self.count("violations_total", 1);
    }
    pub fn n_violations(&self) -> usize {
        self.violations.lock().unwrap().len()
    }

    /// Write evidence, print verdict lines, return process exit code.
    pub fn finish(&self, mut coverage: Map<String, Value>, assumptions: &[&str]) -> i32 {
        let wall = self.start.elapsed().as_secs_f64();
        let mut viols = std::mem::take(&mut *self.violations.lock().unwrap());
        viols.sort_by(|a, b| (a.key.len(), &a.key).cmp(&(b.key.len(), &b.key)));
        let root = verif_root();
        let rdir = root.join("replays").join(&self.id);

        let mut known_hits: BTreeMap<usize, (u64, String)> = BTreeMap::new();
        let mut real: Vec<&Violation> = vec![];
        for v in &viols {
            let mut hit = None;
            for (i, k) in self.known.iter().enumerate() {
                if k.status == "known" && !k.all_of.is_empty() && k.all_of.iter().all(|s| v.key.contains(s.as_str())) {
                    hit = Some(i);
                    break;
                }
            }
            match hit {
                Some(i) => {
                    let e = known_hits.entry(i).or_insert((0, v.key.clone()));
                    e.0 += 1;
                }
                None => real.push(v),
            }
        }
        for (i, (n, first)) in &known_hits {
            println!(
                "KNOWN-FINDING: property={} {} [{} case(s) this run, first: {}]",
                self.id,
                self.known[*i].what,
                n,
                truncate(first, 160)
            );
        }
        if let Ok(dump) = std::env::var("VERIF_DUMP_VIOLATIONS") {
            let all: Vec<&str> = real.iter().map(|v| v.key.as_str()).collect();
            let _ = std::fs::write(dump, all.join("\n"));
        }
        let mut exit = 0;
        if !real.is_empty() {
            let _ = std::fs::create_dir_all(&rdir);
            for (n, v) in real.iter().enumerate().take(25) {
                let p = rdir.join(format!("{}-{n:03}.json", self.engine));
                let body = json!({"property": self.id, "key": v.key, "detail": v.detail,
                    "rerun": format!("cd /verif && ./check {} --replay {}", self.id, p.display())});
                let _ = std::fs::write(&p, serde_json::to_string_pretty(&body).unwrap());
                println!("VIOLATION property={} replay={}", self.id, p.display());
                if n < 8 {
                    eprintln!("  key: {}", truncate(&v.key, 400));
                }
            }
            if real.len() > 25 {
                println!("... {} further violations not written out", real.len() - 25);
            }
            exit = 1;
        }

        let evaluations = self.evaluations.load(Ordering::Relaxed);
        let nontrivial = self.nontrivial.load(Ordering::Relaxed);
        let transitions = self.transitions.load(Ordering::Relaxed);
        coverage.entry("evaluations").or_insert(json!(evaluations));
        coverage.entry("distinct_nontrivial").or_insert(json!(nontrivial));
        coverage.entry("transitions").or_insert(json!(transitions.max(evaluations)));
        coverage.entry("states").or_insert(json!(nontrivial.max(1)));
        coverage
            .entry("traces_validated_against_impl")
            .or_insert(json!(evaluations));
        let samples = std::mem::take(&mut *self.samples.lock().unwrap());
        coverage.entry("samples").or_insert(Value::Array(samples));
        for (k, v) in self.counters.lock().unwrap().iter() {
            coverage.entry(format!("n_{k}")).or_insert(json!(v));
        }
        coverage.insert("known_finding_cases".into(), json!(known_hits.values().map(|x| x.0).sum::<u64>()));
        let ev = json!({
            "property_id": self.id,
            "tier": self.tier.name(),
            "seed": self.seed,
            "level": "model_checking",
            "coverage": Value::Object(coverage),
            "assumptions": assumptions,
            "wall_s": wall,
            "violations": real.len(),
        });
        // partial evidence; the ./check driver merges the partials of all engines of a property
        let edir = root.join("work").join("partial").join(&self.id);
        let _ = std::fs::create_dir_all(&edir);
        let ep = edir.join(format!("{}.json", self.engine));
        if let Err(e) = std::fs::write(&ep, serde_json::to_string_pretty(&ev).unwrap()) {
            eprintln!("MACHINERY: cannot write evidence {}: {e}", ep.display());
            return 2;
        }
        eprintln!(
            "[{}/{}] tier={} evaluations={} nontrivial={} violations={} known_cases={} wall={:.1}s",
            self.id,
            self.engine,
            self.tier.name(),
            evaluations,
            nontrivial,
            real.len(),
            known_hits.values().map(|x| x.0).sum::<u64>(),
            wall
        );
        exit
    }
}

pub fn truncate(s: &str, n: usize) -> String {
    if s.chars().count() <= n {
        s.to_string()
    } else {
        let t: String = s.chars().take(n).collect();
        format!("{t}…")
    }
}

/// Merge partial evidence written by several sub-engines of one property check.
pub fn read_json(p: &Path) -> Option<Value> {
    serde_json::from_str(&std::fs::read_to_string(p).ok()?).ok()
}

pub fn machinery_fail(msg: &str) -> ! {
    eprintln!("MACHINERY: {msg}");
    std::process::exit(2);
}
