//! C15: initial locale resolution, every environment (cookie x cookie options x Accept-Language x
//! parent x initial locale) on natively created contexts (ssr) with injected header getters.

use crate::i18n::Locale;
use crate::rt::*;
use leptos::prelude::*;
use leptos_i18n::context::{init_i18n_context_with_options, init_i18n_subcontext_with_options, CookieOptions, I18nContextOptions, UseLocalesOptions};
use leptos_i18n::{I18nContext, Locale as _};
use serde_json::json;
use std::borrow::Cow;
use vmodel::par::par_for_chunked;
use vmodel::{Reporter, Tier};

const NAMES: [&str; 6] = ["en", "fr", "de", "en-US", "pt-BR", "pt-PT"];
fn loc(i: usize) -> Locale {
    [Locale::en, Locale::fr, Locale::de][i]
}

#[derive(Clone, Debug)]
struct Env {
    cookie_header: Option<String>,
    enable_cookie: bool,
    cookie_name: Option<&'static str>, // None = crate default
    accept: Option<&'static str>,
    parent: Option<usize>,
    initial: Option<usize>,
    sub: bool,
    sub_cookie_name: Option<&'static str>,
    /// the sub-context is created through the generated `<I18nSubContextProvider>` component
    via_provider: bool,
    /// an earlier sibling sub-context (same owner, through the provider) holding this locale: it is not the parent
    sibling: Option<usize>,
    /// main context through the generated `<I18nContextProvider>`: its set_dir_attr_on_html / set_lang_attr_on_html
    /// props (they have nothing to do with the locale)
    html_attrs: Option<(bool, bool)>,
    /// through the entry points that take no options (`init_i18n_context`, `provide_i18n_context`,
    /// `init_i18n_subcontext`, `provide_i18n_subcontext`): 1 / 2 = the init / the provide form
    plain_api: u8,
}

const DEFAULT_COOKIE: &str = "i18n_pref_locale";

/// the values a cookie of this name holds in the header (first occurrence), percent-decoded by `cookie`
fn cookie_value(header: &Option<String>, name: &str) -> Option<String> {
    let h = header.as_ref()?;
    for part in h.split(';') {
        let part = part.trim();
        if let Some((k, v)) = part.split_once('=') {
            if k.trim() == name {
                return Some(v.trim().replace("%20", " "));
            }
        }
    }
    None
}

/// admissible locales for a cookie value: exactly a configured name; surrounding whitespace may
/// or may not be tolerated (statement silent) -> both outcomes admitted
fn cookie_locales(v: &str) -> (Option<usize>, bool) {
    if let Some(i) = NAMES.iter().position(|n| *n == v) {
        return (Some(i), false);
    }
    if let Some(i) = NAMES.iter().position(|n| *n == v.trim()) {
        return (Some(i), true); // either Some(i) or ignored
    }
    (None, false)
}

/// C12 oracle: the first header entry some configured locale matches (exactly or as a less specific form)
/// decides; the answer is the exact match if there is one, else any configured locale matching that entry;
/// nothing matchable -> the default
fn accepted(accept: Option<&str>) -> Vec<usize> {
    use icu_locid::LanguageIdentifier as Lid;
    let matches = |s: &Lid, r: &Lid| (s.language.is_empty() || s.language == r.language) && (s.script.is_none() || s.script == r.script) && (s.region.is_none() || s.region == r.region) && (s.variants.is_empty() || s.variants == r.variants);
    let Some(a) = accept else { return vec![0] };
    let supported: Vec<Lid> = NAMES.iter().map(|n| n.parse().unwrap()).collect();
    for entry in a.split(',') {
        let tag = entry.split(';').next().unwrap_or("");
        let Ok(lid) = tag.parse::<Lid>() else { continue };
        if let Some(i) = supported.iter().position(|s| *s == lid) {
            return vec![i];
        }
        let m: Vec<usize> = (0..supported.len()).filter(|i| matches(&supported[*i], &lid)).collect();
        if !m.is_empty() {
            return m;
        }
    }
    vec![0]
}

/// is the library built with its `cookie` feature? Without it the cookie options are documented to do nothing.
const COOKIE_BUILD: bool = cfg!(feature = "cookie");

/// set of admissible initial locales
fn expected(e: &Env) -> Vec<usize> {
    let main_resolution = |cookie_enabled: bool, name: &str| -> Vec<usize> {
        if cookie_enabled && COOKIE_BUILD {
            if let Some(v) = cookie_value(&e.cookie_header, name) {
                match cookie_locales(&v) {
                    (Some(i), false) => return vec![i],
                    (Some(i), true) => {
                        let mut v = vec![i];
                        v.extend(accepted(e.accept));
                        return v;
                    }
                    _ => {}
                }
            }
        }
        accepted(e.accept)
    };
    if !e.sub {
        return main_resolution(e.enable_cookie, e.cookie_name.unwrap_or(DEFAULT_COOKIE));
    }
    // sub-context: cookie (own name, only if given), initial, parent, then the main resolution (no cookie)
    let mut out = vec![];
    let mut decided = false;
    if let (Some(name), true) = (e.sub_cookie_name, COOKIE_BUILD) {
        if let Some(v) = cookie_value(&e.cookie_header, name) {
            match cookie_locales(&v) {
                (Some(i), false) => return vec![i],
                (Some(i), true) => out.push(i),
                _ => {}
            }
        }
    }
    if let Some(i) = e.initial {
        out.push(i);
        decided = true;
    }
    if !decided {
        if let Some(p) = e.parent {
            out.push(p);
            decided = true;
        }
    }
    if !decided {
        out.extend(accepted(e.accept));
    }
    out
}

fn opts(e: &Env) -> I18nContextOptions<'static, Locale> {
    let header = e.cookie_header.clone();
    let accept = e.accept.map(String::from);
    let mut o = I18nContextOptions::<Locale>::default()
        .enable_cookie(e.enable_cookie)
        .cookie_options(CookieOptions::<Locale>::default().ssr_cookies_header_getter(move || header.clone()))
        .ssr_lang_header_getter(UseLocalesOptions::default().ssr_lang_header_getter(move || accept.clone()));
    if let Some(n) = e.cookie_name {
        o = o.cookie_name(n);
    }
    o
}

fn observe(e: &Env) -> (usize, Option<usize>) {
    with_owner(|| {
        let idx = |l: Locale| NAMES.iter().position(|n| *n == l.as_str()).unwrap();
        if e.plain_api > 0 {
            // no request, no options: nothing but the default (main) / initial, parent, default (sub-context)
            if !e.sub {
                let ctx: I18nContext<Locale> = if e.plain_api == 1 { leptos_i18n::context::init_i18n_context() } else { leptos_i18n::context::provide_i18n_context() };
                poll();
                return (idx(ctx.get_locale_untracked()), None);
            }
            if let Some(p) = e.parent {
                let parent: I18nContext<Locale> = leptos_i18n::context::provide_i18n_context();
                parent.set_locale(loc(p));
                poll();
            }
            let initial = e.initial.map(|i| Signal::derive(move || loc(i)));
            let child = Owner::current().unwrap().child();
            let ctx: I18nContext<Locale> = child.with(|| if e.plain_api == 1 { leptos_i18n::context::init_i18n_subcontext(initial) } else { leptos_i18n::context::provide_i18n_subcontext(initial) });
            poll();
            let got = idx(ctx.get_locale_untracked());
            drop(child);
            return (got, None);
        }
        if let (false, Some((dir, lang))) = (e.sub, e.html_attrs) {
            let header = e.cookie_header.clone();
            let accept = e.accept.map(String::from);
            let (v, ctx) = provider_main(
                e.enable_cookie,
                dir,
                lang,
                e.cookie_name,
                CookieOptions::<Locale>::default().ssr_cookies_header_getter(move || header.clone()),
                UseLocalesOptions::default().ssr_lang_header_getter(move || accept.clone()),
            );
            poll();
            let got = idx(ctx.get_locale_untracked());
            drop(v);
            return (got, None);
        }
        if !e.sub {
            let ctx: I18nContext<Locale> = init_i18n_context_with_options(opts(e));
            poll();
            let a = idx(ctx.get_locale_untracked());
            let r = leptos_i18n::locale::resolve_locale_with_options::<Locale>(opts(e));
            (a, Some(idx(r)))
        } else {
            if let Some(p) = e.parent {
                // a parent context holding locale p, provided in this owner
                let mut pe = e.clone();
                pe.cookie_header = None;
                pe.accept = None;
                pe.enable_cookie = false;
                pe.sub = false;
                let parent: I18nContext<Locale> = init_i18n_context_with_options(opts(&pe));
                parent.set_locale(loc(p));
                poll();
                provide_context(parent);
            }
            let header = e.cookie_header.clone();
            let accept = e.accept.map(String::from);
            let initial = e.initial.map(|i| Signal::derive(move || loc(i)));
            if e.via_provider {
                let mut keep = vec![];
                if let Some(sl) = e.sibling {
                    let (v, sib, _) = provider_sub(Some(Signal::derive(move || loc(sl))), None, CookieOptions::<Locale>::default().ssr_cookies_header_getter(|| None), UseLocalesOptions::default().ssr_lang_header_getter(|| None));
                    poll();
                    assert_eq!(sib.get_locale_untracked(), loc(sl), "sibling sub-context starts with its explicit initial locale");
                    keep.push(v);
                }
                let (v, ctx, _) = provider_sub(
                    initial,
                    e.sub_cookie_name,
                    CookieOptions::<Locale>::default().ssr_cookies_header_getter(move || header.clone()),
                    UseLocalesOptions::default().ssr_lang_header_getter(move || accept.clone()),
                );
                keep.push(v);
                poll();
                let got = idx(ctx.get_locale_untracked());
                drop(keep);
                return (got, None);
            }
            let ctx: I18nContext<Locale> = init_i18n_subcontext_with_options(
                initial,
                e.sub_cookie_name.map(Cow::Borrowed),
                Some(CookieOptions::<Locale>::default().ssr_cookies_header_getter(move || header.clone())),
                Some(UseLocalesOptions::default().ssr_lang_header_getter(move || accept.clone())),
            );
            poll();
            (idx(ctx.get_locale_untracked()), None)
        }
    })
}

pub fn run(tier: Tier) -> i32 {
    let rep = Reporter::new("C15", if COOKIE_BUILD { "RT" } else { "RT-nocookie" }, tier);
    let mut cookie_headers: Vec<Option<String>> = vec![None, Some(String::new())];
    for name in [DEFAULT_COOKIE, "custom"] {
        for v in ["en", "fr", "de", "xx", "", "%20fr%20", "FR", "fr-FR", "french"] {
            cookie_headers.push(Some(format!("{name}={v}")));
            cookie_headers.push(Some(format!("sid=1; {name}={v}; theme=fr")));
        }
    }
    cookie_headers.push(Some(format!("{DEFAULT_COOKIE}=de; custom=fr")));
    cookie_headers.push(Some(format!("custom=de; {DEFAULT_COOKIE}=fr")));
    cookie_headers.push(Some("other=fr".to_string()));
    let accepts: Vec<Option<&'static str>> = vec![None, Some(""), Some("en"), Some("fr"), Some("de"), Some("it"), Some("it,fr"), Some("fr;q=0.1,de"), Some("garbage!!"), Some("de-DE,en"), Some("fr-CA,de;q=0.5"), Some("*"), Some("xx,yy,de"), Some("fr,en-US;q=0.8"), Some("en-US,fr"), Some("en-GB,fr"), Some("en,en-US"), Some("it,fr-CA;q=0.9,en-US;q=0.5"), Some("en-US-posix,de"), Some("pt-PT,pt-BR"), Some("pt-PT,pt-BR,de"), Some("pt,pt-BR;q=0.9"), Some("it,pt-PT,pt-BR"), Some("pt-BR-x-foo,pt-BR"), Some("it,es,nl,sv,da,fi,nb,de"), Some("it,es,nl,sv,da,fi,nb,pl,pt-BR")];
    let mut envs: Vec<Env> = vec![];
    for ch in &cookie_headers {
        for a in &accepts {
            // main context
            for enable in [true, false] {
                for cn in [None, Some("custom")] {
                    envs.push(Env { cookie_header: ch.clone(), enable_cookie: enable, cookie_name: cn, accept: *a, parent: None, initial: None, sub: false, sub_cookie_name: None, via_provider: false, sibling: None, html_attrs: None, plain_api: 0 });
                    // the same through the generated provider component, whose other boolean props must not matter
                    for attrs in [(true, true), (false, true), (true, false), (false, false)] {
                        envs.push(Env { cookie_header: ch.clone(), enable_cookie: enable, cookie_name: cn, accept: *a, parent: None, initial: None, sub: false, sub_cookie_name: None, via_provider: true, sibling: None, html_attrs: Some(attrs), plain_api: 0 });
                    }
                }
            }
            // sub-context
            for parent in [None, Some(0), Some(1), Some(2)] {
                for initial in [None, Some(0), Some(1), Some(2)] {
                    for scn in [None, Some(DEFAULT_COOKIE), Some("custom")] {
                        envs.push(Env { cookie_header: ch.clone(), enable_cookie: true, cookie_name: None, accept: *a, parent, initial, sub: true, sub_cookie_name: scn, via_provider: false, sibling: None, html_attrs: None, plain_api: 0 });
                        // the same through the provider component, alone and after a sibling provider in another locale
                        for sibling in [None, Some(1), Some(2)] {
                            if sibling.is_some() && sibling == parent {
                                continue;
                            }
                            envs.push(Env { cookie_header: ch.clone(), enable_cookie: true, cookie_name: None, accept: *a, parent, initial, sub: true, sub_cookie_name: scn, via_provider: true, sibling, html_attrs: None, plain_api: 0 });
                        }
                    }
                }
            }
        }
    }
    // the entry points without options (no request at hand: nothing to read a cookie or a header from)
    for api in [1u8, 2] {
        envs.push(Env { cookie_header: None, enable_cookie: true, cookie_name: None, accept: None, parent: None, initial: None, sub: false, sub_cookie_name: None, via_provider: false, sibling: None, html_attrs: None, plain_api: api });
        for parent in [None, Some(0), Some(1), Some(2)] {
            for initial in [None, Some(0), Some(1), Some(2)] {
                envs.push(Env { cookie_header: None, enable_cookie: true, cookie_name: None, accept: None, parent, initial, sub: true, sub_cookie_name: None, via_provider: false, sibling: None, html_attrs: None, plain_api: api });
            }
        }
    }
    let classes = std::sync::Mutex::new(std::collections::BTreeMap::<String, u64>::new());
    par_for_chunked(envs.len(), 64, |_, i| {
        let e = &envs[i];
        let exp = expected(e);
        let (got, resolved) = observe(e);
        rep.eval(1);
        let describe = || format!("{e:?}");
        if !exp.contains(&got) {
            rep.violation(format!("C15: initial locale {} but the precedence rule gives {:?} :: {}", NAMES[got], exp.iter().map(|i| NAMES[*i]).collect::<Vec<_>>(), describe()), json!({"env": describe()}));
        }
        if let Some(r) = resolved {
            if !exp.contains(&r) {
                rep.violation(format!("C15: resolve_locale_with_options gives {} but the precedence rule gives {:?} :: {}", NAMES[r], exp.iter().map(|i| NAMES[*i]).collect::<Vec<_>>(), describe()), json!({"env": describe()}));
            }
        }
        // which rule decided (for the coverage report)
        let class = if e.sub {
            format!("sub/{}", if e.initial.is_some() { "initial-or-cookie" } else if e.parent.is_some() { "parent-or-cookie" } else { "resolution-or-cookie" })
        } else {
            format!("main/{}", if exp.len() > 1 { "cookie-with-whitespace" } else if accepted(e.accept).contains(&exp[0]) { "header-or-default-or-same" } else { "cookie" })
        };
        *classes.lock().unwrap().entry(format!("{class}->{}", NAMES[got])).or_insert(0) += 1;
    });
    rep.nontriv(classes.lock().unwrap().len() as u64);
    rep.sample(json!({"env": format!("{:?}", envs[envs.len() / 3])}));
    rep.sample(json!({"env": format!("{:?}", envs[envs.len() - 5])}));
    let mut cov = serde_json::Map::new();
    cov.insert("rule".into(), json!(format!("{} cookie headers (absent, empty, each of 9 values under the default and a custom name alone and between other cookies, both names, unrelated) x {} Accept-Language values x {{main context: enable_cookie x cookie name, created directly or through the generated <I18nContextProvider> component under every value of its set_dir_attr_on_html / set_lang_attr_on_html props}} + {{sub-context: parent none/each locale x initial none/each x cookie name none/default/custom x created directly / through the generated <I18nSubContextProvider> component, alone or after a sibling provider holding another locale (a sibling is not the parent)}}; plus the entry points that take no options (init_i18n_context, provide_i18n_context, init_i18n_subcontext, provide_i18n_subcontext) under parent x initial; each environment builds real contexts (init_i18n_context_with_options, init_i18n_subcontext_with_options, resolve_locale_with_options) under ssr with injected header getters and effects run to quiescence; the harness is built twice, with and without the library's `cookie` feature (without it every cookie option must do nothing); oracle: cookie (if enabled and holding a configured name) > Accept-Language best match > default; sub-context: cookie > initial > parent > same resolution; distinct_nontrivial = distinct (deciding rule, result) classes", cookie_headers.len(), accepts.len())));
    cov.insert("exhaustive".into(), json!(true));
    cov.insert("outcome_classes".into(), json!(*classes.lock().unwrap()));
    rep.finish(cov, &["client branch (navigator.languages, <html lang>) needs a browser: not executed", "Accept-Language is split by leptos-use on ',' without trimming: entries are fed without spaces", "a cookie value with surrounding whitespace may be honoured or ignored (from_str trims)"])
}
