//! C12: locale negotiation. The repo's `Locale::find_locale` / `find_matchs` (provided trait
//! methods -> langid::find_match / filter_matches, unmodified) are run for every supported set
//! and every request list over a closed universe, against a relational oracle.

use icu_locid::{LanguageIdentifier, Locale as IcuLocale};
use leptos_i18n::{Direction, Locale, LocaleKeys};
use serde_json::json;
use std::cell::Cell;
use std::str::FromStr;
use std::sync::OnceLock;
use vmodel::enumerate::tuples;
use vmodel::par::par_for;
use vmodel::{Reporter, Tier};

pub const UNIVERSE: [&str; 12] = ["en", "en-US", "en-GB", "fr", "fr-FR", "fr-CA", "de", "de-Latn", "de-Latn-DE", "de-DE", "de-DE-1996", "und"];
// (tags are case-insensitive: `EN-gb`, `FR` are the requests `en-GB`, `fr`)
pub const REQUEST_ONLY: [&str; 6] = ["it", "en-us", "garbage!", " fr", "EN-gb", "FR"];

static ICU: OnceLock<Vec<IcuLocale>> = OnceLock::new();
fn icu() -> &'static [IcuLocale] {
    ICU.get_or_init(|| UNIVERSE.iter().map(|s| s.parse().unwrap()).collect())
}

thread_local! {
    static CONFIG: Cell<&'static [HL]> = const { Cell::new(&[]) };
}

/// A `Locale` whose supported set is chosen per configuration (default = first element).
#[derive(Clone, Copy, PartialEq, Eq, Hash, Debug)]
pub struct HL(pub u8);

impl Default for HL {
    fn default() -> Self {
        CONFIG.get()[0]
    }
}
impl FromStr for HL {
    type Err = ();
    fn from_str(s: &str) -> Result<Self, ()> {
        CONFIG.get().iter().copied().find(|l| UNIVERSE[l.0 as usize] == s).ok_or(())
    }
}
impl AsRef<LanguageIdentifier> for HL {
    fn as_ref(&self) -> &LanguageIdentifier {
        &icu()[self.0 as usize].id
    }
}
impl AsRef<IcuLocale> for HL {
    fn as_ref(&self) -> &IcuLocale {
        &icu()[self.0 as usize]
    }
}
impl AsRef<str> for HL {
    fn as_ref(&self) -> &str {
        UNIVERSE[self.0 as usize]
    }
}
impl AsRef<HL> for HL {
    fn as_ref(&self) -> &HL {
        self
    }
}
impl std::fmt::Display for HL {
    fn fmt(&self, f: &mut std::fmt::Formatter<'_>) -> std::fmt::Result {
        f.write_str(UNIVERSE[self.0 as usize])
    }
}
impl serde::Serialize for HL {
    fn serialize<S: serde::Serializer>(&self, s: S) -> Result<S::Ok, S::Error> {
        s.serialize_str(UNIVERSE[self.0 as usize])
    }
}
impl<'de> serde::Deserialize<'de> for HL {
    fn deserialize<D: serde::Deserializer<'de>>(d: D) -> Result<Self, D::Error> {
        let s = String::deserialize(d)?;
        Ok(HL::from_str(&s).unwrap_or_default())
    }
}

#[derive(Clone, Copy)]
pub struct HK;
impl LocaleKeys for HK {
    type Locale = HL;
    fn from_locale(_: HL) -> Self {
        HK
    }
}

#[derive(Clone, Copy, Debug, PartialEq, Eq, Hash, serde::Serialize, serde::Deserialize)]
pub enum HU {
    Unit,
}
impl leptos_i18n::__private::TranslationUnitId for HU {
    fn to_str(self) -> Option<&'static str> {
        None
    }
}

impl Locale for HL {
    type Keys = HK;
    type TranslationUnitId = HU;
    fn as_str(self) -> &'static str {
        UNIVERSE[self.0 as usize]
    }
    fn as_icu_locale(self) -> &'static IcuLocale {
        &icu()[self.0 as usize]
    }
    fn direction(self) -> Direction {
        Direction::Auto
    }
    fn get_all() -> &'static [HL] {
        CONFIG.get()
    }
    fn to_base_locale(self) -> HL {
        self
    }
    fn from_base_locale(l: HL) -> Self {
        l
    }
}

// ---------------------------------------------------------------------------------------------
// Oracle
// ---------------------------------------------------------------------------------------------

/// supported `s` matches request `r` exactly, or as a less specific form of it
fn matches(s: &LanguageIdentifier, r: &LanguageIdentifier) -> bool {
    (s.language.is_empty() || s.language == r.language)
        && (s.script.is_none() || s.script == r.script)
        && (s.region.is_none() || s.region == r.region)
        && (s.variants.is_empty() || s.variants == r.variants)
}

pub struct Verdict {
    pub ok: bool,
    pub why: String,
    /// the decisive request is not the first listed one (non-trivial case)
    pub nontrivial: bool,
}

pub fn judge(supported: &[HL], requests: &[&str], answer: HL) -> Verdict {
    if !supported.contains(&answer) {
        return Verdict { ok: false, why: format!("answer {answer} is not a supported locale"), nontrivial: false };
    }
    let parsed: Vec<Option<LanguageIdentifier>> = requests.iter().map(|r| LanguageIdentifier::try_from_bytes(r.as_bytes()).ok()).collect();
    let mut decisive = None;
    for (i, r) in parsed.iter().enumerate() {
        let Some(r) = r else { continue };
        if supported.iter().any(|s| matches(AsRef::<LanguageIdentifier>::as_ref(s), r)) {
            decisive = Some((i, r.clone()));
            break;
        }
    }
    match decisive {
        None => {
            if answer == supported[0] {
                Verdict { ok: true, why: String::new(), nontrivial: false }
            } else {
                Verdict { ok: false, why: format!("no request matches any supported locale, expected the default {} but got {answer}", supported[0]), nontrivial: false }
            }
        }
        Some((i, r)) => {
            let nontrivial = i > 0 || parsed.iter().skip(i + 1).any(|x| x.is_some());
            let a: &LanguageIdentifier = answer.as_ref();
            if !matches(a, &r) {
                return Verdict {
                    ok: false,
                    why: format!("request #{i} `{r}` is matched by a supported locale, but the answer {answer} does not match it (an earlier preference was passed over)"),
                    nontrivial,
                };
            }
            if let Some(exact) = supported.iter().find(|s| AsRef::<LanguageIdentifier>::as_ref(*s) == &r) {
                if *exact != answer {
                    return Verdict { ok: false, why: format!("request #{i} `{r}` has the exact match {exact} but the answer is the less specific {answer}"), nontrivial };
                }
            }
            Verdict { ok: true, why: String::new(), nontrivial }
        }
    }
}

pub fn run(tier: Tier) -> i32 {
    let rep = Reporter::new("C12", "RT", tier);
    // supported sets: every subset of size 1..=4 with each member as default
    let n = UNIVERSE.len();
    let mut configs: Vec<&'static [HL]> = vec![];
    for mask in 1u32..(1 << n) {
        if mask.count_ones() > 4 {
            continue;
        }
        let members: Vec<u8> = (0..n as u8).filter(|i| mask >> i & 1 == 1).collect();
        for d in &members {
            let mut v = vec![HL(*d)];
            v.extend(members.iter().filter(|m| *m != d).map(|m| HL(*m)));
            configs.push(Box::leak(v.clone().into_boxed_slice()));
            if tier == Tier::Thorough && members.len() > 2 {
                // the other listing order of the non-default locales
                let mut w = vec![HL(*d)];
                w.extend(members.iter().rev().filter(|m| *m != d).map(|m| HL(*m)));
                configs.push(Box::leak(w.into_boxed_slice()));
            }
        }
    }
    let mut alphabet: Vec<&str> = UNIVERSE.to_vec();
    alphabet.extend(REQUEST_ONLY);
    let mut lists: Vec<Vec<&str>> = vec![];
    for len in 0..=3 {
        for t in tuples(alphabet.len(), len) {
            lists.push(t.iter().map(|i| alphabet[*i]).collect());
        }
    }
    rep.count("configurations", configs.len() as u64);
    rep.count("request_lists", lists.len() as u64);
    let outcomes = std::sync::Mutex::new(std::collections::BTreeSet::<u8>::new());
    par_for(configs.len(), |_, ci| {
        let cfg = configs[ci];
        CONFIG.set(cfg);
        let mut nontrivial = 0u64;
        let mut local_out = std::collections::BTreeSet::new();
        for l in &lists {
            let answer = HL::find_locale(l);
            local_out.insert(answer.0);
            let v = judge(cfg, l, answer);
            if v.nontrivial {
                nontrivial += 1;
            }
            if !v.ok {
                rep.violation(
                    format!("C12: supported {:?} (default first) requested {:?} -> {}: {}", cfg.iter().map(|l| l.as_str()).collect::<Vec<_>>(), l, answer, v.why),
                    json!({"supported": cfg.iter().map(|l| l.as_str()).collect::<Vec<_>>(), "requested": l, "answer": answer.as_str()}),
                );
            }
        }
        // find_matchs: every supported locale matching the langid, exact match first, nothing else
        for (ui, u) in UNIVERSE.iter().enumerate() {
            let lid: LanguageIdentifier = u.parse().unwrap();
            let got: Vec<HL> = HL::find_matchs(&icu()[ui].id);
            let want: std::collections::BTreeSet<u8> = cfg.iter().filter(|s| matches(AsRef::<LanguageIdentifier>::as_ref(*s), &lid)).map(|s| s.0).collect();
            let got_set: std::collections::BTreeSet<u8> = got.iter().map(|s| s.0).collect();
            let mut bad = None;
            if got_set != want || got_set.len() != got.len() {
                bad = Some("the set of matches differs from the supported locales that match");
            } else if let Some(exact) = cfg.iter().find(|s| s.as_str() == *u) {
                if got.first() != Some(exact) {
                    bad = Some("the exact match is not listed first");
                }
            }
            if let Some(b) = bad {
                rep.violation(
                    format!("C12/find_matchs: supported {:?} langid {u} -> {:?}: {b}", cfg.iter().map(|l| l.as_str()).collect::<Vec<_>>(), got.iter().map(|l| l.as_str()).collect::<Vec<_>>()),
                    json!({}),
                );
            }
        }
        // the same lists as an Accept-Language header (entries joined with commas, as a browser sends them) through
        // the request path: resolve_locale_with_options with an injected header - what the contexts start from
        let mut n_header = 0u64;
        if cfg.len() <= tier.pick(2, 3) || ci % tier.pick(7, 2) == 0 {
            let chunk: Vec<&Vec<&str>> = lists.iter().filter(|l| !l.is_empty() && !l.iter().any(|e| e.is_empty())).collect();
            for part in chunk.chunks(256) {
                crate::rt::with_owner(|| {
                    CONFIG.set(cfg);
                    for l in part {
                        let header = l.join(",");
                        let h2 = header.clone();
                        let opts = leptos_i18n::context::I18nContextOptions::<HL>::default()
                            .enable_cookie(false)
                            .ssr_lang_header_getter(leptos_i18n::context::UseLocalesOptions::default().ssr_lang_header_getter(move || Some(h2.clone())));
                        let answer = leptos_i18n::locale::resolve_locale_with_options::<HL>(opts);
                        n_header += 1;
                        let v = judge(cfg, l, answer);
                        if !v.ok {
                            rep.violation(
                                format!("C12/header: supported {:?} (default first) Accept-Language {header:?} -> {}: {}", cfg.iter().map(|l| l.as_str()).collect::<Vec<_>>(), answer, v.why),
                                json!({"supported": cfg.iter().map(|l| l.as_str()).collect::<Vec<_>>(), "header": header, "answer": answer.as_str()}),
                            );
                        }
                    }
                });
            }
        }
        rep.eval((lists.len() + UNIVERSE.len()) as u64 + n_header);
        rep.nontriv(nontrivial);
        outcomes.lock().unwrap().extend(local_out);
    });
    rep.sample(json!({"supported": ["de", "fr", "en-US", "fr-FR"], "requested": ["fr", "en-US"], "note": "default first"}));
    rep.sample(json!({"supported": configs[configs.len() / 2].iter().map(|l| l.as_str()).collect::<Vec<_>>(), "requested": lists[lists.len() - 7]}));
    let mut cov = serde_json::Map::new();
    cov.insert("rule".into(), json!(format!("supported sets: every subset of size 1..4 of {UNIVERSE:?} with each member as default (thorough: both listing orders); request lists: every list of length 0..3 over the universe + {REQUEST_ONLY:?}; each pair through the real Locale::find_locale, each (set, langid) through find_matchs, and - for the sets of <= 2 (thorough 3) locales and every 7th (2nd) larger one - every non-empty list as an Accept-Language header through resolve_locale_with_options (the request path of the contexts); oracle (relation): answer supported; it matches the first request any supported locale matches (exactly or as a less specific form); an exact match for that request wins; no match -> default; unparsable entries skipped; distinct_nontrivial counts pairs whose decisive request is not the only usable one")));
    cov.insert("exhaustive".into(), json!(true));
    cov.insert("distinct_answers".into(), json!(outcomes.lock().unwrap().len()));
    rep.finish(cov, &["BCP-47 parsing is icu_locid's (trusted)", "the generated enum's side of the contract (get_all, as_langid) is C13's"])
}
