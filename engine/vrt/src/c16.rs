//! C16: every operation history (bounded depth) over a growing tree of contexts, replayed on
//! fresh Owners with effects enabled; after every step every context, scoped view and accessor
//! created so far is read and compared with a `ctx -> locale` map.

use crate::i18n::*;
use crate::rt::*;
use leptos::prelude::*;
use leptos_i18n::context::{init_i18n_context_with_options, init_i18n_subcontext_with_options, I18nContextOptions, UseLocalesOptions};
use leptos_i18n::{I18nContext, Locale as _};
use serde_json::json;
use std::collections::BTreeSet;
use std::sync::Mutex;
use vmodel::par::par_for;
use vmodel::{Reporter, Tier};

const NAMES: [&str; 6] = ["en", "fr", "de", "en-US", "pt-BR", "pt-PT"];
fn loc(i: usize) -> Locale {
    [Locale::en, Locale::fr, Locale::de, Locale::en_US, Locale::pt_BR, Locale::pt_PT][i]
}
fn idx(l: Locale) -> usize {
    NAMES.iter().position(|n| *n == l.as_str()).unwrap()
}

#[derive(Clone, Copy, Debug, PartialEq, Eq)]
pub enum Init {
    None,
    Const(usize),
    Wired(usize),
}

#[derive(Clone, Copy, Debug, PartialEq, Eq)]
pub enum Op {
    Set(usize, usize),
    SetUntracked(usize, usize),
    /// set through a scoped view of the context
    SetViaScope(usize, usize),
    Sub(usize, Init),
    /// a sub-context created through the generated `<I18nSubContextProvider>` component in the parent's owner
    SubProv(usize, Init),
    /// a sub-context created with `provide_i18n_subcontext` (the entry point without options) in a child owner
    SubFn(usize, Init),
    /// a sub-context created inside a tracking scope (a Memo in a child owner, as a reactive view closure or a
    /// `<Show>` would): the scope is read again after every step, a re-run of it builds the sub-context anew
    SubInMemo(usize, Init),
    /// `use_i18n()` looked up now in the owner the context was provided in, then `set_locale` through that handle
    SetViaLookup(usize, usize),
    SigSet(usize, usize),
    MakeAccessors(usize),
    Poll,
}

// ---------------------------------------------------------------------------------------------
// Model
// ---------------------------------------------------------------------------------------------

#[derive(Clone, Debug, Default)]
pub struct Model {
    /// admissible locales of each context (a singleton except in the wired-signal window)
    pub cands: Vec<BTreeSet<usize>>,
    /// wired signal of a context: (current value, pending value not yet propagated by effects)
    pub wired: Vec<Option<(usize, Option<usize>)>>,
    pub accessors: Vec<usize>, // context each accessor set was made from
    pub has_scope_setter: Vec<bool>,
    /// the last write to the context was `set_locale_untracked`: subscribers were not told, they may be stale
    pub untracked_last: Vec<bool>,
    /// effects ran since the last write to the context
    pub polled: Vec<bool>,
    /// a set_locale on the context (or a write of the wired signal back to its old value) fell between a write to
    /// its wired signal and the next poll: only then either value may win
    pub set_in_window: Vec<bool>,
}

impl Model {
    pub fn new() -> Model {
        Model { cands: vec![[0].into()], wired: vec![None], accessors: vec![], has_scope_setter: vec![false], untracked_last: vec![false], polled: vec![true], set_in_window: vec![false] }
    }
    pub fn enabled(&self, max_ctx: usize, set_locales: &[usize]) -> Vec<Op> {
        let mut v = vec![];
        let n = self.cands.len();
        for c in 0..n {
            for &l in set_locales {
                v.push(Op::Set(c, l));
                v.push(Op::SetUntracked(c, l));
            }
            // (these two write the two Portuguese locales: one language, different plural rules - 0 is `one` in pt-BR, `other` in pt-PT)
            v.push(Op::SetViaScope(c, 5));
            v.push(Op::SetViaLookup(c, 4));
            if n < max_ctx {
                v.push(Op::SubProv(c, Init::None));
                v.push(Op::SubProv(c, Init::Const(2)));
                v.push(Op::SubFn(c, Init::None));
                v.push(Op::SubFn(c, Init::Wired(1)));
                v.push(Op::SubInMemo(c, Init::None));
                v.push(Op::Sub(c, Init::None));
                v.push(Op::Sub(c, Init::Const(2)));
                v.push(Op::Sub(c, Init::Wired(1)));
            }
            if self.accessors.len() < 2 && !self.accessors.contains(&c) {
                v.push(Op::MakeAccessors(c));
            }
            if let Some((w, _)) = self.wired[c] {
                // set the wired signal to a value different from / equal to its current one
                // (.. (w + 2) % 3: from the wired start value fr this is en - the locale a parent created first had when the
                // sub-context was made: a wired value equal to the parent's is still the wired value)
                v.push(Op::SigSet(c, (w + 2) % 3));
                v.push(Op::SigSet(c, w));
            }
        }
        v.push(Op::Poll);
        v
    }
    pub fn apply(&mut self, op: Op) {
        match op {
            Op::Set(c, l) | Op::SetUntracked(c, l) | Op::SetViaScope(c, l) | Op::SetViaLookup(c, l) => {
                self.untracked_last[c] = matches!(op, Op::SetUntracked(..));
                self.polled[c] = false;
                let pending = self.wired[c].and_then(|w| w.1);
                self.cands[c] = [l].into();
                if let Some(p) = pending {
                    // a wired value is on its way: either may win (statement silent)
                    self.cands[c].insert(p);
                    self.set_in_window[c] = true;
                }
            }
            Op::Sub(parent, init) | Op::SubProv(parent, init) | Op::SubFn(parent, init) | Op::SubInMemo(parent, init) => {
                let start: BTreeSet<usize> = match init {
                    Init::None => self.cands[parent].clone(),
                    Init::Const(l) | Init::Wired(l) => [l].into(),
                };
                self.cands.push(start);
                self.wired.push(match init {
                    Init::Wired(l) => Some((l, None)),
                    _ => None,
                });
                self.has_scope_setter.push(false);
                self.untracked_last.push(false);
                self.polled.push(false);
                self.set_in_window.push(false);
            }
            Op::SigSet(c, l) => {
                self.polled[c] = false;
                if let Some((w, pending)) = &mut self.wired[c] {
                    if *w != l {
                        *w = l;
                        *pending = Some(l);
                        self.cands[c].insert(l);
                    } else if pending.is_some() {
                        // set back before effects ran: the memo may or may not see a change
                        self.cands[c].insert(l);
                        self.set_in_window[c] = true;
                    }
                }
            }
            Op::MakeAccessors(c) => {
                self.accessors.push(c);
                // the new effect has not run yet
                self.polled[c] = false;
            }
            Op::Poll => {
                for p in self.polled.iter_mut() {
                    *p = true;
                }
                for c in 0..self.cands.len() {
                    if let Some((_, pending)) = &mut self.wired[c] {
                        if let Some(p) = pending.take() {
                            // (nothing else was written inside the window: the context follows its wired signal)
                            if !std::mem::replace(&mut self.set_in_window[c], false) || self.cands[c].len() <= 1 || !self.cands[c].contains(&p) {
                                self.cands[c] = [p].into();
                            } else {
                                // a set happened inside the window: keep both admissible, but after
                                // the effects ran the value is stable; we cannot know which -> keep set
                                self.cands[c].insert(p);
                            }
                        }
                    }
                }
            }
        }
    }
}

// ---------------------------------------------------------------------------------------------
// Real objects
// ---------------------------------------------------------------------------------------------

type Reader = Box<dyn Fn() -> String>;

struct Real {
    ctxs: Vec<I18nContext<Locale>>,
    owners: Vec<Owner>,
    wired: Vec<Option<RwSignal<Locale>>>,
    accessors: Vec<(usize, Vec<(&'static str, Reader)>)>,
    /// subscribers: a memo over `t_string!` and an effect writing what it sees into a sink
    reactive: Vec<(usize, Memo<String>, std::sync::Arc<std::sync::Mutex<Option<String>>>)>,
    /// one Memo per tracked accessor, each holding that accessor alone (a subscription any other read would give is
    /// not there to hide a missing one)
    memos: Vec<(usize, Vec<(&'static str, Memo<String>)>)>,
    /// the views of the provider components (they own the providers' owners)
    views: Vec<AnyView>,
    /// sub-contexts made inside a tracking scope: (context index, the scope, what its last run made)
    in_scope: Vec<(usize, Memo<usize>, ScopeSlot)>,
    /// owners that must live as long as the history
    keep: Vec<Owner>,
}

type ScopeSlot = std::sync::Arc<std::sync::Mutex<Option<(I18nContext<Locale>, Owner)>>>;

fn no_header() -> UseLocalesOptions {
    UseLocalesOptions::default().ssr_lang_header_getter(|| None)
}

fn strip(html: String) -> String {
    // remove leptos' text-node separators / comments
    let mut s = html.replace("<!>", "");
    while let (Some(a), Some(b)) = (s.find("<!--"), s.find("-->")) {
        if b < a {
            break;
        }
        s.replace_range(a..b + 3, "");
    }
    s
}

impl Real {
    fn new() -> Real {
        let opts = I18nContextOptions::<Locale>::default().enable_cookie(false).ssr_lang_header_getter(no_header());
        let root = Owner::current().expect("owner");
        let ctx: I18nContext<Locale> = init_i18n_context_with_options(opts);
        provide_context(ctx);
        Real { ctxs: vec![ctx], owners: vec![root], wired: vec![None], accessors: vec![], reactive: vec![], memos: vec![], views: vec![], in_scope: vec![], keep: vec![] }
    }
    fn apply(&mut self, op: Op) {
        match op {
            Op::Set(c, l) => self.ctxs[c].set_locale(loc(l)),
            Op::SetUntracked(c, l) => self.ctxs[c].set_locale_untracked(loc(l)),
            Op::SetViaScope(c, l) => {
                let ctx = self.ctxs[c];
                let scoped = scope_i18n!(ctx, group);
                let deeper = scope_i18n!(scoped, deep);
                deeper.set_locale(loc(l));
            }
            Op::Sub(parent, init) => {
                // (the parent is found the way an application finds it: it was provided in the parent's owner)
                let child_owner = self.owners[parent].child();
                let (ctx, sig) = child_owner.with(|| {
                    let made = match init {
                        Init::None => (init_i18n_subcontext_with_options::<Locale>(None, None, None, Some(no_header())), None),
                        Init::Const(l) => (init_i18n_subcontext_with_options::<Locale>(Some(Signal::derive(move || loc(l))), None, None, Some(no_header())), None),
                        Init::Wired(l) => {
                            let s = RwSignal::new(loc(l));
                            (init_i18n_subcontext_with_options::<Locale>(Some(s.into()), None, None, Some(no_header())), Some(s))
                        }
                    };
                    provide_context(made.0);
                    made
                });
                self.ctxs.push(ctx);
                self.owners.push(child_owner);
                self.wired.push(sig);
            }
            Op::SubProv(parent, init) => {
                let initial = match init {
                    Init::None => None,
                    Init::Const(l) | Init::Wired(l) => Some(Signal::derive(move || loc(l))),
                };
                let (view, ctx, owner) = self.owners[parent].with(|| provider_sub(initial, None, leptos_i18n::context::CookieOptions::<Locale>::default().ssr_cookies_header_getter(|| None), no_header()));
                self.views.push(view);
                self.ctxs.push(ctx);
                self.owners.push(owner);
                self.wired.push(None);
            }
            Op::SubFn(parent, init) => {
                let child_owner = self.owners[parent].child();
                let (ctx, sig) = child_owner.with(|| match init {
                    Init::None => (leptos_i18n::context::provide_i18n_subcontext::<Locale>(None), None),
                    Init::Const(l) => (leptos_i18n::context::provide_i18n_subcontext::<Locale>(Some(Signal::derive(move || loc(l)))), None),
                    Init::Wired(l) => {
                        let s = RwSignal::new(loc(l));
                        (leptos_i18n::context::provide_i18n_subcontext::<Locale>(Some(s.into())), Some(s))
                    }
                });
                self.ctxs.push(ctx);
                self.owners.push(child_owner);
                self.wired.push(sig);
            }
            Op::SubInMemo(parent, init) => {
                let child_owner = self.owners[parent].child();
                let slot: ScopeSlot = Default::default();
                let slot2 = slot.clone();
                let runs = std::sync::Arc::new(std::sync::atomic::AtomicUsize::new(0));
                let scope = child_owner.with(|| {
                    Memo::new(move |_| {
                        let initial = match init {
                            Init::None => None,
                            Init::Const(l) | Init::Wired(l) => Some(Signal::derive(move || loc(l))),
                        };
                        let ctx = init_i18n_subcontext_with_options::<Locale>(initial, None, None, Some(no_header()));
                        provide_context(ctx);
                        *slot2.lock().unwrap() = Some((ctx, Owner::current().expect("owner of the scope")));
                        runs.fetch_add(1, std::sync::atomic::Ordering::SeqCst) + 1
                    })
                });
                let _ = scope.get_untracked();
                let (ctx, owner) = slot.lock().unwrap().clone().expect("the scope ran");
                self.in_scope.push((self.ctxs.len(), scope, slot));
                self.ctxs.push(ctx);
                self.owners.push(owner);
                self.wired.push(None);
                self.keep.push(child_owner);
            }
            Op::SetViaLookup(c, l) => {
                let handle: I18nContext<Locale> = self.owners[c].with(use_i18n);
                handle.set_locale(loc(l));
            }
            Op::SigSet(c, l) => {
                if let Some(s) = self.wired[c] {
                    s.set(loc(l));
                }
            }
            Op::MakeAccessors(c) => {
                let ctx = self.ctxs[c];
                let v_hello = t!(ctx, hello);
                let v_greet = t!(ctx, greet, name = "N");
                let scoped = scope_i18n!(ctx, group.deep);
                let v_leaf = t!(scoped, leaf, name = "N");
                let v_items = t!(ctx, items, count = || 2);
                // the format macros on a context: views and closures created now, rendered after later locale changes
                let v_fnum = leptos_i18n::t_format!(ctx, move || 1234567.5f64, formatter: number);
                let v_flist = leptos_i18n::tu_format!(ctx, move || ["A", "B", "C"], formatter: list(list_type: and));
                // plural selectors made now, called after later locale changes (0: `one` in fr / pt-BR, `other` elsewhere;
                // ordinal 2: `two` in en / en-US only)
                let v_plural = leptos_i18n::t_plural!(ctx, count = || 0, one => "one", _ => "other");
                let v_plural_ord = leptos_i18n::t_plural_ordinal!(ctx, count = || 2, two => "two", one => "one", _ => "other");
                let readers: Vec<(&'static str, Reader)> = vec![
                    ("closure t_plural!(0)", Box::new(move || v_plural().to_string())),
                    ("closure t_plural_ordinal!(2)", Box::new(move || v_plural_ord().to_string())),
                    ("t!(hello)", Box::new(move || strip(v_hello().to_html()))),
                    ("t!(greet)", Box::new(move || strip(v_greet().to_html()))),
                    ("t!(scoped leaf)", Box::new(move || strip(v_leaf().to_html()))),
                    ("t!(items)", Box::new(move || strip(v_items().to_html()))),
                    ("t_format!(number)", Box::new(move || strip(v_fnum.clone().into_view().to_html()))),
                    ("tu_format!(list)", Box::new(move || strip(v_flist.clone().into_view().to_html()))),
                    ("t_format_string!(number)", Box::new(move || leptos_i18n::t_format_string!(ctx, 1234567.5f64, formatter: number).to_string())),
                    ("t_string!(hello)", Box::new(move || t_string!(ctx, hello).to_string())),
                    ("tu_string!(hello)", Box::new(move || tu_string!(ctx, hello).to_string())),
                    ("t_display!(greet)", Box::new(move || t_display!(ctx, greet, name = "N").to_string())),
                    ("t_string!(scoped leaf)", Box::new(move || t_string!(scoped, leaf, name = "N").to_string())),
                ];
                self.accessors.push((c, readers));
                let memo = Memo::new(move |_| {
                    // through the context and through a scoped view of it (a scoped context is itself a derived signal)
                    let scoped = scope_i18n!(ctx, group.deep);
                    let a = t_string!(ctx, hello).to_string();
                    let b = t_string!(scoped, leaf, name = "N").to_string();
                    let suffix = a.trim_start_matches("hello-").to_string();
                    if b == format!("leaf-{suffix} N") {
                        a
                    } else {
                        format!("{a} BUT scoped view gives {b}")
                    }
                });
                let scoped_m = scope_i18n!(ctx, group.deep);
                let singles: Vec<(&'static str, Memo<String>)> = vec![
                    ("memo t_string!(hello)", Memo::new(move |_| t_string!(ctx, hello).to_string())),
                    ("memo t_display!(greet)", Memo::new(move |_| t_display!(ctx, greet, name = "N").to_string())),
                    ("memo t_string!(greet)", Memo::new(move |_| t_string!(ctx, greet, name = "N").to_string())),
                    ("memo t!(hello)", Memo::new(move |_| strip(t!(ctx, hello)().to_html()))),
                    ("memo t!(items)", Memo::new(move |_| strip(t!(ctx, items, count = || 2)().to_html()))),
                    ("memo t_string!(scoped leaf)", Memo::new(move |_| t_string!(scoped_m, leaf, name = "N").to_string())),
                    ("memo t_display!(scoped leaf)", Memo::new(move |_| t_display!(scoped_m, leaf, name = "N").to_string())),
                    ("memo t_format_string!(number)", Memo::new(move |_| leptos_i18n::t_format_string!(ctx, 1234567.5f64, formatter: number).to_string())),
                    ("memo t_format_display!(list)", Memo::new(move |_| leptos_i18n::t_format_display!(ctx, ["A", "B", "C"], formatter: list(list_type: and)).to_string())),
                    ("memo get_locale hello", Memo::new(move |_| format!("hello-{}", ctx.get_locale().as_str()))),
                    // the category of 0 is `one` in fr / pt-BR and `other` in en / de / pt-PT
                    ("memo t_plural!(0)", Memo::new(move |_| (leptos_i18n::t_plural!(ctx, count = || 0, one => "one", _ => "other"))().to_string())),
                    ("memo t_plural_ordinal!(2)", Memo::new(move |_| (leptos_i18n::t_plural_ordinal!(ctx, count = || 2, two => "two", one => "one", _ => "other"))().to_string())),
                    ("memo t_format!(number)", Memo::new(move |_| strip(leptos_i18n::t_format!(ctx, move || 1234567.5f64, formatter: number).into_view().to_html()))),
                ];
                self.memos.push((c, singles));
                let sink = std::sync::Arc::new(std::sync::Mutex::new(None));
                let sink2 = sink.clone();
                self.owners[c].with(|| {
                    Effect::new(move |_| {
                        *sink2.lock().unwrap() = Some(t_string!(ctx, greet, name = "N").to_string());
                    })
                });
                self.reactive.push((c, memo, sink));
            }
            Op::Poll => poll(),
        }
    }
}

fn expected_text(which: &str, l: usize) -> String {
    let n = NAMES[l];
    // formatters: what the eager, locale-explicit macro gives for the context's current locale
    if which.contains("t_plural!(0)") {
        return if l == 1 || l == 4 { "one" } else { "other" }.to_string();
    }
    if which.contains("t_plural_ordinal!(2)") {
        // ordinal 2: `two` in en (2nd), `other` in fr / de / pt
        return if l == 0 || l == 3 { "two" } else { "other" }.to_string();
    }
    if which.contains("(number)") {
        return leptos_i18n::td_format_string!(loc(l), 1234567.5f64, formatter: number).to_string();
    }
    if which.contains("(list)") {
        return leptos_i18n::td_format_string!(loc(l), ["A", "B", "C"], formatter: list(list_type: and)).to_string();
    }
    if which.contains("hello") {
        format!("hello-{n}")
    } else if which.contains("greet") {
        format!("greet-{n} N")
    } else if which.contains("leaf") {
        format!("leaf-{n} N")
    } else {
        format!("2 items-{n}")
    }
}

/// replay a history on fresh objects; after every step compare every observable with the model
fn replay(history: &[Op], snapshots: Option<&mut Vec<String>>) -> Option<String> {
    // a history that ends in a panic shows nothing of what the statement promises: reported as such
    match std::panic::catch_unwind(std::panic::AssertUnwindSafe(|| replay_inner(history, snapshots))) {
        Ok(r) => r,
        Err(p) => Some(format!("PANIC while replaying: {}", vmodel::par::take_panic_message(p))),
    }
}

fn replay_inner(history: &[Op], snapshots: Option<&mut Vec<String>>) -> Option<String> {
    with_owner(|| {
        let mut real = Real::new();
        let mut model = Model::new();
        let mut snaps = snapshots;
        for (step, op) in history.iter().enumerate() {
            real.apply(*op);
            model.apply(*op);
            // tracking scopes that made a sub-context: read again, as the view they stand for would be; what the
            // scope's last run made is the sub-context the application now sees
            for (c, scope, slot) in &real.in_scope {
                let _ = scope.get_untracked();
                let (ctx, owner) = slot.lock().unwrap().clone().expect("the scope ran");
                real.ctxs[*c] = ctx;
                real.owners[*c] = owner;
            }
            // contexts
            let mut snap = String::new();
            for (c, ctx) in real.ctxs.iter().enumerate() {
                let got = idx(ctx.get_locale_untracked());
                snap.push_str(&format!("c{c}={} ", NAMES[got]));
                if !model.cands[c].contains(&got) {
                    return Some(format!("after step {step} ({op:?}) context {c} reads {} but the last locale set on it is {:?}", NAMES[got], model.cands[c].iter().map(|i| NAMES[*i]).collect::<Vec<_>>()));
                }
                // `use_i18n()` in the owner the context was provided in finds this context, whatever was created
                // next to it since
                let looked_up = idx(real.owners[c].with(use_i18n).get_locale_untracked());
                if looked_up != got {
                    return Some(format!("after step {step} ({op:?}) use_i18n() in the owner of context {c} finds a context reading {} while context {c} reads {}", NAMES[looked_up], NAMES[got]));
                }
                // a scoped view created now reads the same locale
                let scoped = scope_i18n!(*ctx, group);
                let sgot = idx(scoped.get_locale_untracked());
                if sgot != got {
                    return Some(format!("after step {step} ({op:?}) a scoped view of context {c} reads {} while the context reads {}", NAMES[sgot], NAMES[got]));
                }
                let text = t_string!(scoped, inner);
                if text != format!("inner-{}", NAMES[got]) {
                    return Some(format!("after step {step} ({op:?}) scoped t_string! of context {c} gives {text:?} while the context reads {}", NAMES[got]));
                }
            }
            for (c, readers) in &real.accessors {
                let got = idx(real.ctxs[*c].get_locale_untracked());
                for (name, r) in readers {
                    let text = r();
                    if text != expected_text(name, got) {
                        return Some(format!("after step {step} ({op:?}) accessor {name} made earlier from context {c} gives {text:?} while the context reads {}", NAMES[got]));
                    }
                }
            }
            // subscribers created earlier: told of every tracked write (a memo at once, an effect once effects ran);
            // after an untracked write they may lag until the next tracked one
            for (c, memo, sink) in &real.reactive {
                let got = idx(real.ctxs[*c].get_locale_untracked());
                if model.untracked_last[*c] || model.cands[*c].len() != 1 {
                    continue;
                }
                let m = memo.get_untracked();
                if m != expected_text("hello", got) {
                    return Some(format!("after step {step} ({op:?}) a memo over t_string!(hello) created earlier from context {c} holds {m:?} while the context reads {}", NAMES[got]));
                }
                if model.polled[*c] {
                    let e = sink.lock().unwrap().clone();
                    if e.as_deref() != Some(expected_text("greet", got).as_str()) {
                        return Some(format!("after step {step} ({op:?}) an effect over t_string!(greet) created earlier from context {c} last saw {e:?} while the context reads {}", NAMES[got]));
                    }
                }
            }
            for (c, singles) in &real.memos {
                let got = idx(real.ctxs[*c].get_locale_untracked());
                if model.untracked_last[*c] || model.cands[*c].len() != 1 {
                    continue;
                }
                for (name, memo) in singles {
                    let m = memo.get_untracked();
                    if m != expected_text(name, got) {
                        return Some(format!("after step {step} ({op:?}) a {name} created earlier from context {c} (nothing else tracked in it) holds {m:?} while the context reads {}", NAMES[got]));
                    }
                }
            }
            if let Some(s) = snaps.as_deref_mut() {
                s.push(snap);
            }
        }
        None
    })
}

fn enumerate(prefix: &mut Vec<Op>, model: &Model, depth: usize, max_ctx: usize, set_locales: &[usize], out: &mut dyn FnMut(&[Op])) {
    if !prefix.is_empty() {
        out(prefix);
    }
    if prefix.len() == depth {
        return;
    }
    for op in model.enabled(max_ctx, set_locales) {
        let mut m = model.clone();
        m.apply(op);
        prefix.push(op);
        enumerate(prefix, &m, depth, max_ctx, set_locales, out);
        prefix.pop();
    }
}

pub fn run(tier: Tier) -> i32 {
    let rep = Reporter::new("C16", "RT", tier);
    let depth = tier.pick(4, 5);
    let max_ctx = 3;
    let set_locales: Vec<usize> = vec![1, 2];
    // work items: every 2-op prefix
    let mut prefixes: Vec<Vec<Op>> = vec![];
    {
        let m0 = Model::new();
        for a in m0.enabled(max_ctx, &set_locales) {
            let mut m1 = m0.clone();
            m1.apply(a);
            for b in m1.enabled(max_ctx, &set_locales) {
                prefixes.push(vec![a, b]);
            }
        }
    }
    // histories of length 1 (length 2 are the work items themselves)
    let states = Mutex::new(BTreeSet::<String>::new());
    for a in Model::new().enabled(max_ctx, &set_locales) {
        rep.eval(1);
        if let Some(v) = replay(&[a], None) {
            rep.violation(format!("C16: {v} :: history {:?}", [a]), json!({"history": format!("{:?}", [a])}));
        }
    }
    let samples = Mutex::new(vec![]);
    par_for(prefixes.len(), |_, i| {
        let pre = &prefixes[i];
        let mut model = Model::new();
        for op in pre {
            model.apply(*op);
        }
        let mut n = 0u64;
        let mut steps = 0u64;
        let mut local_states = BTreeSet::new();
        let mut p = pre.clone();
        let mut first_violation: Option<(Vec<Op>, String)> = None;
        enumerate(&mut p, &model, depth, max_ctx, &set_locales, &mut |h: &[Op]| {
            n += 1;
            steps += h.len() as u64;
            let mut snaps = vec![];
            // the check of every prefix is repeated inside replay: a violation is attributed to the
            // shortest history showing it (shorter histories are enumerated first)
            if let Some(v) = replay(h, Some(&mut snaps)) {
                if first_violation.is_none() {
                    first_violation = Some((h.to_vec(), v));
                }
            }
            if let Some(s) = snaps.last() {
                local_states.insert(s.clone());
            }
        });
        if let Some((h, v)) = first_violation {
            rep.violation(format!("C16: {v} :: history {h:?}"), json!({"history": format!("{h:?}")}));
        }
        rep.eval(n);
        rep.trans(steps);
        states.lock().unwrap().extend(local_states);
        if i % 97 == 0 {
            samples.lock().unwrap().push(format!("{:?}", pre));
        }
    });
    // determinism self-check: the same history twice gives the same observations
    let probe = [Op::Sub(0, Init::Wired(1)), Op::SigSet(1, 2), Op::Set(1, 1), Op::Poll, Op::MakeAccessors(1)];
    let (mut a, mut b) = (vec![], vec![]);
    let ra = replay(&probe[..depth.min(probe.len())], Some(&mut a));
    let rb = replay(&probe[..depth.min(probe.len())], Some(&mut b));
    if a != b || ra != rb {
        vmodel::report::machinery_fail("C16 replay is not deterministic");
    }
    rep.nontriv(states.lock().unwrap().len() as u64);
    for s in samples.lock().unwrap().iter().take(3) {
        rep.sample(json!({"history_prefix": s}));
    }
    rep.sample(json!({"history": format!("{probe:?}"), "snapshots": a}));
    let n_states = states.lock().unwrap().len();
    let mut cov = serde_json::Map::new();
    cov.insert("rule".into(), json!(format!("every operation history of length <= {depth} over a tree of <= {max_ctx} contexts: set_locale / set_locale_untracked (fr, de) on any context, set through a doubly scoped view (to pt-PT), sub-context creation under any context with no / constant / caller-wired initial locale - directly (init_i18n_subcontext_with_options in a child owner) through the generated <I18nSubContextProvider> component placed in the parent's owner, with provide_i18n_subcontext in a child owner, or inside a tracking scope (a Memo in a child owner that is read again after every step, as a reactive view closure is: a re-run replaces the sub-context by the one it builds) -, set_locale (to pt-BR: with pt-PT two locales of one language whose plural rules differ on 0) through a handle looked up with use_i18n() in a context's owner after everything created next to it, writes to a wired signal (changing and not changing its value), creation of accessor sets (t! closures with and without arguments and scoping, t_plural! / t_plural_ordinal! closures, t_string!, tu_string!, t_display!, the format macros; a Memo + Effect pair, and one Memo per tracked accessor - t_string!, t_display!, t!, the scoped forms, t_format_string!, t_format_display!, t_format!, t_plural!, t_plural_ordinal!, get_locale - holding that accessor alone) and `poll` (run effects to quiescence - also absent, so both 'effects have run' and 'not yet' are explored); each history is replayed from scratch on a fresh Owner (stateless search) and after EVERY step every context, a fresh scoped view of it and every accessor made earlier is read; oracle: a map context -> last locale set (own sets and its wired signal only); states = distinct (context locales) snapshots reached")));
    cov.insert("exhaustive".into(), json!(true));
    cov.insert("states".into(), json!(n_states.max(1)));
    cov.insert("depth".into(), json!(depth));
    rep.finish(cov, &["between a write to a wired signal and the next poll either the old or the new locale is admitted; a set inside that window may or may not be overridden", "browser-side effects (cookie write, <html lang>) are not observable natively"])
}
