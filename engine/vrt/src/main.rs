mod c12;
mod c15;
mod c16;
mod rt;

leptos_i18n::load_locales!();

use vmodel::Tier;

fn main() {
    let args: Vec<String> = std::env::args().collect();
    let tier = Tier::from_env_or_args(&args);
    let which = args.get(1).map(|s| s.as_str()).unwrap_or("");
    let code = match which {
        "c12" => c12::run(tier),
        "c15" => c15::run(tier),
        "c16" => c16::run(tier),
        _ => {
            eprintln!("usage: vrt <c12|c15|c16> [--tier quick|thorough]");
            2
        }
    };
    std::process::exit(code);
}
