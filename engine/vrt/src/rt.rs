//! Native reactive runtime: an Owner per case, effects enabled (reactive_graph/effects), and a
//! deterministic executor owned by the harness: every task - also the ones leptos hands to the
//! "thread pool" (`Effect::new_isomorphic`) - is queued on the *calling thread's* local pool and
//! runs only when the harness polls. No scheduling decision is left to the OS.

use any_spawner::{CustomExecutor, Executor, PinnedFuture, PinnedLocalFuture};
use futures::executor::{LocalPool, LocalSpawner};
use futures::task::LocalSpawnExt;
use leptos::prelude::*;
use std::cell::RefCell;
use std::sync::Once;

thread_local! {
    static POOL: RefCell<LocalPool> = RefCell::new(LocalPool::new());
    static SPAWNER: LocalSpawner = POOL.with(|p| p.borrow().spawner());
}

struct Deterministic;

impl CustomExecutor for Deterministic {
    fn spawn(&self, fut: PinnedFuture<()>) {
        SPAWNER.with(|s| s.spawn_local(fut).expect("spawn"));
    }
    fn spawn_local(&self, fut: PinnedLocalFuture<()>) {
        SPAWNER.with(|s| s.spawn_local(fut).expect("spawn_local"));
    }
    fn poll_local(&self) {
        POOL.with(|p| {
            if let Ok(mut p) = p.try_borrow_mut() {
                p.run_until_stalled();
            }
        });
    }
}

static INIT: Once = Once::new();

pub fn init_executor() {
    INIT.call_once(|| {
        Executor::init_custom_executor(Deterministic).expect("executor already set");
    });
}

/// run effects to quiescence on this thread
pub fn poll() {
    Executor::poll_local();
}

/// Run `f` under a fresh root Owner; everything created under it is disposed afterwards and the
/// tasks left in the queue are drained (they find their signals disposed and stop).
pub fn with_owner<T>(f: impl FnOnce() -> T) -> T {
    init_executor();
    let owner = Owner::new();
    let r = owner.with(f);
    poll();
    owner.cleanup();
    drop(owner);
    poll();
    r
}

use crate::i18n::{use_i18n, I18nSubContextProvider, Locale};
use leptos_i18n::context::{CookieOptions, UseLocalesOptions};
use leptos_i18n::I18nContext;
use std::sync::{Arc, Mutex};

/// A sub-context created the way an application does it: through the generated `<I18nSubContextProvider>`
/// component, in the *current* owner. Returns the view (keep it: it owns the provider's owner) and, taken
/// from inside the provider's children with `use_i18n()`, the sub-context and the owner it lives in.
pub fn provider_sub(initial: Option<Signal<Locale>>, cookie_name: Option<&'static str>, co: CookieOptions<Locale>, lo: UseLocalesOptions) -> (AnyView, I18nContext<Locale>, Owner) {
    let cell: Arc<Mutex<Option<(I18nContext<Locale>, Owner)>>> = Arc::new(Mutex::new(None));
    let c2 = cell.clone();
    let grab = move || {
        *c2.lock().unwrap() = Some((use_i18n(), Owner::current().expect("owner inside the provider")));
        "x"
    };
    let v = match (initial, cookie_name) {
        (Some(i), Some(n)) => view! { <I18nSubContextProvider initial_locale=i cookie_name=n cookie_options=co ssr_lang_header_getter=lo>{grab()}</I18nSubContextProvider> }.into_any(),
        (Some(i), None) => view! { <I18nSubContextProvider initial_locale=i cookie_options=co ssr_lang_header_getter=lo>{grab()}</I18nSubContextProvider> }.into_any(),
        (None, Some(n)) => view! { <I18nSubContextProvider cookie_name=n cookie_options=co ssr_lang_header_getter=lo>{grab()}</I18nSubContextProvider> }.into_any(),
        (None, None) => view! { <I18nSubContextProvider cookie_options=co ssr_lang_header_getter=lo>{grab()}</I18nSubContextProvider> }.into_any(),
    };
    let (ctx, owner) = cell.lock().unwrap().take().expect("the provider ran its children");
    (v, ctx, owner)
}

/// The main context created the way an application does it: through the generated `<I18nContextProvider>` component.
pub fn provider_main(enable_cookie: bool, set_dir: bool, set_lang: bool, cookie_name: Option<&'static str>, co: CookieOptions<Locale>, lo: UseLocalesOptions) -> (AnyView, I18nContext<Locale>) {
    use crate::i18n::I18nContextProvider;
    let cell: Arc<Mutex<Option<I18nContext<Locale>>>> = Arc::new(Mutex::new(None));
    let c2 = cell.clone();
    let grab = move || {
        *c2.lock().unwrap() = Some(use_i18n());
        "x"
    };
    let v = match cookie_name {
        Some(n) => view! { <I18nContextProvider enable_cookie=enable_cookie set_dir_attr_on_html=set_dir set_lang_attr_on_html=set_lang cookie_name=n cookie_options=co ssr_lang_header_getter=lo>{grab()}</I18nContextProvider> }.into_any(),
        None => view! { <I18nContextProvider enable_cookie=enable_cookie set_dir_attr_on_html=set_dir set_lang_attr_on_html=set_lang cookie_options=co ssr_lang_header_getter=lo>{grab()}</I18nContextProvider> }.into_any(),
    };
    let ctx = cell.lock().unwrap().take().expect("the provider ran its children");
    (v, ctx)
}
