#!/usr/bin/env python3
"""Writes /verif/engine/vloom/shadow/Cargo.toml: a package named `leptos_i18n` whose [lib] path is
/repo/leptos_i18n/src/lib.rs, with the real manifest's dependencies (workspace = true entries
inlined from /repo/Cargo.toml) plus `loom`. /repo's manifests gain no dependency."""
import os, tomllib

def fmt(v):
    if isinstance(v, bool):
        return "true" if v else "false"
    if isinstance(v, str):
        return '"' + v.replace("\\", "\\\\").replace('"', '\\"') + '"'
    if isinstance(v, list):
        return "[" + ", ".join(fmt(x) for x in v) + "]"
    if isinstance(v, dict):
        return "{ " + ", ".join(f"{k} = {fmt(x)}" for k, x in v.items()) + " }"
    return str(v)

def main():
    ws = tomllib.load(open("/repo/Cargo.toml", "rb"))
    m = tomllib.load(open("/repo/leptos_i18n/Cargo.toml", "rb"))
    wsdeps = ws["workspace"]["dependencies"]
    out = ['[package]', 'name = "leptos_i18n"', f'version = "{ws["workspace"]["package"]["version"]}"', 'edition = "2021"', '',
           '[lib]', 'path = "/repo/leptos_i18n/src/lib.rs"', '', '[dependencies]']
    for name, spec in m["dependencies"].items():
        if isinstance(spec, str):
            spec = {"version": spec}
        spec = dict(spec)
        if spec.pop("workspace", False):
            base = wsdeps[name]
            if isinstance(base, str):
                base = {"version": base}
            base = dict(base)
            if "default_features" in base:
                base["default-features"] = base.pop("default_features")
            feats = list(base.get("features", [])) + list(spec.get("features", []))
            merged = {**base, **{k: v for k, v in spec.items() if k != "features"}}
            if feats:
                merged["features"] = feats
            spec = merged
        if "path" in spec:
            spec["path"] = os.path.normpath(os.path.join("/repo", spec["path"]))
            spec.pop("version", None)
        out.append(f"{name} = {fmt(spec)}")
    out.append('loom = "0.7"')
    out += ['', '[features]']
    for k, v in m["features"].items():
        out.append(f"{k} = {fmt(v)}")
    text = "\n".join(out) + "\n"
    p = "/verif/engine/vloom/shadow/Cargo.toml"
    if not os.path.exists(p) or open(p).read() != text:
        open(p, "w").write(text)

if __name__ == "__main__":
    main()
