#!/usr/bin/env python3
"""Regenerates MANIFEST.json from the table below (kept in one place so it is always valid)."""
import json, os, subprocess

ROOT = os.path.dirname(os.path.abspath(__file__))

# id -> (technique, level text, level_note, design_ref)
L1_NOTE = "Seam L1: the real leptos_i18n_parser::parse_locales run on project directories generated from the AST (never parsed back). Trusted: the tree evaluator + reference semantics in vmodel, ICU4X CLDR data. Further seams (generated crates, run time) appear in evidence.coverage.engines when they ran."

CLAIMED = {
    "C01": (
        "bounded exhaustive enumeration of value forests executed on the real parser (L1) and through generated crates (L3), compared with a reference renderer",
        "Every value forest over Text/Var/Comp up to the node bound, every whitespace combination inside tags and variables, every payload pair next to every delimiter, all literal-type pairs, in three containers (top level, nested subkeys, namespaces) is parsed by the real parse_locales and its tree evaluated the way generated code reads it; the result must equal the reference rendering of the AST the files were generated from.",
        L1_NOTE + " Text alphabet excludes lone '<', '{{', '$t(' (no documented escape).",
        "DESIGN.md §3 C01",
    ),
    "C03": (
        "exhaustive enumeration of every inherits map x presence pattern, executed on the real loader, compared with a chain-walk reference",
        "For 3- and 4-locale sets, every map from non-default locales to {none, any locale incl. itself and the default} and, per map, one key per (value kind x defined/null/absent pattern) plus every subkey-group state combination: the loader's DefaultedLocales::compute() and the rendered (self-identifying) text of every key in every locale must equal the chain walk of the statement.",
        L1_NOTE,
        "DESIGN.md §3 C03",
    ),
    "C04": (
        "exhaustive enumeration of range declarations x counts (all 256 for i8/u8) on the real loader against an independent spec parser + Rust comparison semantics",
        "Every 1- and 2-branch (thorough: 3-branch) declaration over the spec alphabet for i8/u8 is evaluated for all 256 counts from the parsed Range<T> structures and selected at parse time through $t(r,{count:n}); wider integer types and floats are covered on boundary neighbourhoods and extremes; declarations the statement rejects must be errors, a literal count no branch contains must be an error - never a panic or a wrong branch.",
        L1_NOTE + " Rust's FromStr/PartialOrd define what bounds mean. Empty/inverted ranges may be rejected or accepted.",
        "DESIGN.md §3 C04",
    ),
    "C05": (
        "exhaustive enumeration of plural-form subsets x rule type x locales x counts 0..=200 on the real loader against direct ICU4X calls",
        "All 31 subsets of {zero..many}+other, cardinal and ordinal, for a locale set spanning the CLDR category patterns: merged trees evaluated for counts 0..=200 and large operands, parse-time selection for each such count and decimal operands, UnusedForm diagnostics as an exact multiset, and the error side (cardinal+ordinal under one key, collision with a plain key, forms without _other).",
        L1_NOTE,
        "DESIGN.md §3 C05",
    ),
    "C06": (
        "exhaustive enumeration of reference chains (every name assignment), small digraphs incl. cycles, locale and namespace variants on the real loader against a pure-substitution reference",
        "Every chain of depth <= 2 (thorough 3) over 15 referencing forms x 7 target kinds in every assignment of key names, all digraphs on <= 3 nodes, 4-locale projects with explicit-null and inherited targets, two-namespace layouts: accepted projects must render exactly the substitution semantics in every locale, rejected ones must give an Err naming a key.",
        L1_NOTE + " A target absent from the same locale's file cannot be referenced (documented) - expected Err.",
        "DESIGN.md §3 C06",
    ),
}

NOT_YET = "check not built yet in this round (design in DESIGN.md §3); no claim is made"


def main():
    props = [json.loads(l) for l in open(os.path.join(ROOT, "properties.jsonl"))]
    hooks_commits = []
    try:
        out = subprocess.run(["git", "-C", "/repo", "log", "--format=%H %s"], capture_output=True, text=True).stdout
        for line in out.splitlines():
            sha, _, subj = line.partition(" ")
            if subj.startswith("verif-hook:"):
                hooks_commits.append(sha)
    except Exception:
        pass
    checks, na = [], []
    for p in props:
        pid = p["id"]
        if pid in CLAIMED:
            tech, text, note, ref = CLAIMED[pid]
            checks.append({
                "property_id": pid,
                "quick_cmd": f"./check {pid} --tier quick",
                "thorough_cmd": f"./check {pid} --tier thorough",
                "evidence_file": f"/verif/evidence/{pid}.json",
                "replay_cmd_template": f"./check {pid} --replay {{path}}",
                "engine": "vengine",
                "level_claimed": {"category": "model_checking", "text": text, "design_ref": ref},
                "level_note": note,
                "technique": tech,
            })
        else:
            na.append({"property_id": pid, "reason": NOT_YET})
    m = {
        "version": 1,
        "setup_cmd": "./setup.sh",
        "hooks": {
            "guard": "cargo features `verif_hooks` (leptos_i18n_router) and `verif_loom` (leptos_i18n); both add no dependency and are off by default",
            "enable": "harness crates under /verif/engine depend on /repo crates by path and switch the features on in their own Cargo.toml; nothing is enabled in /repo's own manifests",
            "baseline_off_cmd": "cd /repo && cargo test --workspace --no-fail-fast --offline",
            "source_commits": hooks_commits,
            "add_only": True,
        },
        "engines": [
            {"name": "vengine", "path": "/verif/engine", "serves_properties": sorted(CLAIMED.keys()),
             "kind_free_text": "Rust workspace: vmodel (AST, serialisers, reference semantics, enumerators, verdict plumbing), vparse (L1: real parse_locales on generated projects), further harness binaries per seam; ./check dispatches and merges evidence"},
        ],
        "checks": checks,
        "not_applicable": na,
        "notes": "Exit codes of every check: 0 held, 1 violation (VIOLATION line + replay file), 2 machinery failure (never a verdict). Known findings: /verif/known_findings.jsonl.",
    }
    with open(os.path.join(ROOT, "MANIFEST.json"), "w") as fh:
        json.dump(m, fh, indent=1)
    print("MANIFEST.json written:", len(checks), "claimed,", len(na), "not claimed")


if __name__ == "__main__":
    main()
