#!/usr/bin/env python3
"""Regenerates MANIFEST.json from the table below (kept in one place so it is always valid)."""
import json, os, subprocess

ROOT = os.path.dirname(os.path.abspath(__file__))

# id -> (technique, level text, level_note, design_ref)
L1_NOTE = "Seam L1: the real leptos_i18n_parser::parse_locales run on project directories generated from the AST (never parsed back). Trusted: the tree evaluator + reference semantics in vmodel, ICU4X CLDR data. Further seams (generated crates, run time) appear in evidence.coverage.engines when they ran."

CLAIMED = {
    "C01": (
        "bounded exhaustive enumeration of value forests executed on the real parser (L1) and through generated crates (L3), compared with a reference renderer",
        "Every value forest over Text/Var/Comp up to the node bound, every whitespace combination inside tags and variables, literal segments made of white space only, numbers and booleans taken in through references, the value kinds (incl. references to a value that holds a reference) under every inherits map of a four-locale set declared in every order, every payload pair next to every delimiter, all literal-type pairs, in three containers (top level, nested subkeys, namespaces) is parsed by the real parse_locales and its tree evaluated the way generated code reads it; the result must equal the reference rendering of the AST the files were generated from. A shared probe crate holds values with 0..3 tag look-alikes (<br>, <hr/>, <p>) before and between real components, with ASCII and multi-byte text: nothing of the text is lost. References followed by white space (with and without arguments; at the end of the value, before more text, at both ends) keep it. Arguments reach a variable inside a component, a nested one, inside and outside at once, renamed on the way.",
        L1_NOTE + " Text alphabet excludes lone '<', '{{', '$t(' (no documented escape).",
        "DESIGN.md §3 C01",
    ),
    "C03": (
        "exhaustive enumeration of every inherits map x presence pattern, executed on the real loader (L1) and through the generated accessors of probe crates (L3), compared with a chain-walk reference",
        "For 3- and 4-locale (thorough 5-locale) sets declared in every order (the default first, in the middle, last), every map from non-default locales to {none, any locale incl. itself and the default} and, per map, one key per (value kind x defined/null/absent pattern) plus every subkey-group state combination: the loader's DefaultedLocales::compute() and the rendered (self-identifying) text of every key in every locale must equal the chain walk of the statement; (L3) the same projects compiled through the proc-macro: every key read in every locale through td_string! must show the chain walk's text. For every inherits map over three locales a project whose non-default files write keys twice (value then null, null then value, value then value; plain, interpolation, group, inside a group): the later occurrence counts.",
        L1_NOTE,
        "DESIGN.md §3 C03",
    ),
    "C04": (
        "exhaustive enumeration of range declarations x counts (all 256 for i8/u8) on the real loader (L1), in generated match arms of probe crates (L3) and through the real code generator (L2), against an independent spec parser + Rust comparison semantics",
        "Every 1- and 2-branch (thorough: 3-branch) declaration over the spec alphabet for i8/u8 is evaluated for all 256 counts from the parsed Range<T> structures and selected at parse time through $t(r,{count:n}); wider integer types and floats are covered on boundary neighbourhoods and extremes; declarations in which two branches share one value; counts just outside the count type (rejected, never wrapped); float ranges with counts written as JSON integers (negative ones too); three- and four-level reference chains in which a middle key renames the count and outer keys pass an unrelated `count` must keep the range on its renamed count; declarations the statement rejects must be errors, a literal count no branch contains must be an error - never a panic or a wrong branch. Run-time float counts include NaN and both infinities. Bounds and counts include values no f32 holds exactly (0.1, 0.3, 0.7), at parse time and at run time.",
        L1_NOTE + " Rust's FromStr/PartialOrd define what bounds mean. Empty/inverted ranges may be rejected or accepted.",
        "DESIGN.md §3 C04",
    ),
    "C05": (
        "exhaustive enumeration of plural-form subsets x rule type x locales x counts 0..=200 on the real loader (L1) and in generated probe crates (L3) against direct ICU4X calls",
        "All 31 subsets of {zero..many}+other, cardinal and ordinal, for a locale set spanning the CLDR category patterns: merged trees evaluated for counts 0..=200 and large operands, parse-time selection for each such count and decimal operands, UnusedForm diagnostics as an exact multiset, and the error side (cardinal+ordinal under one key, collision with a plain key - also one that is itself named like a form (lone k_two, k_one+k_two) -, forms without _other), and forms written as the empty string.",
        L1_NOTE,
        "DESIGN.md §3 C05",
    ),
    "C06": (
        "exhaustive enumeration of reference chains (every name assignment), small digraphs incl. cycles, inherits maps x null/absent targets, locale and namespace variants on the real loader (L1) and in generated probe crates (L3) against a pure-substitution reference",
        "Every chain of depth <= 2 (thorough 3) over 18 referencing forms (argument texts with multi-byte characters) x 10 target kinds in every assignment of key names, special targets (groups, missing keys, paths with a dangling middle segment), all digraphs on <= 3 nodes, 4-locale projects with explicit-null and inherited targets, two-namespace layouts: accepted projects must render exactly the substitution semantics in every locale, rejected ones must give an Err naming a key. String arguments holding markup (a component alone, next to text, around a variable, nested, self-closed) go into a plain target, a wrapping target and through two hops. Literal float counts (whole and fractional) to f32 / f64 ranges with exact values and span ends.",
        L1_NOTE + " A target absent from the same locale's file cannot be referenced (documented) - expected Err.",
        "DESIGN.md §3 C06",
    ),
    "C07": (
        "exhaustive enumeration of per-locale key-set patterns x inherits x suppress_key_warnings build on the real loader (L1) against an exact-multiset diagnostics model, plus positive/negative compile probes of the generated key set (L3)",
        "Every combination of presence/null/absence/group-value swap over a nested key universe, plural states and eight surplus shapes (incl. a surplus plural with a form its locale never selects) for a non-default locale (thorough: a third locale with every inherits map), with and without namespaces, the locales declared in every order, in the normal and the suppress_key_warnings build: the multiset of MissingKey/SurplusKey/UnusedForm diagnostics, the accessible key set, SubKeyMissmatch errors and every rendered key must be exactly what the statement says; (L3) namespaces with their own key and argument sets declared in a non-alphabetical order (thorough: all 6 orders of 3) compile and render each key with exactly its own arguments. Subkey groups and ranges named like plural forms stay the keys they are written as (64 projects, flat and namespaced). Plural forms that live only inside subkey groups (one and two levels deep) of files without top-level forms.",
        L1_NOTE,
        "DESIGN.md §3 C07",
    ),
    "C08": (
        "exhaustive enumeration of per-locale value-kind tuples for one key on the real loader (L1) against a union-of-signatures model, plus compile probes (supplying exactly the union compiles, omitting any member does not) through the real proc-macro (L3)",
        "Every 1-, 2- and 3-tuple of value kinds across locales (string, variables with and without formatters, components, three range types, plural, foreign keys renaming the count, fixing it (at an exact value, at the last value of a bounded branch) or passing an argument into a component / a plural form of the target or an argument that is itself a component, null, number, bool): the observed argument set (with count typing and formatter families) must be the union over locales after substitution, and count-typing conflicts must be the documented errors. Kinds include ranges that are nothing but their fallback arm (typed and untyped). A literal count to an ordinal plural whose forms need different things.",
        L1_NOTE + " L3: one probe binary per omitted member, judged by `cargo check` diagnostics naming the probe file.",
        "DESIGN.md §3 C08",
    ),
    "C09": (
        "exhaustive enumeration of token strings (<= 5/6 tokens), range specs, JSON shapes, foreign-key forms, inherits loops, file contents and nesting depths executed on the real loader (L1), the real code generator load_locales() (L2) and the build helper (vbuild) under catch_unwind + watchdog + subprocess isolation",
        "All strings over a 21-token adversarial alphabet up to the bound, one string per character-class edge (C0 / DEL / C1 controls, separators, BMP and astral edges) in six contexts, go through ParsedValue::new and, for shorter ones, through real files and the whole loader - at a plain key and, for the reference forms and short strings, in 9 positions (plural _one / _other / middle form, ordinal _other, range branch and fallback, subkey, non-default locale, reference argument), without and with namespaces; plus all range-count token strings, JSON number classes (as range bounds and as literal counts handed to a range and to a plural), small JSON shapes in value position, foreign-key target/argument/position products, whole-file contents, missing project pieces, 18 whole files around plural merging and repeated keys (through the loader, the code generator and the build helper) and 1..2000 deep/long constructs in subprocesses: every outcome must be Ok or a non-empty Err - no panic, crash, or hang. Code generation also runs under every inherits map over three non-default locales (loops and loops entered from outside included) x which of them define a key, with a 30 s watchdog per request: a silent generator is killed and reported.",
        L1_NOTE + " Depth bound 2000 on an 8 MiB stack.",
        "DESIGN.md §3 C09",
    ),
    "C10": (
        "exhaustive permutation of key order (k<=4/5) over a project corpus, two fresh processes, and three front-end builds of the real loader compared by canonical dump (L1); generated token streams compared across permutations and processes (L2)",
        "For every corpus project (reference chains, inherits maps, value forests, ranges of every small shape, plural groups, configurations) every permutation of the keys of its files (reversal/rotation for larger files), nested groups reversed and {count,value} fields flipped must give the identical canonical dump (keys, signatures, effective locales, string tables, diagnostics, rendered text or error); the dump must also be identical in two fresh processes and, reduced to format-independent content, across the JSON, JSON5 and YAML builds (YAML: also with some files carrying the other extension). The corpus holds keys next to form-named neighbours that do not merge (step / step_one) and one that does (the same error in every order).",
        L1_NOTE + " Numeric literal type may differ between front-ends (stated in the property).",
        "DESIGN.md §3 C10",
    ),
    "C11": (
        "exhaustive sweep of every Unicode scalar value and nasty two-character strings through the real loader (L1), the generated code's table sizes and indices (L2, syn visitor), the build helper's written files (vbuild, strict JSON reader) and the tables embedded in server-rendered pages (L3), checking every literal index against the exported table",
        "Every Unicode scalar as a one-character translation and all pairs over 14 hostile characters, in flat, nested-subkey, namespaced, defaulted and foreign-key-duplicated layouts: each Literal::String(s,i) must satisfy strings[i]==s with i in range, and the string count recorded in every (sub-)locale must equal the table length; plus every assignment of 3 shared strings / an interpolation / null to 2 keys in 3-4 locales (x inherits x namespaces) and, for the build helper, every sequence of <= 3 exports of 4 project variants into one output directory; every assignment of 7 literal kinds to one key in 3 locales; (L3) the tables embedded in server-rendered pages (dynamic_load + ssr probe crates, every ordered subset of touched units incl. units with empty tables, eager and lazy reads) must decode to the tables the server function exports. For every project of the model corpus (plurals with keys between their forms, ranges, references, namespaces, inherits) the decoded table the build helper exports equals the strings list of the macro-way parse (ICU feature checks on), file by file, order included. The same invariants are checked on every project of every other L1 check. Each exported table is also read back through the library's client-side type LocaleServerFnOutputClient. Pages also read a unit only through the td! view of a key without literal text. A plain key that the second locale leaves to the default, read in either locale as the only read of its unit.",
        L1_NOTE + " File written by the build helper / generated-code sizes: see engines vbuild / L2 in the evidence when present.",
        "DESIGN.md §3 C11",
    ),
    "C19": (
        "exhaustive enumeration of small configurations x directory layouts with unparsable decoys on the real parse_locales_raw",
        "Every locale list of length 0..3 (duplicates included) or missing x default listed/unlisted/missing x namespace lists x every single-entry inherits table over known and unknown names x locales-dir, ten surrounding manifest shapes (the table first / alone / indented / CRLF / its header quoted in a comment), every order of the table's fields and unknown fields in every position: accepted iff the statement says so, default first, same set, and the tracked files are exactly the expected (namespace, locale) paths while every decoy file is unparsable.",
        L1_NOTE,
        "DESIGN.md §3 C19",
    ),
    "C12": (
        "exhaustive enumeration of supported-locale sets x request lists over a closed identifier universe through the real Locale::find_locale / find_matchs (RT, harness-defined Locale) and on the generated enum of probe crates (L3: default listed first / last / not at all), relational oracle",
        "Every subset of size 1..4 of 12 identifiers (language/script/region/variant combinations and `und`) with each member as default, against every request list of length 0..3 over the universe plus unsupported, mis-cased and unparsable entries (1.2e7 calls): the answer must be supported, match the first request anything supports (exactly or as a less specific form), prefer an exact match for that request, fall back to the default, ignore unparsable entries; the same lists also travel as an Accept-Language header through resolve_locale_with_options (the request path of the contexts). (L3) the same oracle inside probe crates on the enum the proc-macro generates, for 5 (thorough 9) configurations and every request list of length <= 2 over 18 strings: the default is the configured one wherever it was listed.",
        "Seam RT: the repo's negotiation code linked natively; the Locale trait is implemented by a harness type whose get_all() is chosen per configuration (the generated enum's side is C13's). BCP-47 parsing is icu_locid's.",
        "DESIGN.md §3 C12",
    ),
    "C15": (
        "exhaustive enumeration of environments (cookie header x cookie options x Accept-Language x parent x initial locale) on natively created contexts with injected header getters (RT), and of header values on generated enums whose default is declared first / in the middle / last / not at all (L3)",
        "All ~1.7e5 environments build real contexts (init_i18n_context_with_options, init_i18n_subcontext_with_options, resolve_locale_with_options, and the generated <I18nContextProvider> / <I18nSubContextProvider> components - the former under every value of its html-attribute props, the latter alone and after a sibling provider holding another locale, which is not the parent) under the ssr feature with effects run to quiescence on a harness-owned executor; the configured locales have mixed specificity (en, fr, de, en-US) and the Accept-Language values include lists whose preferred entry maps to a less specific locale than a later one; the initial locale must follow cookie > Accept-Language best match (the C12 oracle: first matchable entry, exact match preferred) > default, and for sub-contexts cookie > initial > parent > same resolution; invalid cookie values are ignored. (L3) configurations with variant subtags (de next to de-1996; ca-valencia, de-CH-1996, de-CH) and headers with and without them. Headers of 7-9 entries whose last entry is the first that matches.",
        "Seam RT (ssr). Client-only branches (navigator.languages, <html lang>) need a browser and are not executed. Accept-Language entries are fed without spaces (splitting is leptos-use's).",
        "DESIGN.md §3 C15",
    ),
    "C16": (
        "stateless exhaustive exploration of operation histories (depth <= 4/5) over a tree of contexts, replayed on the real reactive runtime under a harness-owned deterministic executor",
        "Every history of set_locale / set_locale_untracked / set-through-scoped-view / set through a handle looked up with use_i18n() in the context's owner / sub-context creation (none, constant, wired initial locale; directly, through the generated <I18nSubContextProvider> component placed in the parent's owner, with provide_i18n_subcontext, or inside a tracking scope - a Memo that is read again after every step, whose re-run would replace the sub-context) / wired-signal writes / accessor creation / poll up to the depth bound is replayed from scratch on a fresh Owner; after every step every context, use_i18n() in its owner, a fresh scoped view and every accessor created earlier (t!, t_string!, tu_string!, t_display!, scoped) is read and compared with a context -> last-locale map; subscribers created earlier (a Memo over t_string! and an Effect writing what it sees into a sink; one Memo per tracked accessor - t_string!, t_display!, t!, scoped forms, t_format_string!, t_format_display!, get_locale - holding it alone) must hold the last locale after every tracked write (the effect once effects ran; after an untracked write they may lag until the next tracked one); replay determinism is self-checked. The harness has two locales of one language with different plural rules (pt-BR, pt-PT); the scoped setter and the looked-up handle write them. t_plural! / t_plural_ordinal! closures made earlier are accessors too.",
        "Seam RT (ssr, reactive_graph/effects). All tasks, including those leptos hands to the thread pool, run on the calling thread's queue when the harness polls. Wired-signal window: either value admitted until the next poll.",
        "DESIGN.md §3 C16",
    ),
    "C14": (
        "explicit-state exploration of (URL, locale) under locale-switch sequences plus exhaustive single calls, on the real path functions (verif_hooks feature) and on a natively built <I18nRoute> (generate_routes / match_nested over a closed path universe, plain leptos_router as reference)",
        "For 7 locale sets (names that are prefixes of each other and of path words), 6 base-path spellings and a route table with static / param / optional / splat / localized segments: get_locale_from_path on every short path (words in several letter cases) - under the base, under near misses of it (segments glued, extended, missing; 2- and 3-segment bases) and elsewhere - against a whole-segment oracle, and the server-side redirect of unprefixed requests and the absence of one for requests under every explicit locale prefix, the default's too (the matched view of the real <I18nRoute> chosen under a RequestUrl and a recording redirect hook), and a BFS over every sequence of <= 3 (thorough 4) locale switches from every page URL in every locale (with/without query, fragment, route table), each step calling the real get_new_path: only the prefix and the localized segments may change, A->B->A returns the original URL, the locale read back is the one switched to, and the real route objects match the URL before and after as the same route with the same parameters. The real <I18nRoute> (children written with i18n_path!) is built natively per locale set: its generate_routes() must be the N+1 families, the segment tables it stores (used for the switches above) the per-locale tables, and match_nested() on every path of <= 3-4 segments over locale names, localized words, glued / truncated / upper-cased names must read a locale only from a first segment equal to a locale name.",
        "Seam RT via cargo feature verif_hooks (thin re-exports of the private functions; named in the property's hook_needed). The browser glue (effects, navigate, popstate, view_wrapper) needs web_sys and is modelled by the driver. Plain leptos_router (the same table with static segments in one locale's words) is the trusted reference for what a route table matches.",
        "DESIGN.md §3 C14",
    ),
    "C20": (
        "exhaustive enumeration of (formatter/plural family, placement) singles and pairs on the real build helper against a used-family predicate computed from the AST",
        "Each of 11 families (cardinal / plain / ordinal plurals, plurals whose count carries a number / currency formatter, 6 formatters) at each of 9 placements (default locale, non-default only, next to a non-string literal in the other locale, nested subkeys, range branch, plural form, only as a foreign-key target, second namespace, unreachable surplus key, none), namespaced or not, over 5 locale sets (incl. names with variant subtags), plus pairs of placements: the characteristic ICU data key of a family must be requested iff a reachable key uses the family in some locale (plural rules: the key of the kind in use - cardinal or ordinal - is required, no plural at all forbids both); reported locales, language identifiers, namespaces and file list must be exactly the configured ones. Placement plain-variable-in-default: the default locale prints the count / the variable plain and only another locale makes it a plural count or gives it the formatter. Placement range-in-both-used-in-the-later-one: a range in both locales whose branches use the family in the later locale only.",
        "Seam: leptos_i18n_build::TranslationsInfos linked natively (parser built with `quote` as in a user's host build). The provider generation itself (DatagenProvider::new_latest_tested) needs a CLDR download and is not run: the request is what is checked.",
        "DESIGN.md §3 C20",
    ),
    "C02": (
        "exhaustive enumeration of accessor flavours x scoping prefixes x locales x counts over a project holding every key kind, executed in generated probe crates against the reference renderer",
        "A project with one key of every kind at depth 1 and 3 in two namespaces and three locales (inheritance, explicit nulls, gaps) is compiled through the real proc-macro; every key is read through td/t/tu x view/string/display, through scope_locale!/scope_i18n! at every proper prefix (one step and chained) and use_i18n_scoped!, and the const accessor chain, with counts {0,1,2,5}, t! / tu! views built under another locale and rendered after the context moved, and count-driven views whose count closure changes its value after the view closure was built / called once; the ranges of the project have overlapping branches (an exact value and an alternative list written after the bounds containing them: the view and the string back-ends generate their branch chains separately); every record must equal the reference rendering, hence all flavours agree; in a second project (en, bn, sv) keys carrying number formatters are read through all 9 flavours with positive / negative / zero / fractional / integer-typed values, and in a third (en, fr, de, bn) date / time / datetime / list / currency formatters: each must equal the direct ICU4X call. The kinds project also holds values whose literal segments are nothing but blanks (between variables, between components, next to a reference, at both ends). The list value holds an empty item.",
        "Seam L3: only documented macros inside the probe; context flavours run on a natively created I18nContext (ssr). Quick tier thins view flavours under scoping.",
        "DESIGN.md §3 C02",
    ),
    "C13": (
        "exhaustive near-miss string sweep per locale set inside generated probe crates, against configured names and direct ICU4X queries",
        "For 8 (thorough 10) locale sets with regions, scripts, variants, near-duplicates and RTL languages, default listed first / last / not at all, the generated enum is checked inside a probe crate: get_all, every string representation, ICU locale / language identifier, CLDR direction, ScopedLocale forwarding, matching Serialize / Deserialize calls (round trip through formats that are not self-describing), and FromStr / cookie codec / serde over all case flips, prefixes, suffixes, one-character edits, whitespace and separator variants and all strings of length <= 4 over the names' letters. serde round trips also go through a reader, a serde_json::Value and a JSON string written with an escape (the name handed over as an owned string).",
        "Seam L3. ICU4X data is the trusted base for canonical identifiers and directionality. Surrounding whitespace may be accepted or refused (never another locale).",
        "DESIGN.md §3 C13",
    ),
    "C17": (
        "exhaustive enumeration of hostile string contents x ordered subsets of touched translation units, rendered natively by probe crates built with dynamic_load+ssr, decoded by an independent HTML/JS literal reader",
        "All 196 two-character strings over 14 hostile characters plus </script>, <!--, -->, quotes, backtick, newlines, U+2028/9 (alone and inside sentences) are the translations of two probe crates; <I18nContextProvider> is rendered to HTML for every ordered subset of touched (locale, namespace) units - read lazily (render-time closures), eagerly (while the provider's children are built, as t_string! in a component body) or mixed -, for units whose table is empty next to others in every order, for units read only below a nested <I18nSubContextProvider>, for pages walked once with dry_resolve() before rendering, and for a context-driven render with a locale switch; every script element, cut as an HTML tokenizer cuts it, must be one valid assignment, and the decoded array of the last one (what the client finds) lists exactly the touched units, each with the table its server function exports. Each exported table is also read back through the library's client-side type LocaleServerFnOutputClient; the flat probe project names its second locale pt-br (a non-canonical spelling). Pages also read a unit only through the td! view of a key without literal text. A plain key that the second locale leaves to the default, read in either locale as the only read of its unit.",
        "Seam L3 (dynamic_load + ssr), native rendering. The hydrate-side consumer needs a browser and is not executed.",
        "DESIGN.md §3 C17",
    ),
    "C18": (
        "exhaustive enumeration of the documented formatter grammar (L1), of declarations x locales x values against direct ICU4X calls in probe crates with all cache histories (L3), and bounded DPOR over thread interleavings of the real cache under loom",
        "(L1) all 95 formatter texts + 768 whitespace variants must be understood as the documented Formatter value; (L3) each declaration x 7 locales (one rendering another locale's declaration, one with non-Latin default digits) x values (large, zero, small integer, negative, beyond 2^63, negative zero) through td_string!/td!/td_format_string! must equal a direct ICU4X call for the locale being rendered, and every sequence of <= 4/5 colliding cache lookups must give the same results whatever ran before; in a build without compiled data the formatters of a registered provider must also work from threads spawned afterwards; (loom) every interleaving up to 2/3 preemptions of concurrent first uses of the cache (3 scenarios) must give the direct ICU4X results without deadlock or panic. en-GB stands next to en, and every other declaration meets the locales in reverse order (formatters are per locale, not per language, whichever is built first). Lists include one with an empty item.",
        "Seams L1, L3, and loom via cargo feature verif_loom (cache lock and lazy static taken from loom, cache code unchanged; crate built through a shadow manifest that supplies loom). ICU4X compiled data is the trusted base. `time_length: full|long` is a recorded known finding (ICU4X refuses, the library panics).",
        "DESIGN.md §3 C18",
    ),
}

NOT_YET = "check not built yet in this round (design in DESIGN.md §3); no claim is made"


def main():
    props = [json.loads(l) for l in open(os.path.join(ROOT, "properties.jsonl"))]
    hooks_commits = []
    try:
        out = subprocess.run(["git", "-C", "/repo", "log", "--format=%H %s"], capture_output=True, text=True).stdout
        for line in out.splitlines():
            sha, _, subj = line.partition(" ")
            if subj.startswith("verif-hook:"):
                hooks_commits.append(sha)
    except Exception:
        pass
    checks, na = [], []
    for p in props:
        pid = p["id"]
        if pid in CLAIMED:
            tech, text, note, ref = CLAIMED[pid]
            checks.append({
                "property_id": pid,
                "quick_cmd": f"./check {pid} --tier quick",
                "thorough_cmd": f"./check {pid} --tier thorough",
                "evidence_file": f"/verif/evidence/{pid}.json",
                "replay_cmd_template": f"./check {pid} --replay {{path}}",
                "engine": "vengine",
                "level_claimed": {"category": "model_checking", "text": text, "design_ref": ref},
                "level_note": note,
                "technique": tech,
            })
        else:
            na.append({"property_id": pid, "reason": NOT_YET})
    m = {
        "version": 1,
        "setup_cmd": "./setup.sh",
        "hooks": {
            "guard": "cargo features `verif_hooks` (leptos_i18n_router) and `verif_loom` (leptos_i18n); both add no dependency and are off by default",
            "enable": "harness crates under /verif/engine depend on /repo crates by path and switch the features on in their own Cargo.toml (vrouter: verif_hooks; vloom: verif_loom through a shadow manifest generated by tools_loom_shadow.py that adds the loom crate); nothing is enabled in /repo's own manifests",
            "baseline_off_cmd": "cd /repo && cargo test --workspace --no-fail-fast --offline",
            "source_commits": hooks_commits,
            "add_only": True,
        },
        "engines": [
            {"name": "vengine", "path": "/verif/engine", "serves_properties": sorted(CLAIMED.keys()),
             "kind_free_text": "Rust workspace: vmodel (AST, serialisers, reference semantics, enumerators, verdict plumbing), vparse (L1: real parse_locales on generated projects), vcodegen (L2: proc-macro sources included, load_locales() in worker processes), vgen (L3: generated probe crates compiled through the proc-macro and executed), vrt / vrouter / vbuild (native run time), vloom (loom, own workspace); ./check dispatches and merges evidence; see DESIGN.md section 9"},
        ],
        "checks": checks,
        "not_applicable": na,
        "notes": "Exit codes of every check: 0 held, 1 violation (VIOLATION line + replay file), 2 machinery failure (never a verdict). Known findings: /verif/known_findings.jsonl.",
    }
    with open(os.path.join(ROOT, "MANIFEST.json"), "w") as fh:
        json.dump(m, fh, indent=1)
    print("MANIFEST.json written:", len(checks), "claimed,", len(na), "not claimed")


if __name__ == "__main__":
    main()
