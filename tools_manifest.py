#!/usr/bin/env python3
"""Regenerates MANIFEST.json from the table below (kept in one place so it is always valid)."""
import json, os, subprocess

ROOT = os.path.dirname(os.path.abspath(__file__))

# id -> (technique, level text, level_note, design_ref)
CLAIMED = {
    "C01": (
        "bounded exhaustive enumeration of value forests executed on the real parser (L1) and through generated crates (L3), compared with a reference renderer",
        "Every value forest over Text/Var/Comp up to the node bound, every whitespace combination inside tags and variables, every payload pair next to every delimiter, all literal-type pairs, in three containers (top level, nested subkeys, namespaces) is parsed by the real parse_locales and its tree evaluated the way generated code reads it; the result must equal the reference rendering of the AST the files were generated from.",
        "Trusted: the 60-line tree evaluator and the reference renderer (vmodel). Text alphabet excludes lone '<', '{{', '$t(' (no documented escape). L3 half (generated crates through td_string!/td_display!/td!) listed in evidence.engines when run.",
        "DESIGN.md §3 C01",
    ),
}

NOT_YET = "check not built yet in this round (design in DESIGN.md §3); no claim is made"


def main():
    props = [json.loads(l) for l in open(os.path.join(ROOT, "properties.jsonl"))]
    hooks_commits = []
    try:
        out = subprocess.run(["git", "-C", "/repo", "log", "--format=%H %s"], capture_output=True, text=True).stdout
        for line in out.splitlines():
            sha, _, subj = line.partition(" ")
            if subj.startswith("verif-hook:"):
                hooks_commits.append(sha)
    except Exception:
        pass
    checks, na = [], []
    for p in props:
        pid = p["id"]
        if pid in CLAIMED:
            tech, text, note, ref = CLAIMED[pid]
            checks.append({
                "property_id": pid,
                "quick_cmd": f"./check {pid} --tier quick",
                "thorough_cmd": f"./check {pid} --tier thorough",
                "evidence_file": f"/verif/evidence/{pid}.json",
                "replay_cmd_template": f"./check {pid} --replay {{path}}",
                "engine": "vengine",
                "level_claimed": {"category": "model_checking", "text": text, "design_ref": ref},
                "level_note": note,
                "technique": tech,
            })
        else:
            na.append({"property_id": pid, "reason": NOT_YET})
    m = {
        "version": 1,
        "setup_cmd": "./setup.sh",
        "hooks": {
            "guard": "cargo features `verif_hooks` (leptos_i18n_router) and `verif_loom` (leptos_i18n); both add no dependency and are off by default",
            "enable": "harness crates under /verif/engine depend on /repo crates by path and switch the features on in their own Cargo.toml; nothing is enabled in /repo's own manifests",
            "baseline_off_cmd": "cd /repo && cargo test --workspace --no-fail-fast --offline",
            "source_commits": hooks_commits,
            "add_only": True,
        },
        "engines": [
            {"name": "vengine", "path": "/verif/engine", "serves_properties": sorted(CLAIMED.keys()),
             "kind_free_text": "Rust workspace: vmodel (AST, serialisers, reference semantics, enumerators, verdict plumbing), vparse (L1: real parse_locales on generated projects), further harness binaries per seam; ./check dispatches and merges evidence"},
        ],
        "checks": checks,
        "not_applicable": na,
        "notes": "Exit codes of every check: 0 held, 1 violation (VIOLATION line + replay file), 2 machinery failure (never a verdict). Known findings: /verif/known_findings.jsonl.",
    }
    with open(os.path.join(ROOT, "MANIFEST.json"), "w") as fh:
        json.dump(m, fh, indent=1)
    print("MANIFEST.json written:", len(checks), "claimed,", len(na), "not claimed")


if __name__ == "__main__":
    main()
