#!/bin/bash
# tools_seed.sh confirm <wt> <demo-cmd...>   : in the scratch worktree: suite with the change, demo with and without
# tools_seed.sh detect <patch> <check> [..] : apply the patch to /repo, run ./check <id> (quick) for each, undo
set -u
mode="$1"; shift
case "$mode" in
confirm)
  wt="$1"; shift
  export CARGO_TARGET_DIR="$wt/target" CARGO_NET_OFFLINE=true
  cd "$wt" || exit 2
  echo "== suite with the change"
  cargo clean -p tests_common --offline >/dev/null 2>&1
  cargo test --workspace --no-fail-fast --offline 2>&1 | grep -E '^test result|FAILED|^error' | sort | uniq -c | grep -v ' 0 passed'
  # the demo gets its own target dir: it may resolve other dependency versions than the workspace
  export CARGO_TARGET_DIR="$wt/target_demo"
  echo "== demo WITH the change"
  ( eval "$*" ) > "$wt/SEED/demo_with.log" 2>&1; echo "exit=$?"; tail -5 "$wt/SEED/demo_with.log"
  echo "== demo WITHOUT the change"
  # (git stash is shared between the worktrees of one repository: undo and redo with a patch file instead)
  git diff -- leptos_i18n leptos_i18n_macro leptos_i18n_parser leptos_i18n_build leptos_i18n_router > "$wt/SEED/.change.diff"
  git apply -R "$wt/SEED/.change.diff" || { echo "cannot undo the change"; exit 2; }
  ( eval "$*" ) > "$wt/SEED/demo_without.log" 2>&1; echo "exit=$?"; tail -3 "$wt/SEED/demo_without.log"
  git apply "$wt/SEED/.change.diff" || echo "cannot redo the change"
  ;;
detect)
  patch="$1"; shift
  cd /repo || exit 2
  if [ -n "$(git status --porcelain --untracked-files=no)" ]; then echo "/repo has uncommitted changes"; exit 2; fi
  git apply --3way "$patch" 2>/dev/null || git apply "$patch" || { echo "PATCH DOES NOT APPLY"; git checkout -- .; exit 2; }
  git diff --stat | tail -1
  cd /verif
  for id in "$@"; do
    out=$(./check "$id" --tier quick 2>&1); code=$?
    nv=$(echo "$out" | grep -c '^VIOLATION')
    echo "check $id: exit=$code violation_lines=$nv"
    echo "$out" | grep -E 'key:' | head -3 | cut -c1-400
    echo "$out" | grep -E '^\[' | cut -c1-200
  done
  git -C /repo reset -q --hard HEAD ; git -C /repo status --short | head -3
  ;;
esac
